#include "case.h"

#include <cstring>
#include <sstream>

namespace cdsverif {
namespace {
    bool g_failed = false;
    std::string g_msg;
    std::map<std::string, uint64_t> g_classes;
}

    void case_reset()
    {
        g_failed = false;
        g_msg.clear();
        g_classes.clear();
    }
    void fail( std::string const& msg )
    {
        if ( !g_failed ) {
            g_failed = true;
            g_msg = msg;
        }
    }
    bool failed() { return g_failed; }
    std::string const& fail_msg() { return g_msg; }
    void note_class( const char* name, uint64_t n ) { g_classes[name] += n; }
    std::map<std::string, uint64_t>& case_classes() { return g_classes; }

    uint64_t hash_bytes( void const* p, size_t n, uint64_t h )
    {
        const unsigned char* c = static_cast<const unsigned char*>( p );
        for ( size_t i = 0; i < n; ++i ) {
            h ^= c[i];
            h *= 0x100000001b3ull;
        }
        return h;
    }

    SchedParams sched_params( Case const& c )
    {
        SchedParams p;
        p.preempt = c.sched;
        p.start_offset = c.start;
        p.rw_denom = c.rw;
        p.rw_seed = c.seed;
        p.scan_atomic = ( c.opts & 1 ) == 0;
        return p;
    }

    std::string to_text( Case const& c, Schema const& s )
    {
        std::ostringstream o;
        o << "harness " << s.name << "\n";
        o << "variant " << c.variant;
        if ( c.variant >= 0 && size_t( c.variant ) < s.variants.size())
            o << " " << s.variants[c.variant];
        o << "\n";
        o << "cfg";
        for ( size_t i = 0; i < c.cfg.size(); ++i ) {
            o << " ";
            if ( i < s.cfg.size())
                o << s.cfg[i].name << "=";
            o << c.cfg[i];
        }
        o << "\n";
        o << "seed " << c.seed << "\n";
        o << "start " << c.start << "\n";
        o << "rw " << c.rw << "\n";
        if ( c.opts )
            o << "opts " << c.opts << "\n";
        o << "sched";
        for ( auto const& p : c.sched )
            o << " " << p.first << ":" << p.second;
        o << "\n";
        for ( auto const& t : c.prog ) {
            o << "thread";
            for ( Op const& op : t ) {
                o << " ";
                if ( op.code >= 0 && size_t( op.code ) < s.ops.size())
                    o << s.ops[op.code].name;
                else
                    o << "#" << op.code;
                o << ":" << op.a << ":" << op.b;
            }
            o << "\n";
        }
        return o.str();
    }

    bool from_text( std::string const& text, Schema const& s, Case& c, std::string* err )
    {
        c = Case();
        c.harness = s.name;
        std::istringstream in( text );
        std::string line;
        while ( std::getline( in, line )) {
            std::istringstream l( line );
            std::string kw;
            if ( !( l >> kw ) || kw[0] == '#' )
                continue;
            if ( kw == "harness" ) {
                std::string n;
                l >> n;
                if ( n != s.name ) {
                    if ( err )
                        *err = "case is for harness " + n + ", this is " + s.name;
                    return false;
                }
            }
            else if ( kw == "variant" )
                l >> c.variant;
            else if ( kw == "cfg" ) {
                std::string tok;
                while ( l >> tok ) {
                    size_t eq = tok.find( '=' );
                    c.cfg.push_back( atoi( tok.c_str() + ( eq == std::string::npos ? 0 : eq + 1 )));
                }
            }
            else if ( kw == "seed" )
                l >> c.seed;
            else if ( kw == "start" )
                l >> c.start;
            else if ( kw == "rw" )
                l >> c.rw;
            else if ( kw == "opts" )
                l >> c.opts;
            else if ( kw == "sched" ) {
                std::string tok;
                while ( l >> tok ) {
                    unsigned g = 0, t = 0;
                    if ( sscanf( tok.c_str(), "%u:%u", &g, &t ) == 2 )
                        c.sched.push_back( { g, t } );
                }
            }
            else if ( kw == "thread" ) {
                std::vector<Op> ops;
                std::string tok;
                while ( l >> tok ) {
                    size_t p1 = tok.find( ':' );
                    if ( p1 == std::string::npos ) {
                        if ( err )
                            *err = "bad op " + tok;
                        return false;
                    }
                    std::string name = tok.substr( 0, p1 );
                    Op op;
                    op.code = -1;
                    if ( name[0] == '#' )
                        op.code = atoi( name.c_str() + 1 );
                    else
                        for ( size_t i = 0; i < s.ops.size(); ++i )
                            if ( name == s.ops[i].name )
                                op.code = int( i );
                    if ( op.code < 0 ) {
                        if ( err )
                            *err = "unknown op " + name;
                        return false;
                    }
                    sscanf( tok.c_str() + p1 + 1, "%d:%d", &op.a, &op.b );
                    ops.push_back( op );
                }
                c.prog.push_back( ops );
            }
        }
        while ( c.cfg.size() < s.cfg.size())
            c.cfg.push_back( s.cfg[c.cfg.size()].lo );
        return true;
    }

    namespace {
        struct Rd {
            const uint8_t* d;
            size_t n;
            size_t front = 0;
            size_t back;
            Rd( const uint8_t* dd, size_t nn ) : d( dd ), n( nn ), back( nn ) {}
            // integers from the end
            uint32_t tail( uint32_t range )
            {
                if ( range <= 1 )
                    return 0;
                uint32_t v = 0;
                int bytes = range > 65536 ? 4 : range > 256 ? 2 : 1;
                for ( int i = 0; i < bytes; ++i ) {
                    v <<= 8;
                    if ( back > front )
                        v |= d[--back];
                }
                return v % range;
            }
            bool more() const { return front < back; }
            uint32_t head( uint32_t range )
            {
                if ( range <= 1 )
                    return 0;
                uint32_t v = 0;
                if ( front < back )
                    v = d[front++];
                if ( range > 256 ) {
                    v <<= 8;
                    if ( front < back )
                        v |= d[front++];
                }
                return v % range;
            }
        };
    }

    Case from_bytes( const uint8_t* data, size_t size, Schema const& s, bool thorough )
    {
        Case c;
        c.harness = s.name;
        Rd r( data, size );
        c.variant = int( r.tail( uint32_t( s.variants.size())));
        for ( auto const& cs : s.cfg )
            c.cfg.push_back( cs.lo + int( r.tail( uint32_t( cs.hi - cs.lo + 1 ))));
        int maxT = thorough ? s.max_threads_thorough : s.max_threads_quick;
        int maxOps = thorough ? s.max_ops_thorough : s.max_ops_quick;
        int maxPre = thorough ? s.max_preempt_thorough : s.max_preempt_quick;
        int T = s.sequential ? 1 : s.min_threads + int( r.tail( uint32_t( maxT - s.min_threads + 1 )));
        c.seed = r.tail( 1u << 31 );
        c.start = r.tail( uint32_t( T ));
        c.rw = r.tail( 8 ) == 0 ? ( 2u << r.tail( 4 )) : 0;
        int npre = s.sequential ? 0 : int( r.tail( uint32_t( maxPre + 1 )));
        for ( int i = 0; i < npre; ++i ) {
            uint32_t g = r.tail( 1024 );
            uint32_t t = r.tail( 4 );
            c.sched.push_back( { g, t } );
        }
        uint32_t wsum = 0;
        for ( auto const& o : s.ops )
            wsum += uint32_t( o.weight );
        c.prog.resize( size_t( T ));
        // ops from the front: thread selector, op selector, args
        int total = 0;
        int cap = s.sequential ? maxOps : maxOps * T;
        while ( r.more() && total < cap && wsum > 0 ) {
            uint32_t t = s.sequential ? 0 : r.head( uint32_t( T ));
            if ( int( c.prog[t].size()) >= maxOps )
                continue;
            uint32_t w = r.head( wsum );
            size_t k = 0;
            while ( k + 1 < s.ops.size() && w >= uint32_t( s.ops[k].weight )) {
                w -= uint32_t( s.ops[k].weight );
                ++k;
            }
            Op op;
            op.code = int( k );
            op.a = int( r.head( uint32_t( s.ops[k].amax + 1 )));
            op.b = int( r.head( uint32_t( s.ops[k].bmax + 1 )));
            c.prog[t].push_back( op );
            ++total;
        }
        return c;
    }
} // namespace cdsverif
