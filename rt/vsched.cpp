// Token scheduler + pthread interposition. See sched.h and DESIGN.md section 2.
#include "vsched.h"

#include <atomic>
#include <cerrno>
#include <climits>
#include <csignal>
#include <cstdio>
#include <cstdlib>
#include <cstring>
#include <dlfcn.h>
#include <linux/futex.h>
#include <pthread.h>
#include <sched.h>
#include <sys/syscall.h>
#include <time.h>
#include <unistd.h>

extern "C" {
    int __interceptor_pthread_create( pthread_t*, const pthread_attr_t*, void* (*)( void* ), void* ) __attribute__(( weak ));
    int __interceptor_pthread_join( pthread_t, void** ) __attribute__(( weak ));
}

namespace cdsverif {
namespace {

    enum St { ST_RUN, ST_MUTEX, ST_COND, ST_JOIN, ST_DONE };

    struct Thr {
        int id = -1;
        std::atomic<int> go{ 0 };
        St st = ST_RUN;
        void* wait_obj = nullptr;
        bool timed = false;
        bool signalled = false;
        int suppress = 0;
        int freeze = 0;             // pre-emption gaps are not counted (thread attach/detach overhead)
        uint64_t pending_sig = 0;
        pthread_t handle{};
        bool has_handle = false;
        void* (*start)( void* ) = nullptr;
        void* arg = nullptr;
        int exit_pass = 0;
        bool pooled = false;
        std::function<void()> const* body = nullptr;
    };

    struct Session {
        bool active = false;
        std::vector<Thr*> thr;
        int cur = 0;
        SchedParams p;
        size_t pre_idx = 0;
        int64_t until_pre = -1;
        uint64_t consecutive = 0;
        uint64_t rng = 0;
        SchedStats st;
        uint64_t clock = 0;
    };

    Session S;
    std::vector<Thr*> g_pool;       // persistent worker threads, reused by every case
    __thread Thr* t_self = nullptr;
    void (*g_abort_hook)( int ) = nullptr;
    pthread_key_t g_exit_key;
    bool g_exit_key_ok = false;

    // ---- real functions ----------------------------------------------------------
    template <typename F>
    F real( F& slot, const char* name )
    {
        if ( !slot )
            slot = reinterpret_cast<F>( dlsym( RTLD_NEXT, name ));
        return slot;
    }
    typedef int (*mutex_fn)( pthread_mutex_t* );
    typedef int (*cond_fn)( pthread_cond_t* );
    typedef int (*condwait_fn)( pthread_cond_t*, pthread_mutex_t* );
    typedef int (*condtimed_fn)( pthread_cond_t*, pthread_mutex_t*, const struct timespec* );
    typedef int (*condclock_fn)( pthread_cond_t*, pthread_mutex_t*, clockid_t, const struct timespec* );
    typedef int (*create_fn)( pthread_t*, const pthread_attr_t*, void* (*)( void* ), void* );
    typedef int (*join_fn)( pthread_t, void** );
    typedef int (*kill_fn)( pthread_t, int );
    typedef int (*yield_fn)();
    typedef int (*nanosleep_fn)( const struct timespec*, struct timespec* );
    typedef int (*clock_nanosleep_fn)( clockid_t, int, const struct timespec*, struct timespec* );

    mutex_fn r_lock, r_trylock, r_unlock;
    cond_fn r_signal, r_broadcast;
    condwait_fn r_wait;
    condtimed_fn r_timedwait;
    condclock_fn r_clockwait;
    create_fn r_create;
    join_fn r_join;
    kill_fn r_kill;
    yield_fn r_yield;
    nanosleep_fn r_nanosleep;
    clock_nanosleep_fn r_clock_nanosleep;

    int real_create( pthread_t* t, const pthread_attr_t* a, void* (*f)( void* ), void* arg )
    {
        if ( __interceptor_pthread_create )
            return __interceptor_pthread_create( t, a, f, arg );
        return real( r_create, "pthread_create" )( t, a, f, arg );
    }
    int real_join( pthread_t t, void** r )
    {
        if ( __interceptor_pthread_join )
            return __interceptor_pthread_join( t, r );
        return real( r_join, "pthread_join" )( t, r );
    }

    // ---- futex token ---------------------------------------------------------------
    inline void futex_wait( std::atomic<int>* w, int val )
    {
        syscall( SYS_futex, reinterpret_cast<int*>( w ), FUTEX_WAIT_PRIVATE, val, nullptr, nullptr, 0 );
    }
    inline void futex_wake( std::atomic<int>* w )
    {
        syscall( SYS_futex, reinterpret_cast<int*>( w ), FUTEX_WAKE_PRIVATE, 1, nullptr, nullptr, 0 );
    }
    inline void wait_token( Thr* me )
    {
        while ( me->go.load( std::memory_order_acquire ) == 0 )
            futex_wait( &me->go, 0 );
    }

    inline Thr* self_active() noexcept
    {
        Thr* me = t_self;
        if ( !me || !S.active )
            return nullptr;
        return me;
    }

    inline uint64_t next_rng()
    {
        uint64_t z = ( S.rng += 0x9e3779b97f4a7c15ull );
        z = ( z ^ ( z >> 30 )) * 0xbf58476d1ce4e5b9ull;
        z = ( z ^ ( z >> 27 )) * 0x94d049bb133111ebull;
        return z ^ ( z >> 31 );
    }

    inline bool enabled( Thr const* t )
    {
        if ( t->st == ST_RUN )
            return true;
        if ( t->st == ST_COND && ( t->timed || t->signalled ))
            return true;
        if ( t->pending_sig && t->st != ST_DONE )
            return true;
        return false;
    }

    // number of enabled threads other than `me`
    inline int count_others( Thr const* me )
    {
        int n = 0;
        for ( Thr* t : S.thr )
            if ( t != me && enabled( t ))
                ++n;
        return n;
    }

    // k-th enabled thread other than me, in round-robin order starting after me
    Thr* pick_other( Thr const* me, unsigned k )
    {
        int n = count_others( me );
        if ( n == 0 )
            return nullptr;
        k %= unsigned( n );
        size_t sz = S.thr.size();
        size_t start = me ? size_t( me->id ) : 0;
        for ( size_t i = 1; i <= sz; ++i ) {
            Thr* t = S.thr[( start + i ) % sz];
            if ( t != me && enabled( t )) {
                if ( k == 0 )
                    return t;
                --k;
            }
        }
        return nullptr;
    }

    void load_next_preempt()
    {
        if ( S.pre_idx < S.p.preempt.size())
            S.until_pre = int64_t( S.p.preempt[S.pre_idx].first ) + 1;
        else
            S.until_pre = -1;
    }

    [[noreturn]] void abort_case( int reason )
    {
        if ( g_abort_hook )
            g_abort_hook( reason );
        _exit( reason );
    }

    void deliver_signals( Thr* me );

    // hand the token to `to`; the caller sleeps until it gets the token back (unless done)
    void switch_to( Thr* me, Thr* to )
    {
        ++S.st.switches;
        S.st.trace_hash = ( S.st.trace_hash ^ ( S.st.points * 31 + uint64_t( to->id ) * 7 + uint64_t( me ? me->id : 99 ))) * 0x100000001b3ull;
        S.consecutive = 0;
        S.cur = to->id;
        bool sleep = me && me->st != ST_DONE;
        if ( sleep || ( me && me->pooled ))
            me->go.store( 0, std::memory_order_relaxed );
        to->go.store( 1, std::memory_order_release );
        futex_wake( &to->go );
        if ( sleep )
            wait_token( me );
    }

    inline void count_point( Thr* /*me*/ )
    {
        if ( ++S.st.points > S.p.budget )
            abort_case( ab_budget );
    }

    // the caller cannot continue: state already set; run somebody else
    void block_switch( Thr* me )
    {
        ++S.st.blocked;
        Thr* to = pick_other( me, 0 );
        if ( !to )
            abort_case( ab_deadlock );
        switch_to( me, to );
    }

    void thread_done( Thr* me )
    {
        me->st = ST_DONE;
        for ( Thr* t : S.thr )
            if ( t->st == ST_JOIN && t->wait_obj == me ) {
                t->st = ST_RUN;
                t->wait_obj = nullptr;
            }
        if ( !me->pooled )
            t_self = nullptr;
        Thr* to = pick_other( me, 0 );
        if ( !to )
            abort_case( ab_deadlock );
        switch_to( me, to );
    }

    void* pool_main( void* p )
    {
        Thr* me = static_cast<Thr*>( p );
        t_self = me;
        for ( ;; ) {
            wait_token( me );
            ( *me->body )();
            thread_done( me );
        }
        return nullptr;
    }

    void exit_key_dtor( void* p )
    {
        Thr* me = static_cast<Thr*>( p );
        if ( !me )
            return;
        if ( ++me->exit_pass < 3 ) {
            pthread_setspecific( g_exit_key, me );    // re-arm: let the other TLS destructors run under the token
            return;
        }
        if ( S.active && t_self == me )
            thread_done( me );
    }

    void* trampoline( void* p )
    {
        Thr* me = static_cast<Thr*>( p );
        t_self = me;
        pthread_setspecific( g_exit_key, me );
        wait_token( me );
        void* r = me->start( me->arg );
        return r;
    }

    struct Body {
        std::function<void()> const* fn;
    };
    void* body_start( void* p )
    {
        Body* b = static_cast<Body*>( p );
        ( *b->fn )();
        return nullptr;
    }

    Thr* find_by_handle( pthread_t h )
    {
        for ( Thr* t : S.thr )
            if ( t->has_handle && pthread_equal( t->handle, h ))
                return t;
        return nullptr;
    }

    int create_registered( pthread_t* th, const pthread_attr_t* attr, void* (*start)( void* ), void* arg )
    {
        if ( !g_exit_key_ok ) {
            pthread_key_create( &g_exit_key, exit_key_dtor );
            g_exit_key_ok = true;
        }
        Thr* t = new Thr;
        t->id = int( S.thr.size());
        t->start = start;
        t->arg = arg;
        S.thr.push_back( t );
        ++S.st.threads;
        pthread_t h;
        int r = real_create( &h, attr, trampoline, t );
        if ( r != 0 ) {
            t->st = ST_DONE;
            return r;
        }
        t->handle = h;
        t->has_handle = true;
        if ( th )
            *th = h;
        return 0;
    }

    int join_registered( Thr* me, Thr* target, void** ret )
    {
        while ( target->st != ST_DONE ) {
            me->st = ST_JOIN;
            me->wait_obj = target;
            block_switch( me );
            deliver_signals( me );
        }
        me->st = ST_RUN;
        if ( target->pooled )
            return 0;
        return real_join( target->handle, ret );
    }

    void deliver_signals( Thr* me )
    {
        while ( me->pending_sig ) {
            int sig = __builtin_ctzll( me->pending_sig );
            me->pending_sig &= ~( 1ull << sig );
            struct sigaction sa;
            if ( sigaction( sig, nullptr, &sa ) == 0 ) {
                ++me->suppress;
                if ( sa.sa_flags & SA_SIGINFO ) {
                    if ( sa.sa_sigaction ) {
                        siginfo_t si;
                        memset( &si, 0, sizeof( si ));
                        si.si_signo = sig;
                        sa.sa_sigaction( sig, &si, nullptr );
                    }
                }
                else if ( sa.sa_handler != SIG_IGN && sa.sa_handler != SIG_DFL )
                    sa.sa_handler( sig );
                --me->suppress;
            }
        }
    }

    void do_point( Thr* me )
    {
        if ( me->pending_sig )
            deliver_signals( me );
        if ( S.thr.size() < 2 )
            return;
        count_point( me );
        if ( !me->freeze )
            ++S.st.counted;
        if ( me->freeze ) {
            // still a scheduling point for fairness, but not a place the generated schedule aims at
        }
        else if ( S.p.rw_denom ) {
            uint64_t r = next_rng();
            if ( r % S.p.rw_denom == 0 ) {
                Thr* to = pick_other( me, unsigned( r >> 32 ));
                if ( to ) {
                    ++S.st.preemptions;
                    switch_to( me, to );
                    return;
                }
            }
        }
        else if ( S.until_pre > 0 && count_others( me ) > 0 ) {
            if ( --S.until_pre == 0 ) {
                unsigned target = S.p.preempt[S.pre_idx].second;
                ++S.pre_idx;
                load_next_preempt();
                Thr* to = pick_other( me, target );
                if ( to ) {
                    ++S.st.preemptions;
                    switch_to( me, to );
                    return;
                }
            }
        }
        if ( ++S.consecutive > S.p.fairness ) {
            S.consecutive = 0;
            Thr* to = pick_other( me, 0 );
            if ( to ) {
                ++S.st.valve;
                switch_to( me, to );
            }
        }
    }

    void do_yield( Thr* me )
    {
        if ( me->pending_sig )
            deliver_signals( me );
        if ( S.thr.size() < 2 )
            return;
        count_point( me );
        Thr* to = pick_other( me, 0 );
        if ( to ) {
            ++S.st.yields;
            switch_to( me, to );
            if ( me->pending_sig )
                deliver_signals( me );
        }
    }

    void wake_mutex_waiters( pthread_mutex_t* m )
    {
        for ( Thr* t : S.thr )
            if ( t->st == ST_MUTEX && t->wait_obj == m ) {
                t->st = ST_RUN;
                t->wait_obj = nullptr;
            }
    }

    int sched_mutex_lock( Thr* me, pthread_mutex_t* m )
    {
        for ( ;; ) {
            int r = real( r_trylock, "pthread_mutex_trylock" )( m );
            if ( r != EBUSY )
                return r;
            me->st = ST_MUTEX;
            me->wait_obj = m;
            block_switch( me );
            me->st = ST_RUN;
            if ( me->pending_sig )
                deliver_signals( me );
        }
    }

    int sched_cond_wait( Thr* me, pthread_cond_t* c, pthread_mutex_t* m, bool timed )
    {
        real( r_unlock, "pthread_mutex_unlock" )( m );
        wake_mutex_waiters( m );
        me->st = ST_COND;
        me->wait_obj = c;
        me->timed = timed;
        me->signalled = false;
        count_point( me );
        for ( ;; ) {
            Thr* to = pick_other( me, 0 );
            if ( !to ) {
                if ( timed )
                    break;      // nobody else can run: the timeout fires
                abort_case( ab_deadlock );
            }
            ++S.st.blocked;
            switch_to( me, to );
            if ( me->pending_sig )
                deliver_signals( me );
            if ( me->signalled || timed )
                break;
        }
        bool sig = me->signalled;
        me->st = ST_RUN;
        me->wait_obj = nullptr;
        me->timed = false;
        me->signalled = false;
        sched_mutex_lock( me, m );
        return sig ? 0 : ETIMEDOUT;
    }

    void sched_cond_signal( pthread_cond_t* c, bool all )
    {
        for ( Thr* t : S.thr )
            if ( t->st == ST_COND && t->wait_obj == c && !t->signalled ) {
                t->signalled = true;
                if ( !all )
                    break;
            }
    }
} // namespace

    // ---- public API ---------------------------------------------------------------------
    void point( int /*kind*/ ) noexcept
    {
        Thr* me = t_self;
        if ( !me || !S.active || me->suppress )
            return;
        do_point( me );
    }

    void yield_point() noexcept
    {
        Thr* me = t_self;
        if ( !me || !S.active || me->suppress )
            return;
        do_yield( me );
    }

    void set_abort_hook( void (*hook)( int ))
    {
        g_abort_hook = hook;
    }

    bool session_active() noexcept { return S.active; }
    int self_id() noexcept { return t_self && S.active ? t_self->id : -1; }
    uint64_t tick() noexcept { return ++S.clock; }
    uint64_t points_now() noexcept { return S.st.points; }
    SchedStats const& session_stats() { return S.st; }

    namespace {
        thread_local bool t_collect = false;
        uint64_t g_collects = 0;
    }
    void scan_collect_begin() noexcept
    {
        Thr* me = t_self;
        if ( me && S.active && S.p.scan_atomic && !t_collect ) {
            ++me->suppress;
            t_collect = true;
            ++g_collects;
        }
    }
    void scan_collect_end() noexcept
    {
        if ( t_collect ) {
            t_collect = false;
            if ( t_self )
                --t_self->suppress;
        }
    }
    uint64_t scan_collect_count() noexcept { return g_collects; }

    no_sched::no_sched() noexcept { if ( t_self ) ++t_self->suppress; }
    no_sched::~no_sched() noexcept { if ( t_self ) --t_self->suppress; }
    gap_freeze::gap_freeze() noexcept { if ( t_self ) ++t_self->freeze; }
    gap_freeze::~gap_freeze() noexcept { if ( t_self ) --t_self->freeze; }
    uint64_t counted_points() noexcept { return S.st.counted; }

    void session_begin( SchedParams const& p )
    {
        if ( !g_exit_key_ok ) {
            pthread_key_create( &g_exit_key, exit_key_dtor );
            g_exit_key_ok = true;
        }
        for ( Thr* t : S.thr )
            if ( !t->pooled )
                delete t;
        S.thr.clear();
        S.p = p;
        g_collects = 0;
        S.pre_idx = 0;
        S.until_pre = -1;
        S.consecutive = 0;
        S.rng = p.rw_seed * 0x2545F4914F6CDD1Dull + 0x1234567;
        S.st = SchedStats();
        S.clock = 0;
        Thr* me = new Thr;
        me->id = 0;
        me->go.store( 1 );
        me->handle = pthread_self();
        me->has_handle = true;
        S.thr.push_back( me );
        S.st.threads = 1;
        S.cur = 0;
        t_self = me;
        S.active = true;
    }

    void run_threads( std::vector<std::function<void()>> const& bodies )
    {
        Thr* me = t_self;
        std::vector<Body> b( bodies.size());
        std::vector<Thr*> ts;
        for ( size_t i = 0; i < bodies.size(); ++i ) {
            if ( S.p.real_threads ) {
                b[i].fn = &bodies[i];
                pthread_t h;
                size_t before = S.thr.size();
                if ( create_registered( &h, nullptr, body_start, &b[i] ) != 0 ) {
                    fprintf( stderr, "cdsverif: pthread_create failed\n" );
                    abort();
                }
                ts.push_back( S.thr[before] );
                continue;
            }
            // pooled worker: a persistent pthread reused by every case (creating threads under
            // ASan is very expensive when many worker processes run side by side)
            if ( i >= g_pool.size()) {
                Thr* t = new Thr;
                t->pooled = true;
                pthread_t h;
                if ( real_create( &h, nullptr, pool_main, t ) != 0 ) {
                    fprintf( stderr, "cdsverif: pthread_create failed\n" );
                    abort();
                }
                t->handle = h;
                t->has_handle = true;
                g_pool.push_back( t );
            }
            Thr* t = g_pool[i];
            t->id = int( S.thr.size());
            t->st = ST_RUN;
            t->wait_obj = nullptr;
            t->timed = t->signalled = false;
            t->suppress = 0;
            t->freeze = 0;
            t->pending_sig = 0;
            t->body = &bodies[i];
            S.thr.push_back( t );
            ++S.st.threads;
            ts.push_back( t );
        }
        // the schedule starts now
        S.pre_idx = 0;
        load_next_preempt();
        if ( !ts.empty()) {
            // main blocks in join on the first worker; choose who starts
            me->st = ST_JOIN;
            me->wait_obj = ts[0];
            if ( ts[0]->st != ST_DONE ) {
                Thr* first = ts[S.p.start_offset % ts.size()];
                ++S.st.blocked;
                switch_to( me, first );
                deliver_signals( me );
            }
            me->st = ST_RUN;
        }
        for ( Thr* t : ts )
            join_registered( me, t, nullptr );
    }

    SchedStats session_end()
    {
        S.active = false;
        t_self = nullptr;
        return S.st;
    }
} // namespace cdsverif

// ---- interposers -----------------------------------------------------------------------
using namespace cdsverif;

extern "C" {

int pthread_mutex_lock( pthread_mutex_t* m )
{
    Thr* me = self_active();
    if ( !me || me->suppress )
        return real( r_lock, "pthread_mutex_lock" )( m );
    do_point( me );
    return sched_mutex_lock( me, m );
}

int pthread_mutex_trylock( pthread_mutex_t* m )
{
    Thr* me = self_active();
    if ( me && !me->suppress )
        do_point( me );
    return real( r_trylock, "pthread_mutex_trylock" )( m );
}

int pthread_mutex_unlock( pthread_mutex_t* m )
{
    int r = real( r_unlock, "pthread_mutex_unlock" )( m );
    Thr* me = self_active();
    if ( me ) {
        wake_mutex_waiters( m );
        if ( !me->suppress )
            do_point( me );
    }
    return r;
}

int pthread_cond_wait( pthread_cond_t* c, pthread_mutex_t* m )
{
    Thr* me = self_active();
    if ( !me || me->suppress )
        return real( r_wait, "pthread_cond_wait" )( c, m );
    sched_cond_wait( me, c, m, false );
    return 0;
}

int pthread_cond_timedwait( pthread_cond_t* c, pthread_mutex_t* m, const struct timespec* ts )
{
    Thr* me = self_active();
    if ( !me || me->suppress )
        return real( r_timedwait, "pthread_cond_timedwait" )( c, m, ts );
    return sched_cond_wait( me, c, m, true );
}

int pthread_cond_clockwait( pthread_cond_t* c, pthread_mutex_t* m, clockid_t clk, const struct timespec* ts )
{
    Thr* me = self_active();
    if ( !me || me->suppress )
        return real( r_clockwait, "pthread_cond_clockwait" )( c, m, clk, ts );
    return sched_cond_wait( me, c, m, true );
}

int pthread_cond_signal( pthread_cond_t* c )
{
    Thr* me = self_active();
    if ( !me )
        return real( r_signal, "pthread_cond_signal" )( c );
    sched_cond_signal( c, false );
    if ( !me->suppress )
        do_point( me );
    return 0;
}

int pthread_cond_broadcast( pthread_cond_t* c )
{
    Thr* me = self_active();
    if ( !me )
        return real( r_broadcast, "pthread_cond_broadcast" )( c );
    sched_cond_signal( c, true );
    if ( !me->suppress )
        do_point( me );
    return 0;
}

int pthread_create( pthread_t* th, const pthread_attr_t* attr, void* (*start)( void* ), void* arg )
{
    Thr* me = self_active();
    if ( !me )
        return real_create( th, attr, start, arg );
    return create_registered( th, attr, start, arg );
}

int pthread_join( pthread_t th, void** ret )
{
    Thr* me = self_active();
    if ( me ) {
        Thr* t = find_by_handle( th );
        if ( t && t != me )
            return join_registered( me, t, ret );
    }
    return real_join( th, ret );
}

int pthread_kill( pthread_t th, int sig )
{
    Thr* me = self_active();
    if ( me && sig > 0 && sig < 64 ) {
        Thr* t = find_by_handle( th );
        if ( t ) {
            if ( t->st == ST_DONE )
                return ESRCH;
            t->pending_sig |= ( 1ull << sig );
            if ( t == me )
                deliver_signals( me );
            return 0;
        }
    }
    return real( r_kill, "pthread_kill" )( th, sig );
}

int sched_yield( void )
{
    Thr* me = self_active();
    if ( me && !me->suppress ) {
        do_yield( me );
        return 0;
    }
    return real( r_yield, "sched_yield" )();
}

int nanosleep( const struct timespec* req, struct timespec* rem )
{
    Thr* me = self_active();
    if ( me && !me->suppress ) {
        do_yield( me );
        return 0;
    }
    return real( r_nanosleep, "nanosleep" )( req, rem );
}

int clock_nanosleep( clockid_t clk, int flags, const struct timespec* req, struct timespec* rem )
{
    Thr* me = self_active();
    if ( me && !me->suppress ) {
        do_yield( me );
        return 0;
    }
    return real( r_clock_nanosleep, "clock_nanosleep" )( clk, flags, req, rem );
}

} // extern "C"
