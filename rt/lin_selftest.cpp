// Self-test of the linearizability checker and its models: hand-written linearizable and
// non-linearizable histories (run by `./check --setup`).
#include <cstdio>
#include "lin.h"

using namespace cdsverif;

static int g_bad = 0;
static Ev ev( int th, int op, int64_t a, int64_t b, int64_t r, int64_t r2, uint64_t inv, uint64_t resp )
{
    Ev e;
    e.thread = th; e.op = op; e.a = a; e.b = b; e.r = r; e.r2 = r2; e.inv = inv; e.resp = resp;
    return e;
}
template <typename M>
static void expect( const char* name, std::vector<Ev> h, M init, bool want )
{
    LinChecker<M> lc( h );
    bool got = lc.check( init );
    if ( got != want || lc.gave_up()) {
        fprintf( stderr, "lin selftest FAILED: %s expected %d got %d\n", name, int( want ), int( got ));
        ++g_bad;
    }
}

int main()
{
    // FIFO
    expect( "fifo seq ok", { ev(1,Q_ENQ,1,0,1,0,1,2), ev(1,Q_ENQ,2,0,1,0,3,4), ev(2,Q_DEQ,0,0,1,0,5,6), ev(2,Q_DEQ,0,0,2,0,7,8) }, FifoModel(), true );
    expect( "fifo wrong order", { ev(1,Q_ENQ,1,0,1,0,1,2), ev(1,Q_ENQ,2,0,1,0,3,4), ev(2,Q_DEQ,0,0,2,0,5,6), ev(2,Q_DEQ,0,0,1,0,7,8) }, FifoModel(), false );
    expect( "fifo overlap either order", { ev(1,Q_ENQ,1,0,1,0,1,4), ev(2,Q_ENQ,2,0,1,0,2,3), ev(3,Q_DEQ,0,0,2,0,5,6), ev(3,Q_DEQ,0,0,1,0,7,8) }, FifoModel(), true );
    expect( "fifo duplicate delivery", { ev(1,Q_ENQ,1,0,1,0,1,2), ev(2,Q_DEQ,0,0,1,0,3,4), ev(3,Q_DEQ,0,0,1,0,5,6) }, FifoModel(), false );
    expect( "fifo empty while nonempty", { ev(1,Q_ENQ,1,0,1,0,1,2), ev(2,Q_DEQ,0,0,-1,0,3,4), ev(2,Q_DEQ,0,0,1,0,5,6) }, FifoModel(), false );
    expect( "fifo empty overlapping enq", { ev(1,Q_ENQ,1,0,1,0,1,5), ev(2,Q_DEQ,0,0,-1,0,2,3), ev(2,Q_DEQ,0,0,1,0,6,7) }, FifoModel(), true );
    expect( "fifo invented", { ev(2,Q_DEQ,0,0,9,0,3,4) }, FifoModel(), false );
    {
        FifoModel b;
        b.cap = 1;
        expect( "bounded full fail ok", { ev(1,Q_ENQ,1,0,1,0,1,2), ev(1,Q_ENQ,2,0,0,0,3,4) }, b, true );
        expect( "bounded spurious full", { ev(1,Q_ENQ,1,0,0,0,1,2) }, b, false );
        expect( "bounded over capacity", { ev(1,Q_ENQ,1,0,1,0,1,2), ev(1,Q_ENQ,2,0,1,0,3,4) }, b, false );
        expect( "front ok", { ev(1,Q_ENQ,1,0,1,0,1,2), ev(2,Q_FRONT,0,0,1,0,3,4), ev(2,Q_DEQ,0,0,1,0,5,6) }, b, true );
    }
    // regression: a linearizable 21-event history that a weak memo hash once rejected (two different
    // (linearised set, queue) pairs collided); found by the thorough tier on OptimisticQueue
    expect( "fifo 21 events, long overlapping enqueues", {
        ev(0,Q_ENQ,1,0,1,0,1,2), ev(0,Q_ENQ,2,0,1,0,3,4), ev(3,Q_ENQ,303,0,1,0,5,26), ev(2,Q_ENQ,204,0,1,0,6,25), ev(1,Q_ENQ,105,0,1,0,7,14),
        ev(4,Q_ENQ,406,0,1,0,8,9), ev(4,Q_ENQ,407,0,1,0,10,11), ev(4,Q_ENQ,408,0,1,0,12,13), ev(1,Q_DEQ,0,0,1,0,15,16), ev(1,Q_DEQ,0,0,2,0,17,18),
        ev(1,Q_ENQ,109,0,1,0,19,20), ev(1,Q_DEQ,0,0,105,0,21,22), ev(1,Q_ENQ,110,0,1,0,23,24), ev(0,Q_DEQ,0,0,406,0,27,28), ev(0,Q_DEQ,0,0,407,0,29,30),
        ev(0,Q_DEQ,0,0,408,0,31,32), ev(0,Q_DEQ,0,0,109,0,33,34), ev(0,Q_DEQ,0,0,110,0,35,36), ev(0,Q_DEQ,0,0,204,0,37,38), ev(0,Q_DEQ,0,0,303,0,39,40),
        ev(0,Q_DEQ,0,0,-1,0,41,42) }, FifoModel(), true );
    // LIFO
    expect( "lifo ok", { ev(1,Q_ENQ,1,0,1,0,1,2), ev(1,Q_ENQ,2,0,1,0,3,4), ev(2,Q_DEQ,0,0,2,0,5,6), ev(2,Q_DEQ,0,0,1,0,7,8) }, LifoModel(), true );
    expect( "lifo fifo order", { ev(1,Q_ENQ,1,0,1,0,1,2), ev(1,Q_ENQ,2,0,1,0,3,4), ev(2,Q_DEQ,0,0,1,0,5,6) }, LifoModel(), false );
    expect( "lifo elimination pair", { ev(1,Q_ENQ,1,0,1,0,1,2), ev(2,Q_ENQ,7,0,1,0,3,6), ev(3,Q_DEQ,0,0,7,0,4,5), ev(3,Q_DEQ,0,0,1,0,7,8) }, LifoModel(), true );
    // Deque
    expect( "deque ok", { ev(1,D_PUSH_BACK,1,0,1,0,1,2), ev(1,D_PUSH_FRONT,2,0,1,0,3,4), ev(2,D_POP_BACK,0,0,1,0,5,6), ev(2,D_POP_FRONT,0,0,2,0,7,8), ev(2,D_POP_BACK,0,0,-1,0,9,10) }, DequeModel(), true );
    expect( "deque cross-end on nonempty", { ev(1,D_PUSH_BACK,1,0,1,0,1,2), ev(1,D_PUSH_FRONT,2,0,1,0,3,4), ev(2,D_POP_BACK,0,0,2,0,5,6) }, DequeModel(), false );
    // Max PQ
    {
        MaxPQModel m;
        expect( "pq ties any", { ev(1,Q_ENQ,5,1,1,0,1,2), ev(1,Q_ENQ,5,2,1,0,3,4), ev(2,Q_DEQ,0,0,5,2,5,6), ev(2,Q_DEQ,0,0,5,1,7,8) }, m, true );
        expect( "pq lower first", { ev(1,Q_ENQ,5,1,1,0,1,2), ev(1,Q_ENQ,3,2,1,0,3,4), ev(2,Q_DEQ,0,0,3,2,5,6) }, m, false );
    }
    // Map
    expect( "map ok", { ev(1,M_INSERT,1,10,1,0,1,2), ev(2,M_FIND,1,0,1,10,3,4), ev(2,M_ERASE,1,0,1,10,5,6), ev(1,M_INSERT,1,11,1,0,7,8), ev(2,M_FIND,1,0,1,11,9,10) }, MapModel(), true );
    expect( "map double insert", { ev(1,M_INSERT,1,10,1,0,1,2), ev(2,M_INSERT,1,11,1,0,3,4) }, MapModel(), false );
    expect( "map resurrect", { ev(1,M_INSERT,1,10,1,0,1,2), ev(2,M_ERASE,1,0,1,10,3,4), ev(2,M_FIND,1,0,1,10,5,6) }, MapModel(), false );
    expect( "map wrong tag", { ev(1,M_INSERT,1,10,1,0,1,2), ev(2,M_ERASE,1,0,1,10,3,4), ev(1,M_INSERT,1,11,1,0,5,6), ev(2,M_FIND,1,0,1,10,7,8) }, MapModel(), false );
    expect( "map update contract", { ev(1,M_UPDATE,1,10,2,0,1,2), ev(1,M_UPDATE,1,11,1,10,3,4), ev(1,M_UPDATE_NOINS,2,12,0,0,5,6) }, MapModel(), true );
    expect( "map update noins inserted", { ev(1,M_UPDATE_NOINS,2,12,2,0,5,6) }, MapModel(), false );
    expect( "map upsert replaces", { ev(1,M_UPSERT,1,10,2,0,1,2), ev(1,M_UPSERT,1,11,1,10,3,4), ev(1,M_FIND,1,0,1,11,5,6) }, MapModel(), true );
    expect( "map extract_min relaxed", { ev(1,M_INSERT,1,10,1,0,1,2), ev(1,M_INSERT,2,11,1,0,3,4), ev(2,M_EXTRACT_MIN,0,0,2,11,5,6) }, MapModel(), true );
    expect( "map extract_min absent", { ev(1,M_INSERT,1,10,1,0,1,2), ev(2,M_EXTRACT_MIN,0,0,2,-1,5,6) }, MapModel(), false );
    expect( "map erase_tag stale", { ev(1,M_INSERT,1,10,1,0,1,2), ev(1,M_UPSERT,1,11,1,10,3,4), ev(2,M_ERASE_TAG,1,10,1,0,5,6) }, MapModel(), false );
    expect( "map erase_tag false ok", { ev(1,M_INSERT,1,10,1,0,1,2), ev(1,M_UPSERT,1,11,1,10,3,4), ev(2,M_ERASE_TAG,1,10,0,0,5,6) }, MapModel(), true );
    expect( "map concurrent insert one wins", { ev(1,M_INSERT,1,10,1,0,1,4), ev(2,M_INSERT,1,11,0,0,2,3) }, MapModel(), true );
    expect( "map concurrent insert both win", { ev(1,M_INSERT,1,10,1,0,1,4), ev(2,M_INSERT,1,11,1,0,2,3) }, MapModel(), false );
    if ( g_bad ) {
        fprintf( stderr, "lin selftest: %d failures\n", g_bad );
        return 1;
    }
    printf( "lin selftest ok\n" );
    return 0;
}
