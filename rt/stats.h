// Evidence counters shared by the drivers. Written as JSON + a binary file of the
// distinct non-trivial trace hashes so that the orchestrator can merge workers.
#ifndef CDSVERIF_STATS_H
#define CDSVERIF_STATS_H

#include <cstdint>
#include <map>
#include <string>
#include <unordered_set>
#include <vector>
#include "case.h"

namespace cdsverif {

    struct RunStats {
        std::string prefix;                 // output path prefix
        std::string engine;
        uint64_t evaluations = 0;
        uint64_t shrink_evaluations = 0;
        uint64_t pass = 0, failc = 0, inconclusive = 0, rejected = 0;
        uint64_t nontrivial = 0;
        std::unordered_set<uint64_t> nt_hashes;
        std::map<std::string, uint64_t> classes;
        std::map<int, uint64_t> per_variant;
        std::map<int, uint64_t> per_variant_nt;
        uint64_t points = 0, switches = 0, preemptions = 0;
        std::vector<std::string> samples;   // verbatim non-trivial cases
        size_t largest_sample = 0;
        std::string abort_note;
        std::vector<std::string> exhaustive_domains;   // sub-domains enumerated completely by this run

        void account( Case const& c, Verdict const& v, Schema const& s, bool shrinking );
        void write() const;                 // prefix.stats.json, prefix.hashes
    };

    std::string json_escape( std::string const& s );
    void write_file( std::string const& path, std::string const& content );
} // namespace cdsverif
#endif
