// Deterministic token-passing scheduler over real pthreads.
// Exactly one registered thread runs at a time; a thread hands the token over only at
// scheduling points (instrumented atomics, interposed pthread primitives, yields).
#ifndef CDSVERIF_SCHED_H
#define CDSVERIF_SCHED_H

#include <cstdint>
#include <functional>
#include <utility>
#include <vector>
#include <cdsverif/atomic.h>

namespace cdsverif {

    struct SchedParams {
        // pre-emption list: after `first` further scheduling points of the running thread,
        // switch to the `second`-th enabled other thread (mod count)
        std::vector<std::pair<uint32_t, uint32_t>> preempt;
        uint32_t start_offset = 0;    // which worker runs first
        uint32_t rw_denom = 0;        // random walk: switch with probability 1/rw_denom at every point (0 = off)
        uint64_t rw_seed = 0;
        uint32_t fairness = 1000;     // fairness valve: max consecutive points while others are enabled
        uint64_t budget = 400000;     // step budget per case
        bool real_threads = false;    // create (and let exit) a real pthread per worker instead of using the pool
        bool scan_atomic = true;      // the hazard-collection stage of an HP/DHP scan is one scheduler step (see scan_collect_begin)
    };

    struct SchedStats {
        uint64_t points = 0;          // scheduling points executed while >1 thread existed
        uint64_t counted = 0;         // ... of which count towards pre-emption gaps (not inside gap_freeze)
        uint64_t switches = 0;        // token hand-overs
        uint64_t preemptions = 0;     // pre-emptive switches (listed or random-walk)
        uint64_t yields = 0;
        uint64_t valve = 0;           // fairness-valve switches
        uint64_t blocked = 0;         // blocking switches (mutex/cond/join)
        uint32_t threads = 0;         // registered threads over the session
        uint64_t trace_hash = 0;      // hash of the sequence of (switch point, from, to)
    };

    enum abort_reason { ab_budget = 42, ab_deadlock = 43 };

    // Called (in the aborting thread, token held) before the process _exit()s with the
    // reason code because a case exceeded its step budget or deadlocked.
    void set_abort_hook( void (*hook)( int reason ));

    void session_begin( SchedParams const& p );   // caller becomes registered thread 0 and holds the token
    // spawn bodies as registered threads, run them to completion under the schedule
    void run_threads( std::vector<std::function<void()>> const& bodies );
    SchedStats session_end();
    SchedStats const& session_stats();

    bool session_active() noexcept;
    int  self_id() noexcept;           // registered id of the caller, -1 if none
    uint64_t tick() noexcept;          // strictly increasing logical clock for history events
    uint64_t points_now() noexcept;

    // Called by the guarded hooks in /repo/src/hp.cpp and dhp.cpp around the loop of scan() that
    // reads the hazard pointers of all threads. With SchedParams::scan_atomic the loop runs
    // without pre-emption: a legal (sub)set of schedules that excludes, by construction, the
    // known libcds defect "a hazard moved between two slots is missed by a concurrent scan"
    // (known_findings.json: hazard-copy-*). The SMR harness keeps the loop pre-emptible.
    void scan_collect_begin() noexcept;
    void scan_collect_end() noexcept;
    uint64_t scan_collect_count() noexcept;     // collections executed atomically in this session

    // scheduling suppressed while alive (used inside simulated signal handlers and oracles)
    struct no_sched {
        no_sched() noexcept;
        ~no_sched() noexcept;
    };

    // while alive, the scheduling points of this thread do not count towards the generated
    // pre-emption gaps (used around thread attach/detach so that schedules aim at operations)
    struct gap_freeze {
        gap_freeze() noexcept;
        ~gap_freeze() noexcept;
    };
    uint64_t counted_points() noexcept;

    // block (yielding) until pred() is true
    template <typename Pred>
    inline void wait_until( Pred pred )
    {
        while ( !pred())
            yield_point();
    }
} // namespace cdsverif

#endif
