// libFuzzer driver: bytes -> Case (structure-aware) -> run_case, same oracle as the PBT driver.
// Output prefix and tier come from the environment (CDSVERIF_OUT, CDSVERIF_TIER).
#include <cstdio>
#include <cstdlib>
#include <cstring>
#include <string>
#include <vector>

#include "case.h"
#include "stats.h"

using namespace cdsverif;

namespace {
    RunStats g_stats;
    bool g_init = false;
    bool g_thorough = true;
    std::vector<int> g_variants;
    Case const* g_current = nullptr;

    void flush_stats() { g_stats.write(); }

    void abort_hook( int reason )
    {
        g_stats.inconclusive++;
        g_stats.evaluations++;
        g_stats.abort_note = reason == ab_budget ? "step budget exceeded" : "deadlock (no enabled thread)";
        if ( g_current )
            write_file( g_stats.prefix + ".inconclusive.case", to_text( *g_current, harness_schema()));
        g_stats.write();
    }

    void init()
    {
        const char* out = getenv( "CDSVERIF_OUT" );
        g_stats.prefix = out ? out : "/dev/null";
        g_stats.engine = "libFuzzer";
        const char* tier = getenv( "CDSVERIF_TIER" );
        g_thorough = !tier || strcmp( tier, "quick" ) != 0;
        if ( const char* vs = getenv( "CDSVERIF_VARIANTS" )) {
            for ( const char* p = vs; *p; ) {
                g_variants.push_back( atoi( p ));
                while ( *p && *p != ',' )
                    ++p;
                if ( *p == ',' )
                    ++p;
            }
        }
        set_abort_hook( abort_hook );
        atexit( flush_stats );
        g_init = true;
    }
}

extern "C" int LLVMFuzzerTestOneInput( const uint8_t* data, size_t size )
{
    if ( !g_init )
        init();
    Schema const& s = harness_schema();
    Case c = from_bytes( data, size, s, g_thorough );
    if ( !g_variants.empty())
        c.variant = g_variants[size_t( c.variant ) % g_variants.size()];
    if ( c.variant < 0 || size_t( c.variant ) >= s.variants.size())
        c.variant = 0;
    bool any = false;
    for ( auto const& t : c.prog )
        any = any || !t.empty();
    if ( !any )
        return 0;
    g_current = &c;
    write_file( g_stats.prefix + ".current.case", to_text( c, s ));
    Verdict v = run_case( c );
    g_current = nullptr;
    g_stats.account( c, v, s, false );
    if ( v.kind == V_FAIL ) {
        write_file( g_stats.prefix + ".failing.case", to_text( c, s ) + "# " + v.msg + "\n" );
        g_stats.write();
        fprintf( stderr, "CDSVERIF-FAIL %s\n", v.msg.c_str());
        __builtin_trap();
    }
    return 0;
}
