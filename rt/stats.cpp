#include "stats.h"

#include <cstdio>
#include <fcntl.h>
#include <sstream>
#include <unistd.h>

namespace cdsverif {

    std::string json_escape( std::string const& s )
    {
        std::string o;
        for ( unsigned char ch : s ) {
            switch ( ch ) {
            case '"': o += "\\\""; break;
            case '\\': o += "\\\\"; break;
            case '\n': o += "\\n"; break;
            case '\t': o += "\\t"; break;
            case '\r': o += "\\r"; break;
            default:
                if ( ch < 0x20 ) {
                    char b[8];
                    snprintf( b, sizeof( b ), "\\u%04x", ch );
                    o += b;
                }
                else
                    o += char( ch );
            }
        }
        return o;
    }

    void write_file( std::string const& path, std::string const& content )
    {
        int fd = open( path.c_str(), O_WRONLY | O_CREAT | O_TRUNC, 0644 );
        if ( fd < 0 )
            return;
        size_t off = 0;
        while ( off < content.size()) {
            ssize_t n = ::write( fd, content.data() + off, content.size() - off );
            if ( n <= 0 )
                break;
            off += size_t( n );
        }
        close( fd );
    }

    void RunStats::account( Case const& c, Verdict const& v, Schema const& s, bool shrinking )
    {
        ++evaluations;
        if ( shrinking )
            ++shrink_evaluations;
        switch ( v.kind ) {
        case V_PASS: ++pass; break;
        case V_FAIL: ++failc; break;
        case V_INCONCLUSIVE: ++inconclusive; break;
        default: ++rejected; break;
        }
        ++per_variant[c.variant];
        points += v.sched.points;
        switches += v.sched.switches;
        preemptions += v.sched.preemptions;
        for ( auto const& kv : v.classes )
            classes[kv.first] += kv.second;
        if ( v.nontrivial && v.kind != V_REJECT ) {
            ++nontrivial;
            ++per_variant_nt[c.variant];
            bool fresh = nt_hashes.insert( v.trace_hash ).second;
            if ( fresh && !shrinking ) {
                // keep the first two, and always the largest seen so far
                size_t sz = 0;
                for ( auto const& t : c.prog )
                    sz += t.size();
                sz = sz * 8 + c.sched.size();
                if ( samples.size() < 2 )
                    samples.push_back( to_text( c, s ));
                else if ( sz > largest_sample ) {
                    if ( samples.size() < 3 )
                        samples.push_back( to_text( c, s ));
                    else
                        samples[2] = to_text( c, s );
                }
                if ( sz > largest_sample )
                    largest_sample = sz;
            }
        }
    }

    void RunStats::write() const
    {
        std::ostringstream o;
        o << "{\n";
        o << " \"engine\": \"" << json_escape( engine ) << "\",\n";
        o << " \"evaluations\": " << evaluations << ",\n";
        o << " \"shrink_evaluations\": " << shrink_evaluations << ",\n";
        o << " \"pass\": " << pass << ",\n";
        o << " \"fail\": " << failc << ",\n";
        o << " \"inconclusive\": " << inconclusive << ",\n";
        o << " \"rejected\": " << rejected << ",\n";
        o << " \"nontrivial\": " << nontrivial << ",\n";
        o << " \"distinct_nontrivial\": " << nt_hashes.size() << ",\n";
        o << " \"points\": " << points << ",\n";
        o << " \"switches\": " << switches << ",\n";
        o << " \"preemptions\": " << preemptions << ",\n";
        o << " \"abort_note\": \"" << json_escape( abort_note ) << "\",\n";
        o << " \"classes\": {";
        bool first = true;
        for ( auto const& kv : classes ) {
            o << ( first ? "" : ", " ) << "\"" << json_escape( kv.first ) << "\": " << kv.second;
            first = false;
        }
        o << "},\n \"per_variant\": {";
        first = true;
        for ( auto const& kv : per_variant ) {
            o << ( first ? "" : ", " ) << "\"" << kv.first << "\": " << kv.second;
            first = false;
        }
        o << "},\n \"per_variant_nontrivial\": {";
        first = true;
        for ( auto const& kv : per_variant_nt ) {
            o << ( first ? "" : ", " ) << "\"" << kv.first << "\": " << kv.second;
            first = false;
        }
        o << "},\n \"exhaustive_domains\": [";
        first = true;
        for ( auto const& s : exhaustive_domains ) {
            o << ( first ? "" : ", " ) << "\"" << json_escape( s ) << "\"";
            first = false;
        }
        o << "],\n \"samples\": [";
        first = true;
        for ( auto const& s : samples ) {
            o << ( first ? "" : ", " ) << "\"" << json_escape( s ) << "\"";
            first = false;
        }
        o << "]\n}\n";
        write_file( prefix + ".stats.json", o.str());
        std::string bin;
        bin.reserve( nt_hashes.size() * 8 );
        for ( uint64_t h : nt_hashes )
            bin.append( reinterpret_cast<const char*>( &h ), 8 );
        write_file( prefix + ".hashes", bin );
    }
} // namespace cdsverif
