// Case / Verdict / Schema: the single interface between drivers (rapidcheck, libFuzzer,
// replay) and harnesses.
#ifndef CDSVERIF_CASE_H
#define CDSVERIF_CASE_H

#include <cstdint>
#include <map>
#include <string>
#include <utility>
#include <vector>
#include "vsched.h"

namespace cdsverif {

    struct Op {
        int code = 0;
        int a = 0;
        int b = 0;
    };

    struct Case {
        std::string harness;
        int variant = 0;
        std::vector<int> cfg;
        std::vector<std::vector<Op>> prog;      // one list per worker thread
        std::vector<std::pair<uint32_t, uint32_t>> sched;   // pre-emptions (gap, target)
        uint32_t start = 0;                     // which worker starts
        uint32_t rw = 0;                        // random-walk denominator (0 = pre-emption list)
        uint64_t seed = 0;                      // aux seed (in-library randomness, random walk)
        uint32_t opts = 0;                      // bit 0: SMR scans stay pre-emptible while they collect the hazard pointers
                                                //        (never generated; set in the replay files of the hazard-copy findings)
    };

    struct OpSpec {
        const char* name;
        int weight;
        int amax;       // a in 0..amax
        int bmax;       // b in 0..bmax
    };
    struct CfgSpec {
        const char* name;
        int lo;
        int hi;
    };

    struct Schema {
        std::string name;
        std::vector<std::string> variants;
        std::vector<CfgSpec> cfg;
        std::vector<OpSpec> ops;
        int min_threads = 2;
        int max_threads_quick = 3;
        int max_threads_thorough = 4;
        int max_ops_quick = 5;
        int max_ops_thorough = 7;
        int max_preempt_quick = 3;
        int max_preempt_thorough = 6;
        bool sequential = false;            // no scheduler: one thread, long op sequence
        std::string nontrivial_rule;
    };

    enum verdict_kind { V_PASS = 0, V_FAIL = 1, V_INCONCLUSIVE = 2, V_REJECT = 3 };

    struct Verdict {
        int kind = V_PASS;
        std::string msg;
        bool nontrivial = false;
        uint64_t trace_hash = 0;            // hash of the observed history + schedule trace
        std::map<std::string, uint64_t> classes;    // class counters for the histogram
        SchedStats sched;
    };

    // ---- per-case failure sink (first failure wins) ---------------------------------------
    void case_reset();
    void fail( std::string const& msg );
    bool failed();
    std::string const& fail_msg();
    void note_class( const char* name, uint64_t n = 1 );
    std::map<std::string, uint64_t>& case_classes();

    // text (de)serialisation of cases
    std::string to_text( Case const& c, Schema const& s );
    bool from_text( std::string const& text, Schema const& s, Case& out, std::string* err );
    // structure-aware decode of fuzzer bytes
    Case from_bytes( const uint8_t* data, size_t size, Schema const& s, bool thorough );

    uint64_t hash_bytes( void const* p, size_t n, uint64_t h = 0xcbf29ce484222325ull );
    // strong 64-bit mixing (splitmix64 finaliser); order sensitive
    inline uint64_t hash_mix( uint64_t h, uint64_t v )
    {
        uint64_t z = ( h ^ ( h >> 32 )) * 0x9e3779b97f4a7c15ull + v * 0xbf58476d1ce4e5b9ull + 0x632be59bd9b4e019ull;
        z ^= z >> 30;
        z *= 0xbf58476d1ce4e5b9ull;
        z ^= z >> 27;
        z *= 0x94d049bb133111ebull;
        z ^= z >> 31;
        return z;
    }

    SchedParams sched_params( Case const& c );

    // implemented by each harness TU
    Schema const& harness_schema();
    Verdict run_case( Case const& c );
    // optional: enumeration / special campaigns of a harness ("--extra <args...>").
    // Must account every evaluated input in `stats` (engine, evaluations, nt_hashes, samples,
    // exhaustive_domains), write <prefix>.failing.case (a normal replayable Case text) for
    // a failure and return 1; return 0 when everything held.
    struct RunStats;
    int harness_extra( int argc, char** argv, RunStats& stats ) __attribute__(( weak ));
} // namespace cdsverif

#endif
