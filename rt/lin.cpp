#include "lin.h"

namespace cdsverif {
    std::string history_text( std::vector<Ev> const& h, const char* const* opnames )
    {
        std::ostringstream o;
        for ( size_t i = 0; i < h.size(); ++i ) {
            Ev const& e = h[i];
            o << "[" << i << "] T" << e.thread << " " << ( opnames ? opnames[e.op] : "op" ) << "(" << e.a;
            if ( e.b )
                o << "," << e.b;
            o << ")=" << e.r;
            if ( e.r2 )
                o << "/" << e.r2;
            o << " @" << e.inv << "-" << e.resp << "; ";
        }
        return o.str();
    }
}
