// Linearizability checker: Wing-Gong search with memoisation on (linearised set, model state).
// Histories are complete (every operation has a response) and short (<= 62 operations).
#ifndef CDSVERIF_LIN_H
#define CDSVERIF_LIN_H

#include <algorithm>
#include <cstdint>
#include <deque>
#include <map>
#include <set>
#include <sstream>
#include <string>
#include <unordered_set>
#include <vector>
#include "case.h"

// the oracle must not attract the coverage-guided fuzzer
#define CDSVERIF_NOCOV __attribute__(( no_sanitize( "coverage" )))

namespace cdsverif {

    struct Ev {
        int thread = 0;
        int op = 0;             // model-specific operation code
        int64_t a = 0;          // argument (key / value)
        int64_t b = 0;          // second argument
        int64_t r = 0;          // result (model-specific encoding)
        int64_t r2 = 0;         // second result (e.g. tag observed)
        uint64_t inv = 0;       // logical time of invocation
        uint64_t resp = 0;      // logical time of response
    };

    // History recorder: one per case; only the token holder touches it.
    struct History {
        std::vector<Ev> ev;
        size_t begin( int thread, int op, int64_t a = 0, int64_t b = 0 )
        {
            Ev e;
            e.thread = thread;
            e.op = op;
            e.a = a;
            e.b = b;
            e.inv = tick();
            e.resp = 0;
            ev.push_back( e );
            return ev.size() - 1;
        }
        void end( size_t idx, int64_t r, int64_t r2 = 0 )
        {
            ev[idx].r = r;
            ev[idx].r2 = r2;
            ev[idx].resp = tick();
        }
        CDSVERIF_NOCOV uint64_t hash() const
        {
            uint64_t h = 0x1234;
            for ( Ev const& e : ev ) {
                h = hash_mix( h, uint64_t( e.thread ) * 1000003u + uint64_t( e.op ));
                h = hash_mix( h, uint64_t( e.a ) * 31 + uint64_t( e.b ));
                h = hash_mix( h, uint64_t( e.r ) * 17 + uint64_t( e.r2 ));
                h = hash_mix( h, e.inv * 4096 + e.resp );
            }
            return h;
        }
        // number of pairs of operations of different threads that overlap in time
        unsigned overlaps() const
        {
            unsigned n = 0;
            for ( size_t i = 0; i < ev.size(); ++i )
                for ( size_t j = i + 1; j < ev.size(); ++j )
                    if ( ev[i].thread != ev[j].thread && ev[i].inv < ev[j].resp && ev[j].inv < ev[i].resp )
                        ++n;
            return n;
        }
    };

    // Model concept:
    //   bool apply( Ev const& e );   // if e (with its observed result) is legal in this state: apply and return true
    //   uint64_t hash() const;
    template <typename Model>
    class LinChecker
    {
        std::vector<Ev> const& h_;
        // memo: the linearised set is compared exactly, the model state through a strong 64-bit hash
        struct Key {
            uint64_t done, state;
            bool operator==( Key const& o ) const { return done == o.done && state == o.state; }
        };
        struct KeyHash {
            size_t operator()( Key const& k ) const { return size_t( hash_mix( k.done, k.state )); }
        };
        std::unordered_set<Key, KeyHash> seen_;
        uint64_t nodes_ = 0;
        uint64_t limit_;
        std::vector<int> order_;

        CDSVERIF_NOCOV bool search( uint64_t done, Model& m )
        {
            size_t n = h_.size();
            if ( done == (( 1ull << n ) - 1 ))
                return true;
            if ( ++nodes_ > limit_ )
                return true;        // give up: counted as not decided, never as a violation
            if ( !seen_.insert( Key{ done, m.hash() } ).second )
                return false;
            // earliest response among pending operations
            uint64_t min_resp = ~0ull;
            for ( size_t i = 0; i < n; ++i )
                if ( !( done & ( 1ull << i )) && h_[i].resp < min_resp )
                    min_resp = h_[i].resp;
            Model saved = m;        // models mutate only when apply() succeeds
            for ( size_t i = 0; i < n; ++i ) {
                if ( done & ( 1ull << i ))
                    continue;
                if ( h_[i].inv > min_resp )
                    continue;       // some pending operation finished before this one began
                if ( m.apply( h_[i] )) {
                    order_.push_back( int( i ));
                    if ( search( done | ( 1ull << i ), m ))
                        return true;
                    order_.pop_back();
                    m = saved;
                }
            }
            return false;
        }

    public:
        explicit LinChecker( std::vector<Ev> const& h, uint64_t limit = 100000 )
            : h_( h ), limit_( limit )
        {}
        bool check( Model const& init )
        {
            if ( h_.size() > 62 ) {
                nodes_ = limit_ + 1;    // too long to decide: reported as "gave up"
                return true;
            }
            // long, heavily overlapping histories make the search combinatorial: decide them with a smaller
            // node budget (undecided cases are counted as "gave up", never as violations)
            if ( h_.size() > 22 && limit_ > 20000 )
                limit_ = 20000;
            Model m = init;
            return search( 0, m );
        }
        bool gave_up() const { return nodes_ > limit_; }
        uint64_t nodes() const { return nodes_; }
        std::vector<int> const& order() const { return order_; }
    };

    std::string history_text( std::vector<Ev> const& h, const char* const* opnames );

    // ---- models -------------------------------------------------------------------------
    // Queue / stack / deque operation codes
    enum { Q_ENQ = 0, Q_DEQ = 1,            // r: enq 1/0 (success), deq value or -1 (empty)
           D_PUSH_FRONT = 2, D_PUSH_BACK = 3, D_POP_FRONT = 4, D_POP_BACK = 5,
           Q_FRONT = 6 };                    // single-consumer front(): value or -1

    struct FifoModel {
        std::vector<int64_t> q;
        int64_t cap = -1;       // -1: unbounded
        CDSVERIF_NOCOV bool apply( Ev const& e )
        {
            switch ( e.op ) {
            case Q_ENQ:
                if ( e.r ) {
                    if ( cap >= 0 && int64_t( q.size()) >= cap )
                        return false;
                    q.push_back( e.a );
                    return true;
                }
                return cap >= 0 && int64_t( q.size()) >= cap;     // failed enqueue only on a full queue
            case Q_DEQ:
                if ( e.r < 0 )
                    return q.empty();
                if ( q.empty() || q.front() != e.r )
                    return false;
                q.erase( q.begin());
                return true;
            case Q_FRONT:
                if ( e.r < 0 )
                    return q.empty();
                return !q.empty() && q.front() == e.r;
            }
            return false;
        }
        CDSVERIF_NOCOV uint64_t hash() const
        {
            uint64_t h = 1;
            for ( int64_t v : q )
                h = hash_mix( h, uint64_t( v ));
            return h;
        }
    };

    struct LifoModel {
        std::vector<int64_t> s;
        CDSVERIF_NOCOV bool apply( Ev const& e )
        {
            if ( e.op == Q_ENQ ) {
                if ( !e.r )
                    return false;
                s.push_back( e.a );
                return true;
            }
            if ( e.op == Q_DEQ ) {
                if ( e.r < 0 )
                    return s.empty();
                if ( s.empty() || s.back() != e.r )
                    return false;
                s.pop_back();
                return true;
            }
            return false;
        }
        CDSVERIF_NOCOV uint64_t hash() const
        {
            uint64_t h = 2;
            for ( int64_t v : s )
                h = hash_mix( h, uint64_t( v ));
            return h;
        }
    };

    struct DequeModel {
        std::deque<int64_t> d;
        CDSVERIF_NOCOV bool apply( Ev const& e )
        {
            switch ( e.op ) {
            case D_PUSH_FRONT:
                if ( !e.r ) return false;
                d.push_front( e.a );
                return true;
            case D_PUSH_BACK:
                if ( !e.r ) return false;
                d.push_back( e.a );
                return true;
            case D_POP_FRONT:
                if ( e.r < 0 ) return d.empty();
                if ( d.empty() || d.front() != e.r ) return false;
                d.pop_front();
                return true;
            case D_POP_BACK:
                if ( e.r < 0 ) return d.empty();
                if ( d.empty() || d.back() != e.r ) return false;
                d.pop_back();
                return true;
            }
            return false;
        }
        CDSVERIF_NOCOV uint64_t hash() const
        {
            uint64_t h = 3;
            for ( int64_t v : d )
                h = hash_mix( h, uint64_t( v ));
            return h;
        }
    };

    // Max priority queue: items are (priority = a, id = b); pop may return any item of maximal priority
    struct MaxPQModel {
        std::multiset<std::pair<int64_t, int64_t>> s;
        int64_t cap = -1;
        CDSVERIF_NOCOV bool apply( Ev const& e )
        {
            if ( e.op == Q_ENQ ) {
                if ( e.r ) {
                    if ( cap >= 0 && int64_t( s.size()) >= cap )
                        return false;
                    s.insert( { e.a, e.b } );
                    return true;
                }
                return cap >= 0 && int64_t( s.size()) >= cap;
            }
            if ( e.op == Q_DEQ ) {
                if ( e.r < 0 )
                    return s.empty();
                // r = priority, r2 = id
                if ( s.empty())
                    return false;
                if ( s.rbegin()->first != e.r )
                    return false;
                auto it = s.find( { e.r, e.r2 } );
                if ( it == s.end())
                    return false;
                s.erase( it );
                return true;
            }
            return false;
        }
        CDSVERIF_NOCOV uint64_t hash() const
        {
            uint64_t h = 4;
            for ( auto const& p : s )
                h = hash_mix( h, uint64_t( p.first ) * 1000003u + uint64_t( p.second ));
            return h;
        }
    };

    // Set / map model. Every stored item carries a tag that identifies the insertion
    // (object id or payload) so that "which insertion did the operation observe" is checked.
    enum { M_INSERT = 0,      // a=key b=tag; r: 1 inserted / 0 key exists
           M_ERASE = 1,       // a=key; r: 1/0; r2: tag seen (or -1 unknown) when r=1
           M_FIND = 2,        // a=key; r: 1/0; r2: tag seen (or -1 unknown)
           M_UPDATE = 3,      // a=key b=tag; arg allow-insert in op flag; r: 0 = (false,false), 1 = (true,false) existing, 2 = (true,true) inserted; r2: tag seen when existing (or -1)
           M_UPDATE_NOINS = 4,// as M_UPDATE with insertion disallowed
           M_UPSERT = 5,      // update that REPLACES the stored object: tag becomes b (iterable lists, feldman)
           M_UPSERT_NOINS = 6,
           M_EXTRACT_MIN = 7, // r: key or -1 (empty); r2: tag; b: lower bound hint not used
           M_EXTRACT_MAX = 8,
           M_SIZE_EMPTY = 9,  // r: 1 = reported empty
           M_ERASE_TAG = 10,  // erase_at(iterator): a=key b=tag; r=1 => removed exactly tag b; r=0 => tag b not current
           M_CLEAR = 11 };

    struct MapModel {
        std::map<int64_t, int64_t> m;
        // relaxed extract_min/max: side conditions are checked outside the search (see ordered harness);
        // inside the search extract_min(k) is "erase k, k present" unless strict_minmax
        bool strict_minmax = false;
        CDSVERIF_NOCOV bool apply( Ev const& e )
        {
            auto it = m.find( e.a );
            switch ( e.op ) {
            case M_INSERT:
                if ( e.r ) {
                    if ( it != m.end()) return false;
                    m[e.a] = e.b;
                    return true;
                }
                return it != m.end();
            case M_ERASE:
                if ( e.r ) {
                    if ( it == m.end()) return false;
                    if ( e.r2 >= 0 && it->second != e.r2 ) return false;
                    m.erase( it );
                    return true;
                }
                return it == m.end();
            case M_FIND:
                if ( e.r ) {
                    if ( it == m.end()) return false;
                    return e.r2 < 0 || it->second == e.r2;
                }
                return it == m.end();
            case M_UPDATE:
            case M_UPDATE_NOINS:
                if ( e.r == 2 ) {
                    if ( e.op == M_UPDATE_NOINS || it != m.end()) return false;
                    m[e.a] = e.b;
                    return true;
                }
                if ( e.r == 1 ) {
                    if ( it == m.end()) return false;
                    return e.r2 < 0 || it->second == e.r2;
                }
                return e.op == M_UPDATE_NOINS && it == m.end();
            case M_UPSERT:
            case M_UPSERT_NOINS:
                if ( e.r == 2 ) {
                    if ( e.op == M_UPSERT_NOINS || it != m.end()) return false;
                    m[e.a] = e.b;
                    return true;
                }
                if ( e.r == 1 ) {
                    if ( it == m.end()) return false;
                    if ( e.r2 >= 0 && it->second != e.r2 ) return false;
                    it->second = e.b;
                    return true;
                }
                return e.op == M_UPSERT_NOINS && it == m.end();
            case M_EXTRACT_MIN:
            case M_EXTRACT_MAX:
                if ( e.r < 0 )
                    return m.empty();
                {
                    auto k = m.find( e.r );
                    if ( k == m.end()) return false;
                    if ( e.r2 >= 0 && k->second != e.r2 ) return false;
                    if ( strict_minmax ) {
                        if ( e.op == M_EXTRACT_MIN && k != m.begin()) return false;
                        if ( e.op == M_EXTRACT_MAX && std::next( k ) != m.end()) return false;
                    }
                    m.erase( k );
                    return true;
                }
            case M_SIZE_EMPTY:
                return e.r ? m.empty() : !m.empty();
            case M_ERASE_TAG:
                if ( e.r ) {
                    if ( it == m.end() || it->second != e.b ) return false;
                    m.erase( it );
                    return true;
                }
                return it == m.end() || it->second != e.b;
            case M_CLEAR:
                m.clear();
                return true;
            }
            return false;
        }
        CDSVERIF_NOCOV uint64_t hash() const
        {
            uint64_t h = 5;
            for ( auto const& p : m )
                h = hash_mix( h, uint64_t( p.first ) * 1000003u + uint64_t( p.second ));
            return h;
        }
    };
} // namespace cdsverif
#endif
