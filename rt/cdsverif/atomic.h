// Instrumented atomics for the libcds verification build (-DKHIZMAX_LIBCDS_VERIF).
// Every operation on cdsverif::atomics::atomic<T> is a scheduling point of the
// deterministic token scheduler in rt/sched.cpp; the operation itself is performed by
// the underlying std::atomic<T> with the memory order libcds asked for.
#ifndef CDSVERIF_ATOMIC_H
#define CDSVERIF_ATOMIC_H

#include <atomic>
#include <cstddef>
#include <cstdint>
#include <utility>

namespace cdsverif {

    // kind of scheduling point (used for labels / statistics only)
    enum point_kind { pk_load = 0, pk_store = 1, pk_rmw = 2, pk_fence = 3, pk_mutex = 4, pk_user = 5, pk_yield = 6 };

    // Scheduling point: may hand the token to another thread. No-op for threads that are
    // not registered with an active session.
    void point( int kind = pk_user ) noexcept;
    // The caller is spinning / backing off: let somebody else run if anybody can.
    void yield_point() noexcept;

    namespace atomics {
        using std::memory_order;
        using std::memory_order_relaxed;
        using std::memory_order_consume;
        using std::memory_order_acquire;
        using std::memory_order_release;
        using std::memory_order_acq_rel;
        using std::memory_order_seq_cst;

        inline void atomic_thread_fence( memory_order order ) noexcept
        {
            ::cdsverif::point( pk_fence );
            std::atomic_thread_fence( order );
        }
        inline void atomic_signal_fence( memory_order order ) noexcept
        {
            std::atomic_signal_fence( order );
        }

        template <typename U> struct nd { typedef U type; };
        template <typename U> using nd_t = typename nd<U>::type;

        template <typename T>
        class atomic
        {
            std::atomic<T> v_;
        public:
            atomic() noexcept = default;
            constexpr atomic( T val ) noexcept : v_( val ) {}
            atomic( atomic const& ) = delete;
            atomic& operator=( atomic const& ) = delete;
            atomic& operator=( atomic const& ) volatile = delete;

            bool is_lock_free() const volatile noexcept { return v_.is_lock_free(); }
            bool is_lock_free() const noexcept { return v_.is_lock_free(); }

#define CDSVERIF_CV(cv) \
            void store( T val, memory_order order = memory_order_seq_cst ) cv noexcept \
            { ::cdsverif::point( pk_store ); v_.store( val, order ); } \
            T load( memory_order order = memory_order_seq_cst ) const cv noexcept \
            { ::cdsverif::point( pk_load ); return v_.load( order ); } \
            operator T() const cv noexcept { return load(); } \
            T operator=( T val ) cv noexcept { store( val ); return val; } \
            T exchange( T val, memory_order order = memory_order_seq_cst ) cv noexcept \
            { ::cdsverif::point( pk_rmw ); return v_.exchange( val, order ); } \
            bool compare_exchange_weak( T& expected, T desired, memory_order so, memory_order fo ) cv noexcept \
            { ::cdsverif::point( pk_rmw ); return v_.compare_exchange_strong( expected, desired, so, fo ); } \
            bool compare_exchange_strong( T& expected, T desired, memory_order so, memory_order fo ) cv noexcept \
            { ::cdsverif::point( pk_rmw ); return v_.compare_exchange_strong( expected, desired, so, fo ); } \
            bool compare_exchange_weak( T& expected, T desired, memory_order so = memory_order_seq_cst ) cv noexcept \
            { ::cdsverif::point( pk_rmw ); return v_.compare_exchange_strong( expected, desired, so ); } \
            bool compare_exchange_strong( T& expected, T desired, memory_order so = memory_order_seq_cst ) cv noexcept \
            { ::cdsverif::point( pk_rmw ); return v_.compare_exchange_strong( expected, desired, so ); } \
            template <typename U = T> auto fetch_add( nd_t<U> val, memory_order order = memory_order_seq_cst ) cv noexcept -> decltype( std::declval<std::atomic<U>&>().fetch_add( val )) \
            { ::cdsverif::point( pk_rmw ); return v_.fetch_add( val, order ); } \
            template <typename U = T> auto fetch_sub( nd_t<U> val, memory_order order = memory_order_seq_cst ) cv noexcept -> decltype( std::declval<std::atomic<U>&>().fetch_sub( val )) \
            { ::cdsverif::point( pk_rmw ); return v_.fetch_sub( val, order ); } \
            template <typename U = T> auto fetch_and( nd_t<U> val, memory_order order = memory_order_seq_cst ) cv noexcept -> decltype( std::declval<std::atomic<U>&>().fetch_and( val )) \
            { ::cdsverif::point( pk_rmw ); return v_.fetch_and( val, order ); } \
            template <typename U = T> auto fetch_or( nd_t<U> val, memory_order order = memory_order_seq_cst ) cv noexcept -> decltype( std::declval<std::atomic<U>&>().fetch_or( val )) \
            { ::cdsverif::point( pk_rmw ); return v_.fetch_or( val, order ); } \
            template <typename U = T> auto fetch_xor( nd_t<U> val, memory_order order = memory_order_seq_cst ) cv noexcept -> decltype( std::declval<std::atomic<U>&>().fetch_xor( val )) \
            { ::cdsverif::point( pk_rmw ); return v_.fetch_xor( val, order ); } \
            template <typename U = T> auto operator++() cv noexcept -> decltype( ++std::declval<std::atomic<U>&>()) \
            { ::cdsverif::point( pk_rmw ); return ++v_; } \
            template <typename U = T> auto operator++( int ) cv noexcept -> decltype( std::declval<std::atomic<U>&>()++ ) \
            { ::cdsverif::point( pk_rmw ); return v_++; } \
            template <typename U = T> auto operator--() cv noexcept -> decltype( --std::declval<std::atomic<U>&>()) \
            { ::cdsverif::point( pk_rmw ); return --v_; } \
            template <typename U = T> auto operator--( int ) cv noexcept -> decltype( std::declval<std::atomic<U>&>()-- ) \
            { ::cdsverif::point( pk_rmw ); return v_--; } \
            template <typename U = T> auto operator+=( nd_t<U> val ) cv noexcept -> decltype( std::declval<std::atomic<U>&>() += val ) \
            { ::cdsverif::point( pk_rmw ); return v_ += val; } \
            template <typename U = T> auto operator-=( nd_t<U> val ) cv noexcept -> decltype( std::declval<std::atomic<U>&>() -= val ) \
            { ::cdsverif::point( pk_rmw ); return v_ -= val; } \
            template <typename U = T> auto operator&=( nd_t<U> val ) cv noexcept -> decltype( std::declval<std::atomic<U>&>() &= val ) \
            { ::cdsverif::point( pk_rmw ); return v_ &= val; } \
            template <typename U = T> auto operator|=( nd_t<U> val ) cv noexcept -> decltype( std::declval<std::atomic<U>&>() |= val ) \
            { ::cdsverif::point( pk_rmw ); return v_ |= val; } \
            template <typename U = T> auto operator^=( nd_t<U> val ) cv noexcept -> decltype( std::declval<std::atomic<U>&>() ^= val ) \
            { ::cdsverif::point( pk_rmw ); return v_ ^= val; }

            CDSVERIF_CV()
            CDSVERIF_CV(volatile)
#undef CDSVERIF_CV
        };

        // pointer specialisation: fetch_add/fetch_sub take ptrdiff_t
        template <typename T>
        class atomic<T*>
        {
            std::atomic<T*> v_;
        public:
            atomic() noexcept = default;
            constexpr atomic( T* val ) noexcept : v_( val ) {}
            atomic( atomic const& ) = delete;
            atomic& operator=( atomic const& ) = delete;
            atomic& operator=( atomic const& ) volatile = delete;

            bool is_lock_free() const volatile noexcept { return v_.is_lock_free(); }
            bool is_lock_free() const noexcept { return v_.is_lock_free(); }

#define CDSVERIF_CV(cv) \
            void store( T* val, memory_order order = memory_order_seq_cst ) cv noexcept \
            { ::cdsverif::point( pk_store ); v_.store( val, order ); } \
            T* load( memory_order order = memory_order_seq_cst ) const cv noexcept \
            { ::cdsverif::point( pk_load ); return v_.load( order ); } \
            operator T*() const cv noexcept { return load(); } \
            T* operator=( T* val ) cv noexcept { store( val ); return val; } \
            T* exchange( T* val, memory_order order = memory_order_seq_cst ) cv noexcept \
            { ::cdsverif::point( pk_rmw ); return v_.exchange( val, order ); } \
            bool compare_exchange_weak( T*& expected, T* desired, memory_order so, memory_order fo ) cv noexcept \
            { ::cdsverif::point( pk_rmw ); return v_.compare_exchange_strong( expected, desired, so, fo ); } \
            bool compare_exchange_strong( T*& expected, T* desired, memory_order so, memory_order fo ) cv noexcept \
            { ::cdsverif::point( pk_rmw ); return v_.compare_exchange_strong( expected, desired, so, fo ); } \
            bool compare_exchange_weak( T*& expected, T* desired, memory_order so = memory_order_seq_cst ) cv noexcept \
            { ::cdsverif::point( pk_rmw ); return v_.compare_exchange_strong( expected, desired, so ); } \
            bool compare_exchange_strong( T*& expected, T* desired, memory_order so = memory_order_seq_cst ) cv noexcept \
            { ::cdsverif::point( pk_rmw ); return v_.compare_exchange_strong( expected, desired, so ); } \
            T* fetch_add( std::ptrdiff_t val, memory_order order = memory_order_seq_cst ) cv noexcept \
            { ::cdsverif::point( pk_rmw ); return v_.fetch_add( val, order ); } \
            T* fetch_sub( std::ptrdiff_t val, memory_order order = memory_order_seq_cst ) cv noexcept \
            { ::cdsverif::point( pk_rmw ); return v_.fetch_sub( val, order ); } \
            T* operator++() cv noexcept { ::cdsverif::point( pk_rmw ); return ++v_; } \
            T* operator++( int ) cv noexcept { ::cdsverif::point( pk_rmw ); return v_++; } \
            T* operator--() cv noexcept { ::cdsverif::point( pk_rmw ); return --v_; } \
            T* operator--( int ) cv noexcept { ::cdsverif::point( pk_rmw ); return v_--; } \
            T* operator+=( std::ptrdiff_t val ) cv noexcept { ::cdsverif::point( pk_rmw ); return v_ += val; } \
            T* operator-=( std::ptrdiff_t val ) cv noexcept { ::cdsverif::point( pk_rmw ); return v_ -= val; }

            CDSVERIF_CV()
            CDSVERIF_CV(volatile)
#undef CDSVERIF_CV
        };

        typedef atomic<bool>            atomic_bool;
        typedef atomic<int>             atomic_int;
        typedef atomic<unsigned int>    atomic_uint;
        typedef atomic<long>            atomic_long;
        typedef atomic<unsigned long>   atomic_ulong;
        typedef atomic<std::size_t>     atomic_size_t;
        typedef atomic<std::uint32_t>   atomic_uint32_t;
        typedef atomic<std::uint64_t>   atomic_uint64_t;
    } // namespace atomics
} // namespace cdsverif

#endif // CDSVERIF_ATOMIC_H
