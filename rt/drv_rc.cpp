// rapidcheck driver + replay entry. The only TU that includes rapidcheck.
//   <h>.pbt --cases N --seed S --tier quick|thorough --out PREFIX [--variants a,b,..]
//   <h>.pbt --replay FILE
//   <h>.pbt --schema
#include <rapidcheck.h>

#include <cstdio>
#include <cstdlib>
#include <cstring>
#include <fstream>
#include <iostream>
#include <sstream>
#include <unistd.h>

#include "case.h"
#include "stats.h"

using namespace cdsverif;

namespace cdsverif {
    void showValue( Case const& c, std::ostream& os )
    {
        os << "\n" << to_text( c, harness_schema());
    }
}

namespace {
    RunStats g_stats;
    std::string g_prefix;
    bool g_thorough = false;
    bool g_in_shrink = false;
    std::vector<int> g_variants;
    int g_gapmax = 64;
    Case const* g_current = nullptr;

    void abort_hook( int reason )
    {
        // the case in flight is inconclusive: account for it and leave
        g_stats.inconclusive++;
        g_stats.evaluations++;
        g_stats.abort_note = reason == ab_budget ? "step budget exceeded" : "deadlock (no enabled thread)";
        if ( g_current )
            write_file( g_prefix + ".inconclusive.case", to_text( *g_current, harness_schema()));
        g_stats.write();
    }

    constexpr int kSize = 100;
    template <typename T>
    rc::Gen<T> rng( T lo, T hi_incl )
    {
        if ( hi_incl <= lo )
            return rc::gen::just( lo );
        return rc::gen::resize( kSize, rc::gen::inRange<T>( lo, T( hi_incl + 1 )));
    }

    Op gen_op( Schema const& s, int wsum )
    {
        int w = *rng<int>( 0, wsum - 1 );
        size_t k = 0;
        while ( k + 1 < s.ops.size() && w >= s.ops[k].weight ) {
            w -= s.ops[k].weight;
            ++k;
        }
        Op op;
        op.code = int( k );
        op.a = *rng<int>( 0, s.ops[k].amax );
        op.b = *rng<int>( 0, s.ops[k].bmax );
        return op;
    }

    rc::Gen<Case> gen_case_raw()
    {
        return rc::gen::exec( []() {
            Schema const& s = harness_schema();
            Case c;
            c.harness = s.name;
            c.variant = g_variants[size_t( *rng<int>( 0, int( g_variants.size()) - 1 ))];
            for ( auto const& cs : s.cfg )
                c.cfg.push_back( *rng<int>( cs.lo, cs.hi ));
            int maxT = g_thorough ? s.max_threads_thorough : s.max_threads_quick;
            int maxOps = g_thorough ? s.max_ops_thorough : s.max_ops_quick;
            int maxPre = g_thorough ? s.max_preempt_thorough : s.max_preempt_quick;
            int wsum = 0;
            for ( auto const& o : s.ops )
                wsum += o.weight;
            int T = s.sequential ? 1 : *rng<int>( s.min_threads, maxT );
            c.prog.resize( size_t( T ));
            for ( int t = 0; t < T; ++t ) {
                int n = *rng<int>( 1, maxOps );
                for ( int i = 0; i < n; ++i )
                    c.prog[size_t( t )].push_back( gen_op( s, wsum ));
            }
            c.seed = uint64_t( *rng<int>( 0, 1 << 30 ));
            if ( !s.sequential ) {
                c.start = uint32_t( *rng<int>( 0, T - 1 ));
                int mode = *rng<int>( 0, 7 );
                if ( mode == 0 )
                    c.rw = 4;
                else if ( mode == 1 )
                    c.rw = 16;
                else {
                    int npre = *rng<int>( 0, maxPre );
                    for ( int i = 0; i < npre; ++i ) {
                        bool tight = *rng<int>( 0, 2 ) == 0;
                        uint32_t gap = uint32_t( *rng<int>( 0, tight ? 12 : g_gapmax ));
                        uint32_t tgt = uint32_t( *rng<int>( 0, 3 ));
                        c.sched.push_back( { gap, tgt } );
                    }
                }
            }
            return c;
        } );
    }

    rc::Seq<Case> shrink_case( Case const& c )
    {
        Schema const& s = harness_schema();
        std::vector<Case> out;
        // random walk -> no schedule at all
        if ( c.rw ) {
            Case d = c;
            d.rw = 0;
            out.push_back( d );
        }
        // drop a thread
        if ( !s.sequential && int( c.prog.size()) > s.min_threads ) {
            for ( size_t t = 0; t < c.prog.size(); ++t ) {
                Case d = c;
                d.prog.erase( d.prog.begin() + long( t ));
                if ( d.start >= d.prog.size())
                    d.start = 0;
                out.push_back( d );
            }
        }
        // drop the second half / one op of a thread
        for ( size_t t = 0; t < c.prog.size(); ++t ) {
            if ( c.prog[t].size() > 3 ) {
                Case d = c;
                d.prog[t].resize( c.prog[t].size() / 2 );
                out.push_back( d );
            }
            for ( size_t i = 0; i < c.prog[t].size(); ++i ) {
                Case d = c;
                d.prog[t].erase( d.prog[t].begin() + long( i ));
                out.push_back( d );
            }
        }
        // drop a pre-emption
        for ( size_t i = 0; i < c.sched.size(); ++i ) {
            Case d = c;
            d.sched.erase( d.sched.begin() + long( i ));
            out.push_back( d );
        }
        // simplify scalars
        if ( c.start ) {
            Case d = c;
            d.start = 0;
            out.push_back( d );
        }
        for ( size_t i = 0; i < c.cfg.size() && i < s.cfg.size(); ++i )
            if ( c.cfg[i] > s.cfg[i].lo ) {
                Case d = c;
                d.cfg[i] = s.cfg[i].lo;
                out.push_back( d );
                if ( c.cfg[i] - 1 > s.cfg[i].lo ) {
                    d.cfg[i] = c.cfg[i] - 1;
                    out.push_back( d );
                }
            }
        for ( size_t t = 0; t < c.prog.size(); ++t )
            for ( size_t i = 0; i < c.prog[t].size(); ++i ) {
                if ( c.prog[t][i].a > 0 ) {
                    Case d = c;
                    d.prog[t][i].a = c.prog[t][i].a / 2;
                    out.push_back( d );
                }
                if ( c.prog[t][i].b > 0 ) {
                    Case d = c;
                    d.prog[t][i].b = c.prog[t][i].b / 2;
                    out.push_back( d );
                }
            }
        for ( size_t i = 0; i < c.sched.size(); ++i ) {
            if ( c.sched[i].first > 0 ) {
                Case d = c;
                d.sched[i].first = c.sched[i].first / 2;
                out.push_back( d );
                d.sched[i].first = c.sched[i].first - 1;
                out.push_back( d );
            }
            if ( c.sched[i].second > 0 ) {
                Case d = c;
                d.sched[i].second = 0;
                out.push_back( d );
            }
        }
        if ( c.seed ) {
            Case d = c;
            d.seed = 0;
            out.push_back( d );
        }
        return rc::seq::fromContainer( std::move( out ));
    }

    rc::Gen<Case> gen_case()
    {
        return rc::gen::shrink( rc::gen::noShrink( gen_case_raw()), &shrink_case );
    }

    Verdict evaluate( Case const& c )
    {
        Schema const& s = harness_schema();
        g_current = &c;
        write_file( g_prefix + ".current.case", to_text( c, s ));
        Verdict v = run_case( c );
        g_current = nullptr;
        g_stats.account( c, v, s, g_in_shrink );
        if ( v.kind == V_FAIL ) {
            write_file( g_prefix + ".failing.case", to_text( c, s ) + "# " + v.msg + "\n" );
            g_in_shrink = true;
        }
        return v;
    }

    // measure scheduling points per thread of unscheduled runs to scale pre-emption gaps
    void calibrate()
    {
        Schema const& s = harness_schema();
        if ( s.sequential )
            return;
        uint64_t z = 12345;
        auto nx = [&z]() {
            z = z * 6364136223846793005ull + 1442695040888963407ull;
            return uint32_t( z >> 33 );
        };
        uint64_t pts = 0, thr = 0;
        int wsum = 0;
        for ( auto const& o : s.ops )
            wsum += o.weight;
        for ( int i = 0; i < 12; ++i ) {
            Case c;
            c.harness = s.name;
            c.variant = g_variants[nx() % g_variants.size()];
            for ( auto const& cs : s.cfg )
                c.cfg.push_back( cs.lo + int( nx() % uint32_t( cs.hi - cs.lo + 1 )));
            int T = s.min_threads;
            int maxOps = g_thorough ? s.max_ops_thorough : s.max_ops_quick;
            c.prog.resize( size_t( T ));
            for ( auto& t : c.prog )
                for ( int k = 0; k < maxOps; ++k ) {
                    int w = int( nx() % uint32_t( wsum ));
                    size_t q = 0;
                    while ( q + 1 < s.ops.size() && w >= s.ops[q].weight ) {
                        w -= s.ops[q].weight;
                        ++q;
                    }
                    Op op;
                    op.code = int( q );
                    op.a = int( nx() % uint32_t( s.ops[q].amax + 1 ));
                    op.b = int( nx() % uint32_t( s.ops[q].bmax + 1 ));
                    t.push_back( op );
                }
            g_current = &c;
            Verdict v = run_case( c );
            g_current = nullptr;
            if ( v.kind == V_REJECT )
                continue;
            pts += v.sched.counted ? v.sched.counted : v.sched.points;
            thr += uint64_t( T );
        }
        if ( thr )
            g_gapmax = int( pts / thr );
        if ( g_gapmax < 16 )
            g_gapmax = 16;
        if ( g_gapmax > 4000 )
            g_gapmax = 4000;
    }

    int do_replay( const char* path )
    {
        Schema const& s = harness_schema();
        std::ifstream in( path );
        if ( !in ) {
            fprintf( stderr, "cannot open %s\n", path );
            return 2;
        }
        std::stringstream ss;
        ss << in.rdbuf();
        Case c;
        std::string err;
        if ( !from_text( ss.str(), s, c, &err )) {
            fprintf( stderr, "bad case file: %s\n", err.c_str());
            return 2;
        }
        Verdict v = run_case( c );
        const char* names[] = { "PASS", "FAIL", "INCONCLUSIVE", "REJECT" };
        printf( "REPLAY %s nontrivial=%d points=%llu switches=%llu preemptions=%llu hash=%016llx\n", names[v.kind], int( v.nontrivial ),
            (unsigned long long) v.sched.points, (unsigned long long) v.sched.switches, (unsigned long long) v.sched.preemptions,
            (unsigned long long) v.trace_hash );
        for ( auto const& kv : v.classes )
            printf( "  class %s=%llu\n", kv.first.c_str(), (unsigned long long) kv.second );
        if ( v.kind == V_FAIL )
            printf( "FAILMSG %s\n", v.msg.c_str());
        fflush( stdout );
        return v.kind == V_FAIL ? 1 : 0;
    }
}

int main( int argc, char** argv )
{
    Schema const& s = harness_schema();
    long cases = 1000;
    long seed = 1;
    const char* replay = nullptr;
    int maxsize = 100;
    int extra_at = -1;
    for ( int i = 1; i < argc; ++i ) {
        std::string a = argv[i];
        if ( a == "--cases" && i + 1 < argc )
            cases = atol( argv[++i] );
        else if ( a == "--seed" && i + 1 < argc )
            seed = atol( argv[++i] );
        else if ( a == "--tier" && i + 1 < argc )
            g_thorough = std::string( argv[++i] ) == "thorough";
        else if ( a == "--out" && i + 1 < argc )
            g_prefix = argv[++i];
        else if ( a == "--replay" && i + 1 < argc )
            replay = argv[++i];
        else if ( a == "--maxsize" && i + 1 < argc )
            maxsize = atoi( argv[++i] );
        else if ( a == "--variants" && i + 1 < argc ) {
            std::stringstream ss( argv[++i] );
            std::string tok;
            while ( std::getline( ss, tok, ',' ))
                if ( !tok.empty())
                    g_variants.push_back( atoi( tok.c_str()));
        }
        else if ( a == "--extra" ) {
            extra_at = i + 1;
            break;
        }
        else if ( a == "--schema" ) {
            printf( "{\"name\": \"%s\", \"sequential\": %s, \"variants\": [", s.name.c_str(), s.sequential ? "true" : "false" );
            for ( size_t k = 0; k < s.variants.size(); ++k )
                printf( "%s\"%s\"", k ? ", " : "", s.variants[k].c_str());
            printf( "], \"rule\": \"%s\"}\n", json_escape( s.nontrivial_rule ).c_str());
            return 0;
        }
    }
    if ( replay )
        return do_replay( replay );
    if ( g_prefix.empty())
        g_prefix = "/dev/null";
    if ( g_variants.empty())
        for ( size_t k = 0; k < s.variants.size(); ++k )
            g_variants.push_back( int( k ));
    for ( int& v : g_variants )
        if ( v < 0 || size_t( v ) >= s.variants.size())
            v = 0;
    g_stats.prefix = g_prefix;
    g_stats.engine = "rapidcheck";
    set_abort_hook( abort_hook );
    if ( extra_at >= 0 ) {
        g_stats.engine = "enumeration";
        if ( !harness_extra ) {
            fprintf( stderr, "harness has no --extra mode\n" );
            return 2;
        }
        int rc = harness_extra( argc - extra_at, argv + extra_at, g_stats );
        g_stats.write();
        printf( "EXTRA %s harness=%s evaluations=%llu distinct=%llu\n", rc == 0 ? "OK" : "FALSIFIED", s.name.c_str(),
            (unsigned long long) g_stats.evaluations, (unsigned long long) g_stats.nt_hashes.size());
        return rc;
    }
    calibrate();

    // rapidcheck is configured only through RC_PARAMS
    if ( seed == 0 )
        seed = 0x5eed;
    char params[256];
    snprintf( params, sizeof( params ), "seed=%ld max_success=%ld max_size=%d max_discard_ratio=100 noshrink=0", seed, cases, maxsize );
    setenv( "RC_PARAMS", params, 1 );

    bool ok = rc::check( s.name, []() {
        Case c = *gen_case();
        Verdict v = evaluate( c );
        if ( v.kind == V_REJECT )
            RC_DISCARD( "rejected" );
        if ( v.kind == V_FAIL )
            RC_FAIL( v.msg );
    } );
    g_stats.write();
    printf( "PBT %s harness=%s evaluations=%llu nontrivial=%llu distinct=%llu fail=%llu gapmax=%d\n", ok ? "OK" : "FALSIFIED", s.name.c_str(),
        (unsigned long long) g_stats.evaluations, (unsigned long long) g_stats.nontrivial, (unsigned long long) g_stats.nt_hashes.size(),
        (unsigned long long) g_stats.failc, g_gapmax );
    return ok ? 0 : 1;
}
