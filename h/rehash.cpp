// C17 "resize and rehash never lose or duplicate elements for any hash functions" (sequential differential harness):
// CuckooSet/Map + intrusive, StripedSet/Map over std containers, SplitListSet, FeldmanHashSet. See rehash_body.h.
#include "rehash_body.h"
