// Family `trees` (C15, tree part; C18 structure checks): cds::container::EllenBinTreeSet / EllenBinTreeMap over HP, DHP
// and the user-space RCU flavours, cds::container::BronsonAVLTreeMap<RCU, Key, T> (value variant) and
// BronsonAVLTreeMap<RCU, Key, T*> (pointer variant) with both kinds of synchronisation monitor
// (cds::sync::injecting_monitor<cds::sync::spin>, cds::sync::pool_monitor over vyukov_queue_pool / lazy_vyukov_queue_pool
// of std::mutex with a small capacity, so that the heap fall-back of the pools is exercised as well).
//
// Protocols: Ellen trees as in fam_ordered.h. Bronson (doxygen of impl/bronson_avltree_map_rcu.h): insert / insert_with /
// emplace / update / erase / extract / extract_min / extract_max - "RCU should NOT be locked"; find / contains lock RCU
// internally; functors run under the node lock (no scheduling points inside them); exempt_ptr is dereferenced and released
// outside the lock. The value variant has no get(). Pointer variant: insert(key, T*) / update(key, T*, bInsert) take
// ownership only when they succeed; update REPLACES the stored pointer (update_replaces() = true) and the old value goes
// to the disposer; every value is tracked in hv::registry() ("disposed exactly once").
// relaxed_insert = true: "false node creating can be performed" - the insert_with/update functor may run for a node that
// is discarded, so the functor-call count is not checked for those variants.
//
// C18: Ellen: check_consistency() + (through a derived class, m_Root is protected) an in-order walk: every reachable
// internal node has two children and a Clean update descriptor at a quiescent point, leaf keys respect the routing keys
// of all their ancestors; the walk is also the ordered traversal. Bronson: check_consistency() and
// check_consistency(functor); pointer variant additionally (m_pRoot is protected; the value variant derives privately
// from it and is not reachable): parent pointers, BST order, no shrinking/unlinked version bits, node locks free, and -
// ONLY while no erase/extract has succeeded in this container - strict AVL shape: every node carries a value, recomputed
// true heights satisfy |hL-hR| <= 1 and equal the stored heights. (The library's own balance test never adds 1 to the
// child heights and is vacuous; strict balance after removals is not guaranteed by the relaxed-balance algorithm.)
#ifndef CDSVERIF_H_FAM_TREES_H
#define CDSVERIF_H_FAM_TREES_H

#include "fam_ordered.h"

#include <mutex>

#include <cds/container/ellen_bintree_set_hp.h>
#include <cds/container/ellen_bintree_set_dhp.h>
#include <cds/container/ellen_bintree_set_rcu.h>
#include <cds/container/ellen_bintree_map_hp.h>
#include <cds/container/ellen_bintree_map_dhp.h>
#include <cds/container/ellen_bintree_map_rcu.h>
#include <cds/container/bronson_avltree_map_rcu.h>
#include <cds/sync/injecting_monitor.h>
#include <cds/sync/pool_monitor.h>
#include <cds/memory/vyukov_queue_pool.h>

namespace fam_trees {
    using namespace fam_ordered;

    // =====================================================================================================
    // Ellen binary tree
    // =====================================================================================================
    struct ItemKeyEx {
        void operator()( int& dest, Item const& src ) const { dest = src.key; }
    };
    template <int TR>
    struct eset_traits : cc::ellen_bintree::traits {
        typedef ItemKeyEx key_extractor;
        typedef typename tr_sel<TR>::less_type less;
        typedef typename tr_sel<TR>::compare_type compare;
        typedef typename tr_sel<TR>::item_counter item_counter;
        typedef typename tr_sel<TR>::back_off back_off;
        typedef typename tr_sel<TR>::memory_model memory_model;
        typedef typename std::conditional<TR == TR_CMP_IC, cc::ellen_bintree::stat<>, cc::ellen_bintree::empty_stat>::type stat;
    };
    template <int TR>
    struct emap_traits : cc::ellen_bintree::traits {
        typedef typename tr_sel<TR>::less_type less;
        typedef typename tr_sel<TR>::compare_type compare;
        typedef typename tr_sel<TR>::item_counter item_counter;
        typedef typename tr_sel<TR>::back_off back_off;
        typedef typename tr_sel<TR>::memory_model memory_model;
        typedef typename std::conditional<TR == TR_CMP_IC, cc::ellen_bintree::stat<>, cc::ellen_bintree::empty_stat>::type stat;
    };

    template <typename Base>
    struct EllenProbe : Base {
        typedef ci::ellen_bintree::base_node<typename Base::gc> tnode;
        typedef typename Base::internal_node inode;
        typedef typename Base::leaf_node lnode;

        // in-order walk; lo/hi: routing bounds (lo <= key < hi), has_lo/has_hi
        bool walk( tnode* n, bool has_lo, int lo, bool has_hi, int hi, std::vector<int>& keys, int depth )
        {
            if ( !n ) {
                fail( "Ellen tree: null child pointer in a reachable internal node" );
                return false;
            }
            if ( depth > 64 ) {
                fail( "Ellen tree: the walk is deeper than any possible tree (cycle?)" );
                return false;
            }
            if ( n->is_leaf()) {
                if ( n->infinite_key())
                    return true;
                int k = key_of( static_cast<lnode*>( n )->m_Value );
                if (( has_lo && k < lo ) || ( has_hi && k >= hi )) {
                    fail( "Ellen tree: leaf with key " + std::to_string( k ) + " lies outside the routing interval of its ancestors" );
                    return false;
                }
                keys.push_back( k );
                return true;
            }
            inode* in = static_cast<inode*>( n );
            if ( in->m_pUpdate.load( atomics::memory_order_acquire ).bits() != 0 ) {
                fail( "Ellen tree: a reachable internal node still carries a flagged/marked update descriptor (state "
                    + std::to_string( in->m_pUpdate.load( atomics::memory_order_acquire ).bits()) + ") at a quiescent point" );
                return false;
            }
            bool inf = in->infinite_key() != 0;
            tnode* l = in->m_pLeft.load( atomics::memory_order_acquire );
            tnode* r = in->m_pRight.load( atomics::memory_order_acquire );
            if ( inf ) {
                // keys of infinite internal nodes are greater than every real key
                return walk( l, has_lo, lo, has_hi, hi, keys, depth + 1 ) && walk( r, has_lo, lo, has_hi, hi, keys, depth + 1 );
            }
            int k = in->m_Key;
            return walk( l, has_lo, lo, true, has_hi && hi < k ? hi : k, keys, depth + 1 )
                && walk( r, true, has_lo && lo > k ? lo : k, has_hi, hi, keys, depth + 1 );
        }
        bool probe_traverse( std::vector<int>& keys )
        {
            walk( &this->m_Root, false, 0, false, 0, keys, 0 );
            return true;
        }
        void probe_check( bool )
        {
            if ( !this->check_consistency())
                fail( "Ellen tree: check_consistency() returned false at a quiescent point" );
            std::vector<int> keys;
            if ( walk( &this->m_Root, false, 0, false, 0, keys, 0 ))
                note_class( "ellen_walks" );
        }
    };

    // =====================================================================================================
    // Bronson AVL tree
    // =====================================================================================================
    struct SmallPool : cds::memory::vyukov_queue_pool<std::mutex> {
        SmallPool( size_t = 0 ) : cds::memory::vyukov_queue_pool<std::mutex>( 4 ) {}
    };
    struct SmallLazyPool : cds::memory::lazy_vyukov_queue_pool<std::mutex> {
        SmallLazyPool( size_t = 0 ) : cds::memory::lazy_vyukov_queue_pool<std::mutex>( 4 ) {}
    };
    enum { MON_SPIN = 0, MON_POOL = 1, MON_LAZY = 2 };
    template <int MON> struct mon_sel { typedef cds::sync::injecting_monitor<cds::sync::spin> type; };
    template <> struct mon_sel<MON_POOL> { typedef cds::sync::pool_monitor<SmallPool> type; };
    template <> struct mon_sel<MON_LAZY> { typedef cds::sync::pool_monitor<SmallLazyPool, cds::backoff::yield> type; };

    // pointer variant payload
    struct PVal {
        int tag = -1;
        uint64_t canary = 0xabcdef;
        int id = -1;
    };
    struct PValDisposer {
        void operator()( PVal* p ) const
        {
            registry().on_dispose( p->id, "Bronson mapped value" );
            if ( p->canary != 0xabcdef ) {
                fail( "Bronson disposer called for a value with a bad canary (disposed twice?)" );
                return;
            }
            p->canary = 0xdead0000deadull;
            delete p;
        }
    };

    template <int TR, int MON, bool Relaxed>
    struct br_traits : cc::bronson_avltree::traits {
        typedef typename tr_sel<TR>::less_type less;
        typedef typename tr_sel<TR>::compare_type compare;
        typedef typename tr_sel<TR>::item_counter item_counter;
        typedef typename tr_sel<TR>::back_off back_off;
        typedef typename tr_sel<TR>::memory_model memory_model;
        typedef typename mon_sel<MON>::type sync_monitor;
        static constexpr bool const relaxed_insert = Relaxed;
    };
    template <int TR, int MON, bool Relaxed>
    struct brp_traits : br_traits<TR, MON, Relaxed> {
        typedef PValDisposer disposer;
    };

    template <typename Base>
    struct BronsonValProbe : Base {
        bool probe_traverse( std::vector<int>& ) { return false; }
        void probe_check( bool )
        {
            if ( !this->check_consistency())
                fail( "Bronson tree: check_consistency() returned false at a quiescent point" );
            size_t viol = 0;
            if ( !this->check_consistency( [&]( size_t, size_t, size_t ) { ++viol; } ) || viol )
                fail( "Bronson tree: check_consistency(functor) reported " + std::to_string( viol ) + " violations at a quiescent point" );
        }
    };

    template <typename Base>
    struct BronsonPtrProbe : Base {
        typedef typename Base::node_type node_type;

        // returns the true height of the subtree, -1 after a failure
        int walk( node_type* n, node_type* parent, bool has_lo, int lo, bool has_hi, int hi, bool strict, std::vector<int>* keys, int depth )
        {
            if ( !n )
                return 0;
            if ( depth > 64 ) {
                fail( "Bronson tree: the walk is deeper than any possible tree (cycle?)" );
                return -1;
            }
            int k = n->m_key;
            std::string at = " (node with key " + std::to_string( k ) + ")";
            if ( n->m_pParent.load( atomics::memory_order_acquire ) != parent ) {
                fail( "Bronson tree: parent pointer of a reachable node does not point to the node it hangs under" + at );
                return -1;
            }
            if ( n->version( atomics::memory_order_acquire ) & ( node_type::shrinking | node_type::unlinked )) {
                fail( "Bronson tree: a reachable node is marked shrinking/unlinked at a quiescent point" + at );
                return -1;
            }
            if ( !n->m_SyncMonitorInjection.check_free()) {
                fail( "Bronson tree: the node lock of a reachable node is still allocated/referenced at a quiescent point" + at );
                return -1;
            }
            if (( has_lo && k <= lo ) || ( has_hi && k >= hi )) {
                fail( "Bronson tree: binary-search-tree order violated" + at );
                return -1;
            }
            node_type* l = n->m_pLeft.load( atomics::memory_order_acquire );
            node_type* r = n->m_pRight.load( atomics::memory_order_acquire );
            int hl = walk( l, n, has_lo, lo, true, k, strict, keys, depth + 1 );
            if ( hl < 0 )
                return -1;
            bool valued = n->is_valued( atomics::memory_order_acquire );
            if ( valued && keys )
                keys->push_back( k );
            int hr = walk( r, n, true, k, has_hi, hi, strict, keys, depth + 1 );
            if ( hr < 0 )
                return -1;
            int h = 1 + ( hl > hr ? hl : hr );
            if ( !valued )
                note_class( "bronson_routing_nodes_seen" );
            if ( strict ) {
                if ( !valued ) {
                    fail( "Bronson tree: routing (valueless) node in a tree that never saw a successful removal" + at );
                    return -1;
                }
                if ( hl - hr > 1 || hr - hl > 1 ) {
                    fail( "Bronson tree (no removal so far): AVL balance violated, true subtree heights " + std::to_string( hl ) + " / " + std::to_string( hr ) + at );
                    return -1;
                }
                int stored = n->m_nHeight.load( atomics::memory_order_acquire );
                if ( stored != h ) {
                    fail( "Bronson tree (no removal so far): stored height " + std::to_string( stored ) + " differs from the true height " + std::to_string( h ) + at );
                    return -1;
                }
            }
            return h;
        }
        node_type* top() { return this->m_pRoot->m_pRight.load( atomics::memory_order_acquire ); }
        bool probe_traverse( std::vector<int>& keys )
        {
            walk( top(), this->m_pRoot, false, 0, false, 0, false, &keys, 0 );
            return true;
        }
        void probe_check( bool had_removals )
        {
            if ( !this->check_consistency())
                fail( "Bronson tree: check_consistency() returned false at a quiescent point" );
            size_t viol = 0;
            if ( !this->check_consistency( [&]( size_t, size_t, size_t ) { ++viol; } ) || viol )
                fail( "Bronson tree: check_consistency(functor) reported " + std::to_string( viol ) + " violations at a quiescent point" );
            if ( walk( top(), this->m_pRoot, false, 0, false, 0, !had_removals, nullptr, 0 ) >= 0 )
                note_class( had_removals ? "bronson_walks_relaxed" : "bronson_walks_strict" );
        }
    };

    template <typename C>
    struct BronsonValAdapter : AdapterBase {
        C s;
        int hold;
        explicit BronsonValAdapter( Case const& c ) : hold( cfg_at( c, 2, 0 )) {}
        static constexpr bool relaxed = C::c_bRelaxedInsert;

        bool supports( int op ) const override { return op != O_UNLINK && op != O_GET; }
        void see( Res& r, int k, Mapped const& m )
        {
            if ( m.canary != 0xabcdef )
                fail( "Bronson tree handed a value with a bad canary to a functor (already disposed?)" );
            r.key = k;
            r.tag = m.tag;
        }
        void take( Res& r, typename C::exempt_ptr& ep )
        {
            if ( ep ) {
                r.r = 1;
                r.tag = ep->tag;
                hold_and_check( &*ep, hold );
            }
            ep.release();
        }
        Res apply( int op, int key, int tag ) override
        {
            Res r;
            switch ( op ) {
            case O_INSERT:
                r.r = ( tag % 3 == 0 ? s.insert( key ) : s.insert( key, Mapped( tag ))) ? 1 : 0;
                break;
            case O_INSERT_F: {
                int calls = 0;
                r.r = s.insert_with( key, [&]( int const& k, Mapped& m ) { ++calls; m.tag = tag; r.key = k; } ) ? 1 : 0;
                if ( relaxed ) {
                    if ( r.r && !calls )
                        fail( "insert_with succeeded without calling its functor" );
                }
                else
                    r.fcalls = calls;
                break;
            }
            case O_UPDATE:
            case O_UPDATE_NOINS: {
                int calls = 0;
                int last_new = -1;
                std::pair<bool, bool> p = s.update( key, [&]( bool bNew, int const& k, Mapped& m ) {
                    ++calls;
                    last_new = bNew ? 1 : 0;
                    if ( bNew )
                        m.tag = tag;
                    see( r, k, m );
                }, op == O_UPDATE );
                r.r = !p.first ? 0 : p.second ? 2 : 1;
                if ( relaxed ) {
                    if ( r.r && !calls )
                        fail( "update succeeded without calling its functor" );
                    if ( r.r && last_new != ( r.r == 2 ? 1 : 0 ))
                        fail( "update: the last functor call's bNew flag disagrees with the returned pair" );
                }
                else {
                    r.fcalls = calls;
                    r.fnew = last_new;
                }
                if ( r.r == 2 )
                    r.tag = tag;
                if ( r.r == 0 )
                    r.tag = -1;
                break;
            }
            case O_EMPLACE:
                r.r = s.emplace( key, tag ) ? 1 : 0;
                break;
            case O_ERASE:
                r.r = s.erase( key ) ? 1 : 0;
                break;
            case O_ERASE_F: {
                int calls = 0;
                r.r = s.erase( key, [&]( int const& k, Mapped& m ) { ++calls; see( r, k, m ); } ) ? 1 : 0;
                r.fcalls = calls;
                break;
            }
            case O_EXTRACT: {
                typename C::exempt_ptr ep( s.extract( key ));
                take( r, ep );
                break;
            }
            case O_EXTRACT_MIN:
            case O_EXTRACT_MAX: {
                int k = -1;
                bool mn = op == O_EXTRACT_MIN;
                if ( tag & 1 ) {
                    typename C::exempt_ptr ep( mn ? s.extract_min( [&]( int const& kk ) { k = kk; } ) : s.extract_max( [&]( int const& kk ) { k = kk; } ));
                    take( r, ep );
                }
                else {
                    typename C::exempt_ptr ep( mn ? s.extract_min_key( k ) : s.extract_max_key( k ));
                    take( r, ep );
                }
                r.key = k;
                if ( r.r && k < 0 )
                    fail( "extract_min/max returned a value without reporting its key" );
                break;
            }
            case O_FIND_F: {
                int calls = 0;
                r.r = s.find( key, [&]( int const& k, Mapped& m ) { ++calls; see( r, k, m ); } ) ? 1 : 0;
                r.fcalls = calls;
                break;
            }
            case O_CONTAINS:
                r.r = s.contains( key ) ? 1 : 0;
                break;
            default:
                r.unsupported = true;
                break;
            }
            return r;
        }
        bool has_counter() const override { return counted<C>(); }
        size_t size() const override { return s.size(); }
        bool empty() const override { return s.empty(); }
        bool traverse( std::vector<int>& keys ) override { return s.probe_traverse( keys ); }
        void check_structure( bool had_removals ) override { s.probe_check( had_removals ); }
        void scan() override { C::gc::synchronize(); }
    };

    template <typename C>
    struct BronsonPtrAdapter : AdapterBase {
        C s;
        int hold;
        explicit BronsonPtrAdapter( Case const& c ) : hold( cfg_at( c, 2, 0 )) {}

        bool supports( int op ) const override
        {
            return op != O_UNLINK && op != O_GET && op != O_INSERT_F && op != O_EMPLACE;
        }
        bool update_replaces() const override { return true; }
        static PVal* make( int tag )
        {
            PVal* p = new PVal;
            p->tag = tag;
            p->id = registry().add();
            return p;
        }
        static void unused( PVal* p )
        {
            registry().drop( p->id );
            delete p;
        }
        void see( Res& r, int k, PVal const& m )
        {
            if ( m.canary != 0xabcdef )
                fail( "Bronson tree handed a value with a bad canary to a functor (already disposed?)" );
            r.key = k;
            r.tag = m.tag;
        }
        void take( Res& r, typename C::exempt_ptr& ep )
        {
            if ( ep ) {
                r.r = 1;
                r.tag = ep->tag;
                hold_and_check( &*ep, hold );
            }
            ep.release();
        }
        Res apply( int op, int key, int tag ) override
        {
            Res r;
            switch ( op ) {
            case O_INSERT: {
                PVal* p = make( tag );
                r.r = s.insert( key, p ) ? 1 : 0;
                if ( !r.r )
                    unused( p );
                break;
            }
            case O_UPDATE:
            case O_UPDATE_NOINS: {
                PVal* p = make( tag );
                std::pair<bool, bool> res = s.update( key, p, op == O_UPDATE );
                r.r = !res.first ? 0 : res.second ? 2 : 1;
                if ( !r.r )
                    unused( p );
                r.tag = r.r == 2 ? tag : -1;        // the replaced value is not shown to the caller
                break;
            }
            case O_ERASE:
                r.r = s.erase( key ) ? 1 : 0;
                break;
            case O_ERASE_F: {
                int calls = 0;
                r.r = s.erase( key, [&]( int const& k, PVal& m ) { ++calls; see( r, k, m ); } ) ? 1 : 0;
                r.fcalls = calls;
                break;
            }
            case O_EXTRACT: {
                typename C::exempt_ptr ep( s.extract( key ));
                take( r, ep );
                break;
            }
            case O_EXTRACT_MIN:
            case O_EXTRACT_MAX: {
                int k = -1;
                bool mn = op == O_EXTRACT_MIN;
                if ( tag & 1 ) {
                    typename C::exempt_ptr ep( mn ? s.extract_min( [&]( int const& kk ) { k = kk; } ) : s.extract_max( [&]( int const& kk ) { k = kk; } ));
                    take( r, ep );
                }
                else {
                    typename C::exempt_ptr ep( mn ? s.extract_min_key( k ) : s.extract_max_key( k ));
                    take( r, ep );
                }
                r.key = k;
                if ( r.r && k < 0 )
                    fail( "extract_min/max returned a value without reporting its key" );
                break;
            }
            case O_FIND_F: {
                int calls = 0;
                r.r = s.find( key, [&]( int const& k, PVal& m ) { ++calls; see( r, k, m ); } ) ? 1 : 0;
                r.fcalls = calls;
                break;
            }
            case O_CONTAINS:
                r.r = s.contains( key ) ? 1 : 0;
                break;
            default:
                r.unsupported = true;
                break;
            }
            return r;
        }
        bool has_counter() const override { return counted<C>(); }
        size_t size() const override { return s.size(); }
        bool empty() const override { return s.empty(); }
        bool traverse( std::vector<int>& keys ) override { return s.probe_traverse( keys ); }
        void check_structure( bool had_removals ) override { s.probe_check( had_removals ); }
        void scan() override { C::gc::synchronize(); }
    };

    // =====================================================================================================
    // variant table
    // =====================================================================================================
    template <typename A>
    AdapterBase* mk( Case const& c ) { return new A( c ); }

    template <typename GC, int TR> using ESet = cc::EllenBinTreeSet<GC, int, Item, eset_traits<TR>>;
    template <typename GC, int TR> using EMap = cc::EllenBinTreeMap<GC, int, Mapped, emap_traits<TR>>;
    template <typename GC, int TR> using GESet = GuardedAdapter<EllenProbe<ESet<GC, TR>>, SetApi>;
    template <typename GC, int TR> using GEMap = GuardedAdapter<EllenProbe<EMap<GC, TR>>, MapApi>;
    template <typename GC, int TR> using RESet = RcuAdapter<EllenProbe<ESet<GC, TR>>, SetApi, false>;
    template <typename GC, int TR> using REMap = RcuAdapter<EllenProbe<EMap<GC, TR>>, MapApi, false>;
    template <typename GC, int TR, int MON, bool RLX = false> using BVal = BronsonValAdapter<BronsonValProbe<cc::BronsonAVLTreeMap<GC, int, Mapped, br_traits<TR, MON, RLX>>>>;
    template <typename GC, int TR, int MON, bool RLX = false> using BPtr = BronsonPtrAdapter<BronsonPtrProbe<cc::BronsonAVLTreeMap<GC, int, PVal*, brp_traits<TR, MON, RLX>>>>;

    constexpr size_t kEllenHz = ESet<HP, TR_CMP>::c_nHazardPtrCount;

#define TRV( NAME, GCK, ... ) { NAME, GCK, kEllenHz, &mk<__VA_ARGS__>, true }
    static const MapVariant kTreesVariants[] = {
        TRV( "EllenBinTreeSet_HP_less_ic", GC_HP, GESet<HP, TR_LESS_IC> ),
        TRV( "EllenBinTreeSet_DHP_cmp", GC_DHP, GESet<DHP, TR_CMP> ),
        TRV( "EllenBinTreeSet_GPB_cmp_ic_stat_seqcst", GC_GPB, RESet<RCU_GPB, TR_CMP_IC> ),
        TRV( "EllenBinTreeSet_GPI_less", GC_GPI, RESet<RCU_GPI, TR_LESS> ),
        TRV( "EllenBinTreeSet_GPT_less_ic", GC_GPT, RESet<RCU_GPT, TR_LESS_IC> ),
        TRV( "EllenBinTreeSet_SHB_cmp", GC_SHB, RESet<RCU_SHB, TR_CMP> ),
        TRV( "EllenBinTreeMap_HP_cmp", GC_HP, GEMap<HP, TR_CMP> ),
        TRV( "EllenBinTreeMap_DHP_less_ic", GC_DHP, GEMap<DHP, TR_LESS_IC> ),
        TRV( "EllenBinTreeMap_GPI_cmp_ic_stat_seqcst", GC_GPI, REMap<RCU_GPI, TR_CMP_IC> ),
        TRV( "EllenBinTreeMap_GPB_less", GC_GPB, REMap<RCU_GPB, TR_LESS> ),
        TRV( "EllenBinTreeMap_GPT_cmp", GC_GPT, REMap<RCU_GPT, TR_CMP> ),
        TRV( "BronsonAVLTreeMap_GPB_spin_less_ic", GC_GPB, BVal<RCU_GPB, TR_LESS_IC, MON_SPIN> ),
        TRV( "BronsonAVLTreeMap_GPI_pool_cmp", GC_GPI, BVal<RCU_GPI, TR_CMP, MON_POOL> ),
        TRV( "BronsonAVLTreeMap_GPT_lazypool_cmp_ic_seqcst", GC_GPT, BVal<RCU_GPT, TR_CMP_IC, MON_LAZY> ),
        TRV( "BronsonAVLTreeMap_SHB_spin_less", GC_SHB, BVal<RCU_SHB, TR_LESS, MON_SPIN> ),
        TRV( "BronsonAVLTreeMapPtr_GPB_spin_cmp_ic", GC_GPB, BPtr<RCU_GPB, TR_CMP_IC, MON_SPIN> ),
        TRV( "BronsonAVLTreeMapPtr_GPI_pool_less", GC_GPI, BPtr<RCU_GPI, TR_LESS, MON_POOL> ),
        TRV( "BronsonAVLTreeMapPtr_GPT_lazypool_cmp", GC_GPT, BPtr<RCU_GPT, TR_CMP, MON_LAZY> ),
        // relaxed_insert = true last: both variants hit the known relaxed-insert defect (a value passed to insert()/emplace() is disposed
        // on a failed attach and then re-used), run the default campaigns with --variants 0..17 until it is fixed
        TRV( "BronsonAVLTreeMap_GPB_pool_relaxedins_cmp_ic", GC_GPB, BVal<RCU_GPB, TR_CMP_IC, MON_POOL, true> ),
        TRV( "BronsonAVLTreeMapPtr_GPB_spin_relaxedins_less_ic", GC_GPB, BPtr<RCU_GPB, TR_LESS_IC, MON_SPIN, true> ),
    };
#undef TRV
    static const size_t kTreesCount = sizeof( kTreesVariants ) / sizeof( kTreesVariants[0] );

    static const char* const kTreesRule =
        "two operations of different threads on the same key (or one of them an extract_min/extract_max) overlapped, at least one of them a successful "
        "update, and a pre-emptive or yielding switch occurred; sequential mode: an op on a present key, an op on an absent key and a successful removal";
} // namespace fam_trees

#endif
