// Generic set/map harness machinery (C13-C18, C20): uniform op set over adapters, history
// recording, linearizability against MapModel with insertion tags, functor-call contract,
// quiescent-point checks, sequential differential mode.
#ifndef CDSVERIF_H_MAPCOMMON_H
#define CDSVERIF_H_MAPCOMMON_H

#include "common.h"

#include <map>
#include <set>

#include <cds/gc/nogc.h>
#include <cds/urcu/general_instant.h>
#include <cds/urcu/general_buffered.h>
#include <cds/urcu/general_threaded.h>
#include <cds/urcu/signal_buffered.h>

namespace mh {
    using namespace hv;

    typedef cds::gc::HP HP;
    typedef cds::gc::DHP DHP;
    typedef cds::urcu::gc<cds::urcu::general_instant<>> RCU_GPI;
    typedef cds::urcu::gc<cds::urcu::general_buffered<>> RCU_GPB;
    typedef cds::urcu::gc<cds::urcu::general_threaded<>> RCU_GPT;
    typedef cds::urcu::gc<cds::urcu::signal_buffered<>> RCU_SHB;

    enum GcKind { GC_HP, GC_DHP, GC_GPI, GC_GPB, GC_GPT, GC_SHB, GC_NOGC, GC_NONE };

    template <typename GC> struct gc_kind;
    template <> struct gc_kind<HP> { static constexpr GcKind value = GC_HP; };
    template <> struct gc_kind<DHP> { static constexpr GcKind value = GC_DHP; };
    template <> struct gc_kind<RCU_GPI> { static constexpr GcKind value = GC_GPI; };
    template <> struct gc_kind<RCU_GPB> { static constexpr GcKind value = GC_GPB; };
    template <> struct gc_kind<RCU_GPT> { static constexpr GcKind value = GC_GPT; };
    template <> struct gc_kind<RCU_SHB> { static constexpr GcKind value = GC_SHB; };
    template <> struct gc_kind<cds::gc::nogc> { static constexpr GcKind value = GC_NOGC; };

    // uniform operation codes (the schema of every map harness lists them in this order)
    enum {
        O_INSERT = 0,       // insert(key)
        O_INSERT_F,         // insert(key, functor)
        O_UPDATE,           // update/upsert(key, allow insert)
        O_UPDATE_NOINS,     // update(key, insertion not allowed)
        O_EMPLACE,          // emplace(key)
        O_ERASE,            // erase(key)
        O_ERASE_F,          // erase(key, functor)
        O_EXTRACT,          // extract(key) -> guarded_ptr / exempt_ptr
        O_GET,              // get(key) -> guarded_ptr / raw_ptr
        O_FIND_F,           // find(key, functor)
        O_CONTAINS,         // contains(key)
        O_EXTRACT_MIN,
        O_EXTRACT_MAX,
        O_UNLINK,           // intrusive unlink(item found by get)
        O_SCAN,             // force a reclamation pass (HP/DHP scan, RCU synchronize)
        O_COUNT
    };
    extern const char* const kOpNames[];

    // payload stored in the containers: `tag` identifies the insertion
    struct Item {
        int key = 0;
        int tag = 0;
        uint64_t canary = 0xabcdef;
        Item() {}
        Item( int k, int t ) : key( k ), tag( t ) {}
    };
    struct ItemLess {
        bool operator()( Item const& a, Item const& b ) const { return a.key < b.key; }
        bool operator()( Item const& a, int b ) const { return a.key < b; }
        bool operator()( int a, Item const& b ) const { return a < b.key; }
        bool operator()( int a, int b ) const { return a < b; }
    };
    struct ItemCmp {
        int operator()( Item const& a, Item const& b ) const { return a.key < b.key ? -1 : a.key > b.key ? 1 : 0; }
        int operator()( Item const& a, int b ) const { return a.key < b ? -1 : a.key > b ? 1 : 0; }
        int operator()( int a, Item const& b ) const { return a < b.key ? -1 : a > b.key ? 1 : 0; }
        int operator()( int a, int b ) const { return a < b ? -1 : a > b ? 1 : 0; }
    };

    // result of one operation as seen by the client
    struct Res {
        int r = 0;          // bool ops: 0/1; update: 0 (false,false) / 1 (true,false) / 2 (true,true); extract_min/max: 1 found, 0 empty
        int tag = -1;       // tag observed (item passed to the functor / returned pointer), -1 = not observable
        int key = -1;       // key observed (extract_min/max result, functor argument)
        int fcalls = -1;    // number of functor invocations, -1 = op has no functor
        int fnew = -1;      // bNew flag passed to the update functor
        bool unsupported = false;
    };

    struct AdapterBase {
        virtual ~AdapterBase() {}
        virtual bool supports( int op ) const = 0;
        // execute op; operations that return protected pointers dereference them (with scheduling
        // points in between) before releasing them, inside the adapter
        virtual Res apply( int op, int key, int tag ) = 0;
        virtual bool update_replaces() const { return false; }     // update() stores the new object (tag changes)
        virtual bool has_counter() const { return false; }
        virtual size_t size() const { return 0; }
        virtual bool empty() const { return false; }
        // C18: traversal in container order: keys as visited (must be strictly increasing / exact); return false when not offered
        virtual bool traverse( std::vector<int>& keys ) { (void) keys; return false; }
        // C18: structure-specific consistency checks at a quiescent point; call fail() on violation
        virtual void check_structure( bool had_removals ) { (void) had_removals; }
        virtual void scan() {}
    };

    struct MapVariant {
        const char* name;
        GcKind gc;
        size_t hazards;             // HP: hazard pointers the container needs
        AdapterBase* (*make)( Case const& c );
        bool ordered;               // traversal yields increasing keys
    };

    struct MapHarnessConfig {
        const char* name;
        MapVariant const* variants;
        size_t nvariants;
        int max_key = 3;            // keys 0..max_key
        bool sequential = false;
        bool check_minmax = false;  // relaxed extract_min/max side condition (C15)
    };

    Schema make_map_schema( MapHarnessConfig const& hc, std::vector<CfgSpec> extra_cfg, const char* rule );
    Verdict run_map_case( MapHarnessConfig const& hc, Case const& c );

    // helper for adapters: dereference a protected item at a few scheduling points
    template <typename T>
    inline void hold_and_check( T const* p, int points )
    {
        for ( int i = 0; i < points; ++i ) {
            cdsverif::point();
            if ( p->canary != 0xabcdef )
                fail( "item reached through a guarded/raw/exempt pointer has a bad canary (disposed?)" );
        }
    }

    inline int& tag_counter()
    {
        static int t = 0;
        return t;
    }
} // namespace mh

#endif
