// C13 (RCU and insert-only part) + container clause of C04: MichaelList / LazyList value sets, key-value lists and
// intrusive lists over general_instant / general_buffered / general_threaded / signal_buffered RCU and cds::gc::nogc.
// Adapters, protocol notes and the variant table: fam_lists_rcu.h
#include "mapcommon_impl.h"
#include "fam_lists_rcu.h"

using namespace mh;

namespace {
    const MapHarnessConfig kConfig = { "lists_rcu", fam_lists_rcu::kListsRcuVariants, fam_lists_rcu::kListsRcuCount, 3, false, false };
}

namespace cdsverif {
    Schema const& harness_schema()
    {
        static Schema s = make_map_schema( kConfig, {},
            "two operations of different threads on the same key overlapped, at least one of them a successful update "
            "(insert-only nogc variants: a successful insertion), and a pre-emptive or yielding switch occurred" );
        return s;
    }
    Verdict run_case( Case const& c ) { return run_map_case( kConfig, c ); }
}
