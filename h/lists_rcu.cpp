// C13 (RCU and insert-only part) + container clause of C04: MichaelList / LazyList value sets, key-value lists and
// intrusive lists over general_instant / general_buffered / general_threaded / signal_buffered RCU and cds::gc::nogc.
// Adapters, protocol notes and the variant table: fam_lists_rcu.h
#include "mapcommon_impl.h"
#include "fam_lists_rcu.h"
#include "stats.h"

using namespace mh;

namespace {
    const MapHarnessConfig kConfig = { "lists_rcu", fam_lists_rcu::kListsRcuVariants, fam_lists_rcu::kListsRcuCount, 3, false, false };
}

namespace cdsverif {
    Schema const& harness_schema()
    {
        static Schema s = make_map_schema( kConfig, {},
            "two operations of different threads on the same key overlapped, at least one of them a successful update "
            "(insert-only nogc variants: a successful insertion), and a pre-emptive or yielding switch occurred" );
        return s;
    }
    Verdict run_case( Case const& c ) { return run_map_case( kConfig, c ); }

    // --extra sweep2 <variant> <opA> <keyA> <opB> <keyB> <prefill> [hold]
    // Systematic campaign: two workers with ONE operation each (op names as in the schema) and EVERY pair of pre-emption
    // positions (g1, g2): worker 0 starts, is pre-empted after g1 counted scheduling points, the second pre-emption follows
    // g2 counted points later (whoever runs then). g1, g2 range over the number of counted points of the un-pre-empted run
    // (+ margin), so the sub-domain "this program, <= 2 pre-emptions" is enumerated completely.
    int harness_extra( int argc, char** argv, RunStats& stats )
    {
        Schema const& s = harness_schema();
        if ( argc < 7 || std::string( argv[0] ) != "sweep2" ) {
            fprintf( stderr, "lists_rcu --extra sweep2 <variant> <opA> <keyA> <opB> <keyB> <prefill> [hold]\n" );
            return 2;
        }
        auto op_code = [&]( const char* name ) {
            for ( size_t i = 0; i < s.ops.size(); ++i )
                if ( std::string( s.ops[i].name ) == name )
                    return int( i );
            return -1;
        };
        Case c;
        c.harness = s.name;
        c.variant = atoi( argv[1] );
        int a = op_code( argv[2] ), b = op_code( argv[4] );
        if ( a < 0 || b < 0 || c.variant < 0 || size_t( c.variant ) >= s.variants.size()) {
            fprintf( stderr, "sweep2: bad variant or operation name\n" );
            return 2;
        }
        c.cfg = { atoi( argv[6] ), 0, argc > 7 ? atoi( argv[7] ) : 0 };
        c.prog.resize( 2 );
        c.prog[0] = { Op{ a, atoi( argv[3] ), 0 } };
        c.prog[1] = { Op{ b, atoi( argv[5] ), 0 } };
        c.seed = 1;
        int rc = 0;
        auto eval = [&]( Case const& cc ) {
            write_file( stats.prefix + ".current.case", to_text( cc, s ));
            Verdict v = run_case( cc );
            stats.evaluations++;
            if ( v.nontrivial ) {
                stats.nontrivial++;
                if ( stats.nt_hashes.insert( v.trace_hash ).second && stats.samples.size() < 3 )
                    stats.samples.push_back( to_text( cc, s ));
            }
            if ( v.kind == V_FAIL ) {
                stats.failc++;
                if ( !rc )
                    write_file( stats.prefix + ".failing.case", to_text( cc, s ) + "# " + v.msg + "\n" );
                rc = 1;
            }
            else
                stats.pass++;
            return v;
        };
        Verdict base = eval( c );
        uint32_t n = uint32_t( base.sched.counted ) * 2 + 60;    // pre-empted runs are longer (helping, synchronize() spinning)
        for ( uint32_t g1 = 0; g1 < n && !rc; ++g1 ) {
            c.sched = { { g1, 1 } };
            eval( c );
            for ( uint32_t g2 = 0; g2 < n && !rc; ++g2 ) {
                c.sched = { { g1, 1 }, { g2, 1 } };
                eval( c );
            }
        }
        if ( !rc )
            stats.exhaustive_domains.push_back( std::string( "sweep2 " ) + s.variants[size_t( c.variant )] + " " + argv[2] + "(" + argv[3] + ") || " + argv[4] + "("
                + argv[5] + ") prefill=" + argv[6] + ": all schedules with <= 2 pre-emptions" );
        return rc;
    }
}
