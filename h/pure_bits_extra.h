// C25 (pure_bits): enumeration campaigns ("--extra ..."). Included at the end of pure_bits.cpp.
//   rev32 <shard> <nshards>            every 32-bit input of the shard: all 32-bit reversal overloads,
//                                      32-bit bitop functions (templates + generic fallbacks), int_algo
//   rev32s <shard> <nshards> <stride>  one pseudo-random input out of every <stride> consecutive ones
//   bytes [skipknown]                  all byte / 16-bit values in every lane; splitters over 8- and 16-bit
//                                      sources with all cut-width compositions
#include <csignal>
#include <unistd.h>
#include <sanitizer/common_interface_defs.h>

namespace {
    // ---- failing-case plumbing ------------------------------------------------------------------
    std::string g_x_prefix;
    std::vector<Op> g_x_ops;            // program in flight (bytes mode)
    volatile bool g_x_have32 = false;   // rev32 mode: g_x_cur is the input in flight
    volatile uint32_t g_x_cur = 0;
    bool g_x_written = false;

    Case make_case( std::vector<Op> const& ops )
    {
        Case c;
        c.harness = "pure_bits";
        c.prog.push_back( ops );
        return c;
    }
    std::vector<Op> ops_for32( int code, uint32_t x )
    {
        Op op;
        op.code = code;
        encode32( x, op.a, op.b );
        return std::vector<Op>{ op };
    }
    void write_failing( std::vector<Op> const& ops, std::string const& msg )
    {
        if ( g_x_written )
            return;
        g_x_written = true;
        write_file( g_x_prefix + ".failing.case", to_text( make_case( ops ), harness_schema()) + "# " + msg + "\n" );
    }
    // a sanitizer report or an assertion inside the library ends the process: leave a replayable case behind
    void on_death()
    {
        if ( g_x_written || g_x_prefix.empty())
            return;
        if ( g_x_have32 ) {
            std::vector<Op> ops = ops_for32( OP_REV32, g_x_cur );
            std::vector<Op> o2 = ops_for32( OP_BITOP32, g_x_cur );
            ops.push_back( o2[0] );
            Op ia;
            ia.code = OP_INTALGO;
            ia.a = int( g_x_cur & 0x7fffffffu );
            ia.b = int( g_x_cur >> 31 );
            if ( ia.a <= kArgMax )
                ops.push_back( ia );
            write_failing( ops, "process died (sanitizer report / assertion) while this input was evaluated" );
        }
        else if ( !g_x_ops.empty())
            write_failing( g_x_ops, "process died (sanitizer report / assertion) while this program was evaluated" );
    }
    void on_abort( int )
    {
        on_death();
        _exit( 134 );
    }

    // runs a program through the normal interpreter; on failure writes the case and returns false
    bool x_eval( RunStats& st, std::vector<Op> const& ops, uint64_t* hash_out = nullptr )
    {
        g_x_ops = ops;
        case_reset();
        pb::g_bad = false;
        bool nt = false;
        uint64_t h = 0;
        bool ok = eval_ops( ops.data(), ops.size(), nt, h, false );
        ++st.evaluations;
        if ( nt )
            ++st.nontrivial;
        if ( hash_out )
            *hash_out = h;
        if ( !ok ) {
            ++st.failc;
            write_failing( ops, fail_msg());
            fprintf( stderr, "FAIL %s\n%s", fail_msg().c_str(), to_text( make_case( ops ), harness_schema()).c_str());
            return false;
        }
        ++st.pass;
        return true;
    }

    // ---- fast references for the 2^32 sweep -----------------------------------------------------------
    // rev16/pop16 are filled from the naive loops; rev32(x) = rev16[lo] << 16 | rev16[hi]
    uint16_t g_rev16[65536];
    uint8_t g_pop16[65536];
    void init_tables()
    {
        for ( uint32_t i = 0; i < 65536; ++i ) {
            g_rev16[i] = uint16_t( ref_rev32( i ) >> 16 );
            g_pop16[i] = uint8_t( ref_sbc( i ));
        }
    }
    inline __attribute__(( always_inline )) void sweep_one( uint32_t x )
    {
        const uint32_t lo = x & 0xffff, hi = x >> 16;
        const uint32_t rev = ( uint32_t( g_rev16[lo] ) << 16 ) | g_rev16[hi];
        const int sbc = g_pop16[lo] + g_pop16[hi];
        int msb = 0, lsb = 0;
        if ( x ) {
            msb = 32;
            while ( !(( x >> ( msb - 1 )) & 1 ))
                --msb;
            lsb = 1;
            while ( !(( x >> ( lsb - 1 )) & 1 ))
                ++lsb;
        }
        check_all32( x, rev, msb, lsb, sbc, int(( x + ( x >> 16 ) + ( x >> 27 )) & 31 ));
    }
    // ties the fast references to the naive bit loops
    bool self_check( uint32_t x )
    {
        const uint32_t lo = x & 0xffff, hi = x >> 16;
        const uint32_t rev = ( uint32_t( g_rev16[lo] ) << 16 ) | g_rev16[hi];
        return rev == ref_rev32( x ) && g_pop16[lo] + g_pop16[hi] == ref_sbc( x );
    }

    int report32( RunStats& st, uint32_t x )
    {
        // find the op family that reproduces the failure through run_case
        std::string msg = fail_msg();
        fprintf( stderr, "FAIL at x=0x%08x: %s\n", x, msg.c_str());
        std::vector<std::vector<Op>> cands = { ops_for32( OP_REV32, x ), ops_for32( OP_BITOP32, x ) };
        Op ia;
        ia.code = OP_INTALGO;
        ia.a = int( x & 0x7fffffffu );
        ia.b = int( x >> 31 );
        if ( ia.a <= kArgMax )
            cands.push_back( std::vector<Op>{ ia } );
        for ( auto const& ops : cands ) {
            Verdict v = run_case( make_case( ops ));
            if ( v.kind == V_FAIL ) {
                write_failing( ops, v.msg );
                ++st.failc;
                return 1;
            }
        }
        // the complement bit index of the sweep differs from the one the op derives: keep all three ops
        std::vector<Op> all;
        for ( auto const& ops : cands )
            all.push_back( ops[0] );
        write_failing( all, msg + " (sweep only: not reproduced by the single ops)" );
        ++st.failc;
        return 1;
    }

    int extra_rev32( RunStats& st, unsigned shard, unsigned nshards, uint64_t stride )
    {
        if ( nshards == 0 || shard >= nshards || 65536 % nshards != 0 ) {
            fprintf( stderr, "rev32: nshards must divide 65536 and shard < nshards\n" );
            return 2;
        }
        init_tables();
        const uint32_t blk_lo = 65536 / nshards * shard, blk_hi = 65536 / nshards * ( shard + 1 );
        const uint64_t tag = hash_bytes( stride ? "rev32s" : "rev32", 5 );
        case_reset();
        pb::g_bad = false;
        g_x_have32 = true;
        uint64_t n = 0, triv = 0;
        for ( uint32_t blk = blk_lo; blk < blk_hi; ++blk ) {
            const uint32_t base = blk << 16;
            const uint32_t probes[4] = { base, base | 0xffff, base | ( blk * 2654435761u >> 16 ), base | (( blk * 40503u + 12345u ) & 0xffff ) };
            for ( uint32_t p : probes )
                if ( !self_check( p )) {
                    fprintf( stderr, "harness self-check failed: fast reference differs from the naive loop at 0x%08x\n", p );
                    return 2;
                }
            if ( stride == 0 ) {
                for ( uint32_t lo = 0; lo < 65536; ++lo ) {
                    const uint32_t x = base | lo;
                    g_x_cur = x;
                    sweep_one( x );
                    if ( __builtin_expect( pb::g_bad, 0 )) {
                        st.evaluations += n + lo + 1;
                        return report32( st, x );
                    }
                }
                n += 65536;
            }
            else {
                for ( uint64_t s0 = 0; s0 < 65536; s0 += stride ) {
                    uint64_t hs = ( uint64_t( blk ) << 20 ) ^ s0 ^ 0x51ed;
                    uint64_t span = stride < 65536 - s0 ? stride : 65536 - s0;
                    const uint32_t x = base | uint32_t( s0 + splitmix( hs ) % span );
                    g_x_cur = x;
                    sweep_one( x );
                    ++n;
                    if ( __builtin_expect( pb::g_bad, 0 )) {
                        st.evaluations += n;
                        return report32( st, x );
                    }
                }
            }
            if ( blk == 0 )
                ++triv;                 // x == 0
            if ( blk == 65535 )
                ++triv;                 // x == 0xffffffff
            st.nt_hashes.insert( hash_mix( hash_mix( tag, stride ), blk ));
        }
        g_x_have32 = false;
        if ( stride )
            triv = 0;                   // not tracked in sampling mode; the two trivial inputs are a null set
        st.evaluations += n;
        st.pass += n;
        st.nontrivial += n - triv;
        st.per_variant[0] += n;
        st.per_variant_nt[0] += n - triv;
        st.classes[stride ? "sweep32_sampled_inputs" : "sweep32_inputs"] += n;
        st.samples.push_back( to_text( make_case( ops_for32( OP_REV32, ( blk_lo << 16 ) | 0x1234 )), harness_schema()));
        st.samples.push_back( to_text( make_case( ops_for32( OP_BITOP32, (( blk_hi - 1 ) << 16 ) | 0xfedc )), harness_schema()));
        if ( stride == 0 ) {
            char buf[300];
            snprintf( buf, sizeof( buf ),
                "all 32-bit inputs 0x%08x..0x%08x (shard %u of %u of the full 2^32 domain): swar/lookup/muldiv/muldiv32/muldiv64 32-bit reversal + involution, "
                "bitop MSB/LSB/MSBnz/LSBnz/SBC/ZBC/RBO/complement(one bit) for uint32_t/int32_t and the generic fallbacks, beans::* on the value",
                blk_lo << 16, (( blk_hi - 1 ) << 16 ) | 0xffff, shard, nshards );
            st.exhaustive_domains.push_back( buf );
        }
        return 0;
    }

    // ---- bytes mode ---------------------------------------------------------------------------------
    Op mk( int code, int a, int b )
    {
        Op op;
        op.code = code;
        op.a = a;
        op.b = b;
        return op;
    }
    // value ops for a 64-bit value with at most 62 significant bits (lanes below bit 62) or via top register
    void push64( std::vector<Op>& ops, int code, uint64_t x )
    {
        unsigned top = unsigned( x >> 62 ) & 3;
        uint32_t lo = uint32_t( x & 0x7fffffffu ), mid = uint32_t(( x >> 31 ) & 0x7fffffffu );
        if ( lo == 0x7fffffffu ) {
            lo = 0;
            top |= 4;
        }
        if ( mid == 0x7fffffffu ) {
            mid = 0;
            top |= 8;
        }
        ops.push_back( mk( OP_TOP, int( top ), 0 ));
        ops.push_back( mk( code, int( lo ), int( mid )));
    }
    // source selector "direct value v" for the splitter ops (see make_image): kind + 8 * (1 + 4 * v)
    int src_direct( int kind, uint32_t v ) { return kind + 8 * int( 1 + 4 * v ); }
    int src_pattern( int kind, uint32_t pat ) { return kind + 8 * int( 4 * pat ); }

    int extra_bytes( RunStats& st, bool skipknown )
    {
        std::vector<Op> ops;
        uint64_t h = 0;
        auto run = [&]( bool hash ) -> bool {
            bool ok = x_eval( st, ops, &h );
            if ( ok && hash )
                st.nt_hashes.insert( h );
            return ok;
        };
        // 1. byte helpers: every byte value in every lane
        for ( unsigned v = 0; v < 256; ++v ) {
            uint8_t want = ref_rev8( uint8_t( v ));
            case_reset();
            PB_EXPECT( "bit_reversal::muldiv::muldiv32_byte", v, br::muldiv::muldiv32_byte( uint8_t( v )), want );
            PB_EXPECT( "bit_reversal::muldiv::muldiv64_byte", v, br::muldiv::muldiv64_byte( uint8_t( v )), want );
            ++st.evaluations;
            if ( failed()) {
                // reproduce through the lookup-free 32-bit op (muldiv uses the byte helper for every lane)
                write_failing( ops_for32( OP_REV32, v ), fail_msg());
                ++st.failc;
                return 1;
            }
            ++st.pass;
            for ( unsigned lane = 0; lane < 4; ++lane ) {
                uint32_t x = uint32_t( v ) << ( 8 * lane );
                ops = ops_for32( OP_REV32, x );
                ops.push_back( ops_for32( OP_BITOP32, x )[0] );
                if ( !run( lane == 0 ))
                    return 1;
            }
            for ( unsigned lane = 0; lane < 8; ++lane ) {
                uint64_t x = uint64_t( v ) << ( 8 * lane );
                ops.clear();
                push64( ops, OP_REV64, x );
                push64( ops, OP_BITOP64, x );
                push64( ops, OP_INTALGO, x );
                if ( !run( false ))
                    return 1;
            }
        }
        st.exhaustive_domains.push_back( "all 256 byte values: muldiv32_byte/muldiv64_byte, and in every byte lane of 32- and 64-bit words for all reversal overloads (lookup table), bitop and beans helpers" );
        // 2. 16-bit values in every 16-bit lane
        for ( unsigned v = 0; v < 65536; ++v ) {
            for ( unsigned lane = 0; lane < 2; ++lane ) {
                uint32_t x = uint32_t( v ) << ( 16 * lane );
                ops = ops_for32( OP_REV32, x );
                ops.push_back( ops_for32( OP_BITOP32, x )[0] );
                if ( !run(( v & 255 ) == 1 && lane == 0 ))
                    return 1;
            }
            for ( unsigned lane = 0; lane < 4; ++lane ) {
                uint64_t x = uint64_t( v ) << ( 16 * lane );
                ops.clear();
                push64( ops, OP_REV64, x );
                push64( ops, OP_BITOP64, x );
                push64( ops, OP_INTALGO, x );
                if ( !run( false ))
                    return 1;
            }
        }
        st.exhaustive_domains.push_back( "all 65536 16-bit values in every 16-bit lane of 32- and 64-bit words: reversal overloads, bitop (templates + generic), beans helpers" );
        // 3. splitters over 8-bit sources: all values x all compositions of 8 (cut and safe_cut flavours)
        for ( unsigned v = 0; v < 256; ++v )
            for ( unsigned mask = 0; mask < 128; ++mask )
                for ( int act = 0; act < 2; ++act ) {
                    std::vector<Op> ws;
                    unsigned len = 1;
                    for ( unsigned i = 0; i < 7; ++i ) {
                        if (( mask >> i ) & 1 ) {
                            ws.push_back( mk( OP_W, int( len ), act ));
                            len = 1;
                        }
                        else
                            ++len;
                    }
                    ws.push_back( mk( OP_W, int( len ), act ));
                    for ( int uk = 0; uk < 3; ++uk ) {
                        ops = ws;
                        ops.push_back( mk( OP_BITSPLIT, src_direct( 0, v ), uk << 3 ));
                        if ( !run( mask == 5 && uk == 0 && act == 0 ))
                            return 1;
                    }
                    ops = ws;   // number_splitter<uint8_t>: parts of 8 bits are not is_correct() and get clipped to 7
                    ops.push_back( mk( OP_NUMSPLIT, src_direct( 0, v ), 0 ));
                    if ( !run( false ))
                        return 1;
                }
        for ( unsigned v = 0; v < 256; ++v ) {
            ops = { mk( OP_W, 8, 0 ), mk( OP_BYTESPLIT, src_direct( 0, v ), 0 ) };
            if ( !run( false ))
                return 1;
            ops = { mk( OP_W, 0, 1 ), mk( OP_W, 0, 0 ), mk( OP_W, 8, 0 ), mk( OP_W, 8, 1 ), mk( OP_BYTESPLIT, src_direct( 0, v ), 8 ) };
            if ( !run( false ))
                return 1;
        }
        st.exhaustive_domains.push_back( "8-bit sources: all 256 values x all 128 cut-width compositions of 8 (cut and safe_cut) for split_bitstring (3 result types) and number_splitter<uint8_t>; byte_splitter cut(8)" );
        // 4. 16-bit sources: all values x uniform widths and two-cut sequences
        for ( unsigned v = 0; v < 65536; ++v ) {
            for ( unsigned w = 1; w <= 16; ++w ) {
                std::vector<Op> ws;
                for ( unsigned done = 0; done < 16; done += w )
                    ws.push_back( mk( OP_W, int( w ), ( v + w ) & 1 ));
                ops = ws;
                ops.push_back( mk( OP_BITSPLIT, src_direct( 1, v ), 0 ));
                if ( !run(( v & 1023 ) == 7 && w == 3 ))
                    return 1;
                ops = ws;
                ops.push_back( mk( OP_NUMSPLIT, src_direct(( v & 1 ) ? 1 : 4, v ), 0 ));    // uint16_t / short
                if ( !run( false ))
                    return 1;
            }
            for ( unsigned w = 1; w < 16; ++w ) {
                ops = { mk( OP_W, int( w ), 0 ), mk( OP_W, int( 16 - w ), 0 ), mk( OP_BITSPLIT, src_direct( 1, v ), ( v & 1 ) << 3 ) };
                if ( !run( false ))
                    return 1;
                ops = { mk( OP_W, int( w ), 0 ), mk( OP_W, int( 16 - w ), 1 ), mk( OP_NUMSPLIT, src_direct(( v & 1 ) ? 4 : 1, v ), 0 ) };
                if ( !run( false ))
                    return 1;
            }
            ops = { mk( OP_W, 8, 0 ), mk( OP_W, 8, 0 ), mk( OP_BYTESPLIT, src_direct( 1, v ), 0 ) };
            if ( !run( false ))
                return 1;
            ops = { mk( OP_W, 16, 0 ), mk( OP_BYTESPLIT, src_direct( 1, v ), 8 ) };
            if ( !run( false ))
                return 1;
        }
        // all compositions of 16 over structured sources
        for ( unsigned mask = 0; mask < 32768; ++mask ) {
            std::vector<Op> ws;
            unsigned len = 1;
            for ( unsigned i = 0; i < 15; ++i ) {
                if (( mask >> i ) & 1 ) {
                    ws.push_back( mk( OP_W, int( len ), int(( mask >> 3 ) & 1 )));
                    len = 1;
                }
                else
                    ++len;
            }
            ws.push_back( mk( OP_W, int( len ), 0 ));
            for ( unsigned pat = 0; pat < 8; ++pat ) {
                ops = ws;
                ops.push_back( mk( OP_BITSPLIT, src_pattern( 1, pat + 8 * ( mask % 16 )), int(( mask & 3 ) << 3 )));
                if ( !run(( mask & 255 ) == 9 && pat == 2 ))
                    return 1;
                ops = ws;
                ops.push_back( mk( OP_NUMSPLIT, src_pattern(( mask & 1 ) ? 1 : 4, pat + 8 * ( mask % 16 )), 0 ));
                if ( !run( false ))
                    return 1;
            }
        }
        st.exhaustive_domains.push_back( "16-bit sources: all 65536 values x (uniform widths 1..16, all two-cut sequences) for split_bitstring, number_splitter<uint16_t/short>, byte_splitter; all 32768 cut-width compositions of 16 x 8 structured sources" );
        // 5. known-defect shape last: byte_splitter::safe_cut asking for at least the remaining bits
        if ( !skipknown ) {
            for ( unsigned v = 0; v < 256; ++v ) {
                ops = { mk( OP_W, 8, 1 ), mk( OP_BYTESPLIT_TAIL, src_direct( 0, v ), 0 ) };
                if ( !run( false ))
                    return 1;
            }
            for ( unsigned v = 0; v < 65536; ++v ) {
                ops = { mk( OP_W, 8, ( v >> 3 ) & 1 ), mk( OP_W, ( v & 1 ) ? 16 : 8, 1 ), mk( OP_BYTESPLIT_TAIL, src_direct( 1, v ), int(( v & 2 ) << 2 )) };
                if ( !run( false ))
                    return 1;
                ops = { mk( OP_W, 16, 1 ), mk( OP_BYTESPLIT_TAIL, src_direct( 1, v ), 8 ) };
                if ( !run( false ))
                    return 1;
            }
            st.exhaustive_domains.push_back( "byte_splitter::safe_cut reaching the end of 8- and 16-bit sources: all source values" );
        }
        st.per_variant[0] += st.evaluations;
        st.per_variant_nt[0] += st.nontrivial;
        st.samples.push_back( to_text( make_case( ops ), harness_schema()));
        return 0;
    }
}

namespace cdsverif {
    int harness_extra( int argc, char** argv, RunStats& stats )
    {
        g_x_prefix = stats.prefix;
        __sanitizer_set_death_callback( on_death );
        signal( SIGABRT, on_abort );
        std::string mode = argc > 0 ? argv[0] : "";
        if (( mode == "rev32" && argc >= 3 ) || ( mode == "rev32s" && argc >= 4 )) {
            unsigned shard = unsigned( atoi( argv[1] )), nshards = unsigned( atoi( argv[2] ));
            uint64_t stride = mode == "rev32s" ? uint64_t( atoll( argv[3] )) : 0;
            if ( mode == "rev32s" && ( stride < 2 || stride > 65536 )) {
                fprintf( stderr, "rev32s: stride must be in 2..65536\n" );
                return 2;
            }
            return extra_rev32( stats, shard, nshards, stride );
        }
        if ( mode == "bytes" )
            return extra_bytes( stats, argc > 1 && std::string( argv[1] ) == "skipknown" );
        fprintf( stderr, "usage: --extra rev32 <shard> <nshards> | rev32s <shard> <nshards> <stride> | bytes [skipknown]\n" );
        return 2;
    }
}
