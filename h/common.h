// Helpers shared by harness TUs (these include /repo headers).
#ifndef CDSVERIF_H_COMMON_H
#define CDSVERIF_H_COMMON_H

#include <cstdint>
#include <cstring>
#include <functional>
#include <memory>
#include <sstream>
#include <string>
#include <vector>

#include <cds/init.h>
#include <cds/threading/model.h>
#include <cds/gc/hp.h>
#include <cds/gc/dhp.h>

#include <sanitizer/asan_interface.h>

#include "case.h"
#include "lin.h"
#include "vsched.h"

namespace hv {
    using namespace cdsverif;

    inline void lib_init()
    {
        static bool done = false;
        if ( !done ) {
            cds::Initialize();
            done = true;
        }
    }

    // Per-case registry of tracked objects (reclamation oracle, DESIGN.md 3.2)
    struct Registry {
        struct Rec {
            int disposed = 0;
            bool retired = false;
            bool dropped = false;     // never handed to the container: expected dispose count 0
        };
        std::vector<Rec> recs;
        int add()
        {
            recs.emplace_back();
            return int( recs.size()) - 1;
        }
        void reset() { recs.clear(); }
        void drop( int id ) { recs[size_t( id )].dropped = true; }
        void on_dispose( int id, const char* what = "object" )
        {
            if ( id < 0 || size_t( id ) >= recs.size()) {
                fail( std::string( what ) + " with unknown id disposed" );
                return;
            }
            if ( recs[size_t( id )].disposed++ )
                fail( std::string( what ) + " #" + std::to_string( id ) + " disposed twice" );
        }
        bool disposed( int id ) const { return recs[size_t( id )].disposed > 0; }
        size_t count_disposed() const
        {
            size_t n = 0;
            for ( auto const& r : recs )
                if ( r.disposed )
                    ++n;
            return n;
        }
    };
    Registry& registry();

    // Disposed intrusive objects are not freed at once when clients may legally still read
    // their payload (e.g. intrusive MSQueue::dequeue returns an unguarded pointer): the
    // hook part is ASan-poisoned so that any later access by libcds itself is reported,
    // the payload stays readable, and the memory is released at the end of the case.
    struct Graveyard {
        struct Ent {
            void* p;
            void (*del)( void* );
            void* poison;
            size_t n;
        };
        std::vector<Ent> ents;
        template <typename T>
        void bury( T* obj, void* hook, size_t hook_size )
        {
            size_t n = hook_size & ~size_t( 7 );
            if ( n )
                __asan_poison_memory_region( hook, n );
            ents.push_back( Ent{ obj, []( void* q ) { delete static_cast<T*>( q ); }, hook, n } );
        }
        void release()
        {
            for ( Ent& e : ents ) {
                if ( e.n )
                    __asan_unpoison_memory_region( e.poison, e.n );
                e.del( e.p );
            }
            ents.clear();
        }
    };
    Graveyard& graveyard();

    // attach the calling thread to libcds for the lifetime of the object
    struct Attach {
        Attach()
        {
            cdsverif::gap_freeze f;
            cds::threading::Manager::attachThread();
        }
        ~Attach()
        {
            cdsverif::gap_freeze f;
            cds::threading::Manager::detachThread();
        }
    };

    // SMR singletons constructed and destroyed inside every case
    struct HpSingleton {
        explicit HpSingleton( size_t hazards = 0, size_t threads = 0, size_t retired = 0, bool classic = false )
        {
            cds::gc::hp::smr::construct( hazards, threads, retired, classic ? cds::gc::hp::details::classic : cds::gc::hp::details::inplace );
        }
        ~HpSingleton() { cds::gc::hp::smr::destruct( true ); }
    };
    struct DhpSingleton {
        explicit DhpSingleton( size_t initial = 16 ) { cds::gc::dhp::smr::construct( initial ); }
        ~DhpSingleton() { cds::gc::dhp::smr::destruct( true ); }
    };

    // fill the common parts of a verdict at the end of a case
    inline Verdict finish( SchedStats const& st, uint64_t hist_hash, bool nontrivial )
    {
        Verdict v;
        v.sched = st;
        v.classes = case_classes();
        v.trace_hash = hash_mix( hist_hash, st.trace_hash );
        v.nontrivial = nontrivial;
        if ( failed()) {
            v.kind = V_FAIL;
            v.msg = fail_msg();
        }
        return v;
    }

    template <typename T>
    inline T cfg_at( Case const& c, size_t i, T dflt )
    {
        return i < c.cfg.size() ? T( c.cfg[i] ) : dflt;
    }

    // case-seeded deterministic generator for in-library randomness
    struct CaseRng {
        static uint64_t& state()
        {
            static uint64_t s = 1;
            return s;
        }
        static void seed( uint64_t s ) { state() = s * 2 + 1; }
        static uint32_t next()
        {
            uint64_t& z = state();
            z = z * 6364136223846793005ull + 1442695040888963407ull;
            return uint32_t( z >> 33 );
        }
    };
} // namespace hv

#endif
