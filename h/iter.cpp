// C19: thread-safe iterators stay valid and complete under concurrent updates.
//   IterableList (container HP/DHP, intrusive HP/DHP), MichaelHashSet<IterableList>, SplitListSet<iterable_list_tag>,
//   FeldmanHashSet (HP/DHP forward + reverse, RCU under one rcu_lock section), FeldmanHashMap (HP).
// Worker 0 is the iterating thread (every op of its list is one complete `for ( it = begin; it != end; ++it )`
// pass with pauses / erase_at(it) selected by the op's a,b), workers 1.. are updaters on keys 0..7.
// Oracle: (a) the element an iterator is positioned on keeps its canary/key/tag until the iterator moves,
// (b) every key that was present and untouched for the whole pass is yielded (exactly once [+ ordered] /
// at least once), yielded objects were really inserted and not removed before the iterator advanced to them,
// (c) erase_at(it) is an "erase exactly this object" transition of the linearizable set history.
#include "common.h"

#include <cds/container/iterable_list_hp.h>
#include <cds/container/iterable_list_dhp.h>
#include <cds/intrusive/iterable_list_hp.h>
#include <cds/intrusive/iterable_list_dhp.h>
#include <cds/container/michael_set.h>
#include <cds/container/split_list_set.h>
#include <cds/container/feldman_hashset_hp.h>
#include <cds/container/feldman_hashset_dhp.h>
#include <cds/container/feldman_hashmap_hp.h>
#include <cds/urcu/general_buffered.h>
#include <cds/urcu/general_instant.h>
#include <cds/container/feldman_hashset_rcu.h>

#include <map>
#include <set>

namespace hv {
    Registry& registry()
    {
        static Registry r;
        return r;
    }
    Graveyard& graveyard()
    {
        static Graveyard g;
        return g;
    }
}

using namespace hv;
namespace cc = cds::container;
namespace ci = cds::intrusive;

namespace {
    typedef cds::gc::HP HP;
    typedef cds::gc::DHP DHP;
    typedef cds::urcu::gc<cds::urcu::general_buffered<>> RCU_GPB;
    typedef cds::urcu::gc<cds::urcu::general_instant<>> RCU_GPI;

    const int kMaxKey = 7;
    const uint64_t kCanary = 0xabcdef;
    const uint64_t kDead = 0xdead;

    const char* const kModelNames[] = { "insert", "erase", "find", "update", "update_noins", "upsert", "upsert_noins", "extract_min", "extract_max",
        "size_empty", "erase_at", "clear" };

    // ---- 1-byte hashes for the Feldman variants ---------------------------------------------
    // head array = 16 slots (low 4 bits), array nodes = 4 slots (2 bits): head_bits/array_bits are clamped to 4/2
    int g_hash_mode = 0;
    inline uint8_t hash_of( int k )
    {
        unsigned u = unsigned( k ) & 7u;
        switch ( g_hash_mode & 3 ) {
        case 0:     // every key in head slot 5; level 2 slot = k & 3, level 3 slot = k >> 2
            return uint8_t(( u << 4 ) | 0x5u );
        case 1:     // two head slots, four keys each, distinct level 2 slots
            return uint8_t((( u >> 1 ) << 4 ) | (( u & 1 ) ? 0xAu : 0x3u ));
        case 2:     // one head slot; level 2 slot = k >> 2 (four keys collide), level 3 slot = k & 3
            return uint8_t((( u & 3 ) << 6 ) | (( u >> 2 ) << 4 ) | 0x9u );
        default:    // first and last head slot: keys 0..3 split once under slot 15, keys 4..7 split twice under slot 0
            return u < 4 ? uint8_t(( u << 4 ) | 0xFu ) : uint8_t((( u - 4 ) << 6 ) | 0x0u );
        }
    }

    // ---- payload --------------------------------------------------------------------------------
    int& pend_key()
    {
        static thread_local int k = -1;
        return k;
    }
    int& pend_tag()
    {
        static thread_local int t = -1;
        return t;
    }

    struct Item {
        int key;
        int tag;
        uint64_t canary;
        uint8_t hash;
        Item() : key( pend_key()), tag( pend_tag()), canary( kCanary ), hash( hash_of( pend_key())) {}      // FeldmanHashMap::update() default-constructs the mapped value
        Item( int k, int t ) : key( k ), tag( t ), canary( kCanary ), hash( hash_of( k )) {}
        Item( Item const& s ) : key( s.key ), tag( s.tag ), canary( s.canary ), hash( s.hash ) {}
        Item& operator=( Item const& ) = delete;
        ~Item() { *const_cast<volatile uint64_t*>( &canary ) = kDead; }     // a stale read is visible even without ASan
    };
    struct ItemCmp {
        int operator()( Item const& a, Item const& b ) const { return a.key < b.key ? -1 : a.key > b.key ? 1 : 0; }
        int operator()( Item const& a, int b ) const { return a.key < b ? -1 : a.key > b ? 1 : 0; }
        int operator()( int a, Item const& b ) const { return a < b.key ? -1 : a > b.key ? 1 : 0; }
        int operator()( int a, int b ) const { return a < b ? -1 : a > b ? 1 : 0; }
    };
    struct ItemLess {
        bool operator()( Item const& a, Item const& b ) const { return a.key < b.key; }
        bool operator()( Item const& a, int b ) const { return a.key < b; }
        bool operator()( int a, Item const& b ) const { return a < b.key; }
        bool operator()( int a, int b ) const { return a < b; }
    };
    struct KeyHash {
        size_t operator()( int k ) const { return size_t( k ); }
        size_t operator()( Item const& i ) const { return size_t( i.key ); }
    };
    struct ItemHashAccessor {
        uint8_t const& operator()( Item const& i ) const { return i.hash; }
    };
    struct Hash8 {
        uint8_t operator()( int k ) const { return hash_of( k ); }
    };

    // intrusive IterableList payload (the list needs no hook)
    struct IItem {
        int id;
        int key;
        int tag;
        uint64_t canary;
    };
    struct IItemCmp {
        int operator()( IItem const& a, IItem const& b ) const { return a.key < b.key ? -1 : a.key > b.key ? 1 : 0; }
        int operator()( IItem const& a, int b ) const { return a.key < b ? -1 : a.key > b ? 1 : 0; }
        int operator()( int a, IItem const& b ) const { return a < b.key ? -1 : a > b.key ? 1 : 0; }
    };
    struct IItemDisposer {
        void operator()( IItem* p ) const
        {
            registry().on_dispose( p->id, "intrusive IterableList item" );
            *const_cast<volatile uint64_t*>( &p->canary ) = kDead;
            delete p;
        }
    };

    // ---- what the client saw ----------------------------------------------------------------------
    struct Res {
        int r = 0;          // bool ops 0/1; upsert 0 (false,false) / 1 replaced / 2 inserted
        int tag = -1;       // tag of the object removed / replaced / found, -1 = not exposed
    };

    enum Kind { K_LIST, K_HASH, K_FELDMAN };
    enum GcK { G_HP, G_DHP, G_GPB, G_GPI };
    enum DirPol { D_FWD, D_REV, D_MIX };

    template <typename GC> struct gc_info;
    template <> struct gc_info<HP> {
        static constexpr GcK k = G_HP;
        static void scan() { HP::scan(); }
    };
    template <> struct gc_info<DHP> {
        static constexpr GcK k = G_DHP;
        static void scan() { DHP::scan(); }
    };
    template <> struct gc_info<RCU_GPB> {
        static constexpr GcK k = G_GPB;
        static void scan() { RCU_GPB::synchronize(); }
    };
    template <> struct gc_info<RCU_GPI> {
        static constexpr GcK k = G_GPI;
        static void scan() { RCU_GPI::synchronize(); }
    };

    // ---- one pass of the iterating thread ---------------------------------------------------------
    struct Yield {
        int key;
        int tag;
        uint64_t tprev;     // clock just before the begin()/++ that moved the iterator here
        uint64_t ty;        // clock just after it
    };
    struct Pass {
        uint64_t t0 = 0, t1 = 0;
        bool rev = false;
        bool done = false;
        uint64_t expand0 = 0, expand1 = 0;
        std::vector<Yield> ys;
    };

    struct PassRun {
        History& hist;
        int hthread;
        Pass& rec;
        int pauses = 0;         // point() calls while positioned
        bool yield_pause = false;
        int erase_sel = 0;      // 0..3 never, 4 every element, 5 odd positions, 6 even positions, 7 every third
        bool scan = false;
        void (*scan_fn)() = nullptr;

        PassRun( History& h, int t, Pass& p ) : hist( h ), hthread( t ), rec( p ) {}

        template <typename P>
        bool still_valid( P const* p, int key, int tag, const char* when )
        {
            uint64_t cn = p->canary;
            if ( cn != kCanary ) {
                std::ostringstream o;
                o << "[iter-disposed] the element the iterator is positioned on (key " << key << " tag " << tag << ") has canary 0x" << std::hex << cn << std::dec
                  << " " << when << ": it was disposed while current";
                fail( o.str());
                return false;
            }
            if ( p->key != key || p->tag != tag ) {
                fail( "[iter-changed] the element the iterator is positioned on changed from (key " + std::to_string( key ) + ", tag " + std::to_string( tag ) + ") to (key "
                    + std::to_string( p->key ) + ", tag " + std::to_string( p->tag ) + ") " + when );
                return false;
            }
            return true;
        }

        bool erase_here( unsigned n ) const
        {
            switch ( erase_sel ) {
            case 4: return true;
            case 5: return n % 2 == 1;
            case 6: return n % 2 == 0;
            case 7: return n % 3 == 0;
            default: return false;
            }
        }

        // b(): begin iterator, e(): end iterator, d(it): pointer to the payload, x(it): erase_at -> 0/1
        template <typename B, typename E, typename D, typename X>
        void run( B b, E e, D d, X x, bool can_erase )
        {
            uint64_t tprev = tick();
            rec.t0 = tprev;
            {
                auto it = b();
                unsigned n = 0;
                bool ok = true;
                for ( ;; ) {
                    if ( !( it != e()))
                        break;
                    auto const* p = d( it );
                    uint64_t ty = tick();
                    if ( !p ) {
                        fail( "[iter-null] iterator differs from end() but dereferences to a null pointer" );
                        ok = false;
                        break;
                    }
                    uint64_t cn = p->canary;
                    if ( cn != kCanary ) {
                        std::ostringstream o;
                        o << "[iter-disposed] iterator yielded an element whose canary is 0x" << std::hex << cn << std::dec << " (disposed object)";
                        fail( o.str());
                        ok = false;
                        break;
                    }
                    int key = p->key, tag = p->tag;
                    rec.ys.push_back( Yield{ key, tag, tprev, ty } );
                    if ( yield_pause ) {
                        cdsverif::yield_point();
                        ok = still_valid( p, key, tag, "after a pause" );
                    }
                    for ( int i = 0; ok && i < pauses; ++i ) {
                        cdsverif::point();
                        ok = still_valid( p, key, tag, "after a pause" );
                    }
                    if ( ok && can_erase && erase_here( n )) {
                        size_t ev = hist.begin( hthread, M_ERASE_TAG, key, tag );
                        int r = x( it );
                        hist.end( ev, r );
                        note_class( r ? "erase_at_true" : "erase_at_false" );
                        // the iterator stays valid and keeps protecting the element it points to
                        if ( scan && scan_fn )
                            scan_fn();
                        cdsverif::point();
                        ok = still_valid( p, key, tag, "after erase_at(it) while the iterator still points to it" );
                    }
                    if ( ok )
                        ok = still_valid( p, key, tag, "just before ++it" );
                    if ( !ok )
                        break;
                    tprev = tick();
                    ++it;
                    if ( ++n >= 200 ) {
                        fail( "[iter-endless] iteration yielded 200 elements over an 8-key container" );
                        ok = false;
                        break;
                    }
                }
                rec.done = ok;
            }   // iterator destroyed
            rec.t1 = tick();
        }
    };

    // ---- adapters -------------------------------------------------------------------------------------
    // container::IterableList / MichaelHashSet<IterableList> / SplitListSet<iterable_list_tag> share one API:
    //   insert(val) update(val, f(Item& val, Item* old), bInsert) upsert(val, bInsert) erase(key, f(Item const&))
    //   extract(key) find(key, f(Item&, Q const&)) begin() end() erase_at(iterator)
    template <typename Set, Kind K, Set* (*Mk)( Case const& )>
    struct SetAdapter {
        typedef typename Set::gc GC;
        static constexpr Kind kind = K;
        static constexpr bool has_erase_at = true;
        static constexpr bool intrusive = false;
        static constexpr size_t hazards = Set::c_nHazardPtrCount;
        std::unique_ptr<Set> s;

        explicit SetAdapter( Case const& c ) : s( Mk( c )) {}

        Res insert( int key, int tag )
        {
            Res r;
            r.r = s->insert( Item( key, tag )) ? 1 : 0;
            return r;
        }
        Res upsert( int key, int tag, bool allow )
        {
            Res r;
            std::pair<bool, bool> p;
            if (( tag & 3 ) == 3 )
                p = s->upsert( Item( key, tag ), allow );
            else
                p = s->update( Item( key, tag ), [&]( Item& val, Item* old ) {
                    if ( val.tag != tag )
                        fail( "update(): the functor's first argument is not the object built from the argument" );
                    if ( old ) {
                        r.tag = old->tag;
                        if ( old->canary != kCanary || old->key != key )
                            fail( "update(): the replaced object handed to the functor is damaged or has another key" );
                    }
                }, allow );
            r.r = !p.first ? 0 : p.second ? 2 : 1;
            if ( r.r != 1 )
                r.tag = -1;
            return r;
        }
        Res erase( int key )
        {
            Res r;
            r.r = s->erase( key, [&]( Item const& i ) { r.tag = i.tag; } ) ? 1 : 0;
            return r;
        }
        Res extract( int key )
        {
            Res r;
            typename Set::guarded_ptr gp( s->extract( key ));
            if ( gp ) {
                r.r = 1;
                r.tag = gp->tag;
                cdsverif::point();
                if ( gp->canary != kCanary || gp->key != key )
                    fail( "extract(): the guarded item is damaged or has another key" );
            }
            return r;
        }
        Res find( int key )
        {
            Res r;
            int k = key;
            r.r = s->find( k, [&]( Item& i, int const& ) { r.tag = i.tag; } ) ? 1 : 0;
            return r;
        }
        uint64_t expands() const { return 0; }
        void iterate( bool, PassRun& pr )
        {
            pr.run( [&]() { return s->begin(); }, [&]() { return s->end(); }, []( typename Set::iterator& it ) -> Item const* { return &*it; },
                [&]( typename Set::iterator& it ) { return s->erase_at( it ) ? 1 : 0; }, true );
        }
    };

    // intrusive::IterableList<GC, IItem>
    template <typename List>
    struct IntrusiveListAdapter {
        typedef typename List::gc GC;
        static constexpr Kind kind = K_LIST;
        static constexpr bool has_erase_at = true;
        static constexpr bool intrusive = true;
        static constexpr size_t hazards = List::c_nHazardPtrCount;
        List l;

        explicit IntrusiveListAdapter( Case const& ) {}

        static IItem* make( int key, int tag )
        {
            IItem* p = new IItem;
            p->id = registry().add();
            p->key = key;
            p->tag = tag;
            p->canary = kCanary;
            return p;
        }
        static void drop( IItem* p )
        {
            registry().drop( p->id );
            delete p;
        }
        Res insert( int key, int tag )
        {
            Res r;
            IItem* p = make( key, tag );
            r.r = l.insert( *p ) ? 1 : 0;
            if ( !r.r )
                drop( p );
            return r;
        }
        Res upsert( int key, int tag, bool allow )
        {
            Res r;
            IItem* p = make( key, tag );
            std::pair<bool, bool> res;
            if (( tag & 3 ) == 3 )
                res = l.upsert( *p, allow );
            else
                res = l.update( *p, [&]( IItem& val, IItem* old ) {
                    if ( &val != p )
                        fail( "intrusive update(): the functor's first argument is not the argument object" );
                    if ( old ) {
                        r.tag = old->tag;
                        if ( old->canary != kCanary || old->key != key )
                            fail( "intrusive update(): the replaced object handed to the functor is damaged or has another key" );
                    }
                }, allow );
            r.r = !res.first ? 0 : res.second ? 2 : 1;
            if ( !res.first )
                drop( p );
            if ( r.r != 1 )
                r.tag = -1;
            return r;
        }
        Res erase( int key )
        {
            Res r;
            r.r = l.erase( key, [&]( IItem const& i ) { r.tag = i.tag; } ) ? 1 : 0;
            return r;
        }
        Res extract( int key )
        {
            Res r;
            typename List::guarded_ptr gp( l.extract( key ));
            if ( gp ) {
                r.r = 1;
                r.tag = gp->tag;
                cdsverif::point();
                if ( gp->canary != kCanary || gp->key != key )
                    fail( "intrusive extract(): the guarded item is damaged or has another key" );
            }
            return r;
        }
        Res find( int key )
        {
            Res r;
            int k = key;
            r.r = l.find( k, [&]( IItem& i, int const& ) { r.tag = i.tag; } ) ? 1 : 0;
            return r;
        }
        uint64_t expands() const { return 0; }
        void iterate( bool, PassRun& pr )
        {
            pr.run( [&]() { return l.begin(); }, [&]() { return l.end(); }, []( typename List::iterator& it ) -> IItem const* { return &*it; },
                [&]( typename List::iterator& it ) { return l.erase_at( it ) ? 1 : 0; }, true );
        }
    };

    // container::FeldmanHashSet<GC, Item>: keys are 1-byte hashes; update(val, f(Item&, Item* old), bInsert) replaces the object
    template <typename Set, DirPol Dir, bool Rcu>
    struct FeldmanSetAdapter {
        typedef typename Set::gc GC;
        static constexpr Kind kind = K_FELDMAN;
        static constexpr bool has_erase_at = !Rcu;
        static constexpr bool intrusive = false;
        static constexpr size_t hazards = 2;
        Set s;

        explicit FeldmanSetAdapter( Case const& ) : s( 2, 2 ) {}       // clamped by the library to head_bits 4, array_bits 2

        Res insert( int key, int tag )
        {
            Res r;
            r.r = s.insert( Item( key, tag )) ? 1 : 0;
            return r;
        }
        Res upsert( int key, int tag, bool allow )
        {
            Res r;
            std::pair<bool, bool> p = s.update( Item( key, tag ), [&]( Item& val, Item* old ) {
                if ( val.tag != tag )
                    fail( "FeldmanHashSet::update(): the functor's first argument is not the object built from the argument" );
                if ( old ) {
                    r.tag = old->tag;
                    if ( old->canary != kCanary || old->key != key )
                        fail( "FeldmanHashSet::update(): the replaced object handed to the functor is damaged or has another key" );
                }
            }, allow );
            r.r = !p.first ? 0 : p.second ? 2 : 1;
            if ( r.r != 1 )
                r.tag = -1;
            return r;
        }
        Res erase( int key )
        {
            Res r;
            uint8_t h = hash_of( key );
            r.r = s.erase( h, [&]( Item const& i ) { r.tag = i.tag; } ) ? 1 : 0;
            return r;
        }
        template <bool R = Rcu>
        typename std::enable_if<!R, Res>::type extract( int key )
        {
            Res r;
            uint8_t h = hash_of( key );
            typename Set::guarded_ptr gp( s.extract( h ));
            if ( gp ) {
                r.r = 1;
                r.tag = gp->tag;
                cdsverif::point();
                if ( gp->canary != kCanary || gp->key != key )
                    fail( "FeldmanHashSet::extract(): the guarded item is damaged or has another key" );
            }
            return r;
        }
        template <bool R = Rcu>
        typename std::enable_if<R, Res>::type extract( int key )
        {
            Res r;
            uint8_t h = hash_of( key );
            typename Set::exempt_ptr xp( s.extract( h ));       // RCU must not be locked by the caller
            if ( xp ) {
                r.r = 1;
                r.tag = xp->tag;
                cdsverif::point();
                if ( xp->canary != kCanary || xp->key != key )
                    fail( "FeldmanHashSet<RCU>::extract(): the exempt item is damaged or has another key" );
            }
            return r;       // ~exempt_ptr retires the item outside any RCU lock
        }
        Res find( int key )
        {
            Res r;
            uint8_t h = hash_of( key );
            r.r = s.find( h, [&]( Item& i ) { r.tag = i.tag; } ) ? 1 : 0;
            return r;
        }
        uint64_t expands() const { return uint64_t( s.statistics().m_nExpandNodeSuccess.get()); }

        template <bool R = Rcu>
        typename std::enable_if<!R>::type iterate( bool rev_req, PassRun& pr )
        {
            bool rev = Dir == D_REV || ( Dir == D_MIX && rev_req );
            pr.rec.rev = rev;
            if ( rev )
                pr.run( [&]() { return s.rbegin(); }, [&]() { return s.rend(); }, []( typename Set::reverse_iterator& it ) -> Item const* { return &*it; },
                    [&]( typename Set::reverse_iterator& it ) { return s.erase_at( it ) ? 1 : 0; }, true );
            else
                pr.run( [&]() { return s.begin(); }, [&]() { return s.end(); }, []( typename Set::iterator& it ) -> Item const* { return &*it; },
                    [&]( typename Set::iterator& it ) { return s.erase_at( it ) ? 1 : 0; }, true );
        }
        template <bool R = Rcu>
        typename std::enable_if<R>::type iterate( bool rev_req, PassRun& pr )
        {
            bool rev = Dir == D_REV || ( Dir == D_MIX && rev_req );
            pr.rec.rev = rev;
            // documented usage: the whole traversal inside one explicit RCU read-side section, no erasing by the iterating thread
            typename Set::rcu_lock lock;
            if ( rev )
                pr.run( [&]() { return s.rbegin(); }, [&]() { return s.rend(); }, []( typename Set::reverse_iterator& it ) -> Item const* { return &*it; },
                    []( typename Set::reverse_iterator& ) { return 0; }, false );
            else
                pr.run( [&]() { return s.begin(); }, [&]() { return s.end(); }, []( typename Set::iterator& it ) -> Item const* { return &*it; },
                    []( typename Set::iterator& ) { return 0; }, false );
        }
    };

    // container::FeldmanHashMap<GC, int, Item>: hash functor int -> uint8_t
    template <typename Map>
    struct FeldmanMapAdapter {
        typedef typename Map::gc GC;
        typedef typename Map::value_type pair_type;
        static constexpr Kind kind = K_FELDMAN;
        static constexpr bool has_erase_at = true;
        static constexpr bool intrusive = false;
        static constexpr size_t hazards = 2;
        Map s;

        explicit FeldmanMapAdapter( Case const& ) : s( 2, 2 ) {}

        Res insert( int key, int tag )
        {
            Res r;
            if ( tag & 1 )
                r.r = s.insert( key, Item( key, tag )) ? 1 : 0;
            else
                r.r = s.emplace( key, key, tag ) ? 1 : 0;
            return r;
        }
        Res upsert( int key, int tag, bool allow )
        {
            Res r;
            pend_key() = key;
            pend_tag() = tag;      // the mapped value is default-constructed inside update(), before the node is published
            std::pair<bool, bool> p = s.update( key, [&]( pair_type& val, pair_type* old ) {
                if ( val.second.tag != tag || val.first != key )
                    fail( "FeldmanHashMap::update(): the functor's first argument is not the node built for the call" );
                if ( old ) {
                    r.tag = old->second.tag;
                    if ( old->second.canary != kCanary || old->first != key )
                        fail( "FeldmanHashMap::update(): the replaced node handed to the functor is damaged or has another key" );
                }
            }, allow );
            pend_key() = -1;
            pend_tag() = -1;
            r.r = !p.first ? 0 : p.second ? 2 : 1;
            if ( r.r != 1 )
                r.tag = -1;
            return r;
        }
        Res erase( int key )
        {
            Res r;
            r.r = s.erase( key, [&]( pair_type& v ) { r.tag = v.second.tag; } ) ? 1 : 0;
            return r;
        }
        Res extract( int key )
        {
            Res r;
            typename Map::guarded_ptr gp( s.extract( key ));
            if ( gp ) {
                r.r = 1;
                r.tag = gp->second.tag;
                cdsverif::point();
                if ( gp->second.canary != kCanary || gp->first != key )
                    fail( "FeldmanHashMap::extract(): the guarded item is damaged or has another key" );
            }
            return r;
        }
        Res find( int key )
        {
            Res r;
            r.r = s.find( key, [&]( pair_type& v ) { r.tag = v.second.tag; } ) ? 1 : 0;
            return r;
        }
        uint64_t expands() const { return uint64_t( s.statistics().m_nExpandNodeSuccess.get()); }
        void iterate( bool rev, PassRun& pr )
        {
            pr.rec.rev = rev;
            if ( rev )
                pr.run( [&]() { return s.rbegin(); }, [&]() { return s.rend(); }, []( typename Map::reverse_iterator& it ) -> Item const* { return &it->second; },
                    [&]( typename Map::reverse_iterator& it ) { return s.erase_at( it ) ? 1 : 0; }, true );
            else
                pr.run( [&]() { return s.begin(); }, [&]() { return s.end(); }, []( typename Map::iterator& it ) -> Item const* { return &it->second; },
                    [&]( typename Map::iterator& it ) { return s.erase_at( it ) ? 1 : 0; }, true );
        }
    };

    // ---- oracle (b): completeness / exactly-once / order / provenance of what a pass yielded ---------------------------
    inline bool is_mod( Ev const& e ) { return e.op != M_FIND; }
    inline bool puts_tag( Ev const& e )
    {
        if ( e.op == M_INSERT )
            return e.r == 1;
        if ( e.op == M_UPSERT || e.op == M_UPSERT_NOINS )
            return e.r == 1 || e.r == 2;
        return false;
    }
    inline bool removes_tag( Ev const& e, int64_t tag )
    {
        if ( e.op == M_ERASE )
            return e.r == 1 && e.r2 == tag;
        if ( e.op == M_UPSERT || e.op == M_UPSERT_NOINS )
            return e.r == 1 && e.r2 == tag;
        if ( e.op == M_ERASE_TAG )
            return e.r == 1 && e.b == tag;
        return false;
    }
    inline bool changed_container( Ev const& e )
    {
        switch ( e.op ) {
        case M_INSERT: case M_ERASE: case M_ERASE_TAG: return e.r == 1;
        case M_UPSERT: case M_UPSERT_NOINS: return e.r == 1 || e.r == 2;
        default: return false;
        }
    }

    std::string pass_text( Pass const& p )
    {
        std::ostringstream o;
        o << ( p.rev ? "reverse" : "forward" ) << " pass [" << p.t0 << "," << p.t1 << "] yielded";
        for ( Yield const& y : p.ys )
            o << " (" << y.key << ":" << y.tag << " @" << y.ty << ")";
        return o.str();
    }

    CDSVERIF_NOCOV void check_pass( Kind kind, std::vector<Ev> const& ev, Pass const& p, unsigned& claims )
    {
        // provenance of every yielded object
        for ( Yield const& y : p.ys ) {
            Ev const* ins = nullptr;
            for ( Ev const& e : ev )
                if ( puts_tag( e ) && e.b == y.tag ) {
                    ins = &e;
                    break;
                }
            if ( !ins ) {
                fail( "[iter-invented] iterator yielded (key " + std::to_string( y.key ) + ", tag " + std::to_string( y.tag ) + ") but no successful insertion stored such an object; "
                    + pass_text( p ) + "; " + history_text( ev, kModelNames ));
                return;
            }
            if ( ins->a != y.key ) {
                fail( "[iter-invented] iterator yielded tag " + std::to_string( y.tag ) + " under key " + std::to_string( y.key ) + " but it was inserted with key " + std::to_string( ins->a ));
                return;
            }
            if ( ins->inv > y.ty ) {
                fail( "[iter-invented] iterator yielded (key " + std::to_string( y.key ) + ", tag " + std::to_string( y.tag ) + ") before its insertion was invoked; " + pass_text( p ) + "; "
                    + history_text( ev, kModelNames ));
                return;
            }
            for ( Ev const& e : ev )
                if ( removes_tag( e, y.tag ) && e.resp < y.tprev ) {
                    fail( "[iter-stale] iterator yielded (key " + std::to_string( y.key ) + ", tag " + std::to_string( y.tag ) + ") although that object had been removed/replaced before the iterator advanced to it; "
                        + pass_text( p ) + "; " + history_text( ev, kModelNames ));
                    return;
                }
        }
        if ( kind != K_FELDMAN ) {
            std::set<int> tags;
            for ( Yield const& y : p.ys )
                if ( !tags.insert( y.tag ).second ) {
                    fail( "[iter-twice] iterator yielded the same object (key " + std::to_string( y.key ) + ", tag " + std::to_string( y.tag ) + ") twice in one pass; " + pass_text( p ));
                    return;
                }
        }
        if ( !p.done )
            return;
        // P: keys present with a known object and untouched during [t0,t1]
        std::map<int, int64_t> P;
        for ( int k = 0; k <= kMaxKey; ++k ) {
            for ( Ev const& I : ev ) {
                if ( I.a != k || !puts_tag( I ) || !( I.resp < p.t0 ))
                    continue;
                bool sole = true;
                for ( Ev const& e : ev ) {
                    if ( &e == &I || e.a != k || !is_mod( e ))
                        continue;
                    if ( e.resp < I.inv || e.inv > p.t1 )
                        continue;
                    sole = false;
                    break;
                }
                if ( sole ) {
                    P[k] = I.b;
                    break;
                }
            }
        }
        int last = -1;
        for ( Yield const& y : p.ys ) {
            auto f = P.find( y.key );
            if ( f == P.end())
                continue;
            if ( f->second != y.tag ) {
                fail( "[iter-wrong-object] key " + std::to_string( y.key ) + " held object tag " + std::to_string( f->second ) + " untouched during the whole pass but the iterator yielded tag "
                    + std::to_string( y.tag ) + " for it; " + pass_text( p ) + "; " + history_text( ev, kModelNames ));
                return;
            }
            if ( kind == K_LIST ) {
                if ( y.key <= last ) {
                    fail( "[iter-order] IterableList iterator yielded stable key " + std::to_string( y.key ) + " after stable key " + std::to_string( last ) + "; " + pass_text( p ));
                    return;
                }
                last = y.key;
            }
        }
        for ( auto const& kv : P ) {
            unsigned cnt = 0;
            for ( Yield const& y : p.ys )
                if ( y.key == kv.first )
                    ++cnt;
            ++claims;
            if ( cnt == 0 ) {
                fail( "[iter-missed] key " + std::to_string( kv.first ) + " (tag " + std::to_string( kv.second ) + ") was present and untouched during the whole pass but the iterator never yielded it; "
                    + pass_text( p ) + "; " + history_text( ev, kModelNames ));
                return;
            }
            if ( cnt > 1 && kind != K_FELDMAN ) {
                fail( "[iter-twice] key " + std::to_string( kv.first ) + " was present and untouched during the whole pass but was yielded " + std::to_string( cnt ) + " times; " + pass_text( p ));
                return;
            }
            if ( cnt > 1 )
                note_class( "feldman_duplicate_yield" );
        }
    }

    // ---- SMR scopes ------------------------------------------------------------------------------------
    struct GcScope {
        std::unique_ptr<HpSingleton> hp;
        std::unique_ptr<DhpSingleton> dhp;
    };
    struct RcuScope {
        std::unique_ptr<RCU_GPB> gpb;
        std::unique_ptr<RCU_GPI> gpi;
    };

    // ---- the case runner -------------------------------------------------------------------------------
    enum { OP_INSERT = 0, OP_UPSERT, OP_ERASE, OP_EXTRACT, OP_UPSERT_NOINS, OP_ITERATE };

    template <typename A>
    Verdict run_iter( Case const& c )
    {
        typedef typename A::GC GC;
        constexpr GcK gck = gc_info<GC>::k;
        lib_init();
        case_reset();
        registry().reset();
        CaseRng::seed( c.seed );
        g_hash_mode = cfg_at( c, 2, 0 );
        const int prefill = cfg_at( c, 0, 0 );
        const bool scan = cfg_at( c, 1, 0 ) != 0;
        const size_t T = c.prog.size();
        History hist;
        std::vector<Pass> passes;
        passes.reserve( 64 );
        SchedStats st;
        int next_tag = 100;
        {
            GcScope gcs;
            if ( gck == G_HP ) {
                size_t hz = A::hazards + 8;     // iterators (and the temporaries end() builds) hold guards of their own
                size_t threads = T + 2;
                gcs.hp.reset( new HpSingleton( hz, threads, hz * threads + 1, false ));
            }
            else if ( gck == G_DHP )
                gcs.dhp.reset( new DhpSingleton( 4 ));
            session_begin( sched_params( c ));
            {
                RcuScope rcu;
                if ( gck == G_GPB )
                    rcu.gpb.reset( new RCU_GPB( 4 ));
                else if ( gck == G_GPI )
                    rcu.gpi.reset( new RCU_GPI );
                {
                    Attach main_attach;
                    {
                        A ad( c );
                        auto do_insert = [&]( int th, int key ) {
                            int tag = next_tag++;
                            size_t e = hist.begin( th, M_INSERT, key, tag );
                            Res r = ad.insert( key, tag );
                            hist.end( e, r.r, -1 );
                        };
                        for ( int k = 0; k <= kMaxKey; ++k )
                            if ( prefill & ( 1 << k ))
                                do_insert( 0, k );

                        std::vector<std::function<void()>> bodies;
                        for ( size_t t = 0; t < T; ++t ) {
                            if ( t == 0 ) {
                                bodies.push_back( [&]() {
                                    Attach a;
                                    for ( Op const& op : c.prog[0] ) {
                                        if ( failed())
                                            break;
                                        passes.emplace_back();
                                        Pass& rec = passes.back();
                                        PassRun pr( hist, 1, rec );
                                        int pb = op.b & 3;
                                        pr.pauses = pb == 3 ? 0 : pb;
                                        pr.yield_pause = pb == 3;
                                        pr.erase_sel = A::has_erase_at ? (( op.b >> 2 ) & 7 ) : 0;
                                        pr.scan = scan;
                                        pr.scan_fn = &gc_info<GC>::scan;
                                        int lead = ( op.a >> 1 ) & 3;
                                        for ( int i = 0; i < lead; ++i )
                                            cdsverif::point();
                                        rec.expand0 = ad.expands();
                                        try {
                                            ad.iterate(( op.a & 1 ) != 0, pr );
                                        }
                                        catch ( std::exception const& ex ) {
                                            fail( std::string( "[iter-exception] iteration threw: " ) + ex.what());
                                            rec.done = false;
                                            if ( !rec.t1 )
                                                rec.t1 = tick();
                                        }
                                        rec.expand1 = ad.expands();
                                        if ( scan )
                                            gc_info<GC>::scan();        // outside any RCU lock, iterator already destroyed
                                    }
                                } );
                                continue;
                            }
                            bodies.push_back( [&, t]() {
                                Attach a;
                                int th = int( t ) + 1;
                                for ( Op const& op : c.prog[t] ) {
                                    int key = op.a & kMaxKey;
                                    switch ( op.code ) {
                                    case OP_INSERT:
                                        do_insert( th, key );
                                        break;
                                    case OP_UPSERT:
                                    case OP_UPSERT_NOINS: {
                                        int tag = next_tag++;
                                        size_t e = hist.begin( th, op.code == OP_UPSERT ? M_UPSERT : M_UPSERT_NOINS, key, tag );
                                        Res r = ad.upsert( key, tag, op.code == OP_UPSERT );
                                        hist.end( e, r.r, r.tag );
                                        if ( scan && r.r == 1 )
                                            gc_info<GC>::scan();
                                        break;
                                    }
                                    case OP_ERASE:
                                    case OP_EXTRACT: {
                                        size_t e = hist.begin( th, M_ERASE, key );
                                        Res r = op.code == OP_ERASE ? ad.erase( key ) : ad.extract( key );
                                        hist.end( e, r.r, r.tag );
                                        if ( scan && r.r )
                                            gc_info<GC>::scan();
                                        break;
                                    }
                                    default: {
                                        size_t e = hist.begin( th, M_FIND, key );
                                        Res r = ad.find( key );
                                        hist.end( e, r.r, r.tag );
                                        break;
                                    }
                                    }
                                }
                            } );
                        }
                        run_threads( bodies );
                        // final contents (with the tag each key holds) close the history
                        for ( int k = 0; k <= kMaxKey; ++k ) {
                            size_t e = hist.begin( 0, M_FIND, k );
                            Res r = ad.find( k );
                            hist.end( e, r.r, r.tag );
                        }
                    }   // container destroyed
                }       // main detached
            }           // RCU singleton destroyed
            st = session_end();
        }               // HP / DHP singleton destroyed
        graveyard().release();

        // (c) erase_at + updater operations form a linearizable set history
        if ( !failed()) {
            LinChecker<MapModel> lc( hist.ev );
            if ( !lc.check( MapModel())) {
                bool has_false_erase_at = false;
                for ( Ev const& e : hist.ev )
                    if ( e.op == M_ERASE_TAG && !e.r )
                        has_false_erase_at = true;
                fail( std::string( "[iter-lin] history (updater operations + erase_at(iterator) as 'erase exactly this object') is not linearizable to a set" )
                    + ( has_false_erase_at ? " (it contains an erase_at that returned false)" : "" ) + ": " + history_text( hist.ev, kModelNames ));
            }
            if ( lc.gave_up())
                note_class( "lin_gave_up" );
        }
        // (b)
        unsigned claims = 0;
        for ( Pass const& p : passes ) {
            if ( failed())
                break;
            check_pass( A::kind, hist.ev, p, claims );
        }
        if ( claims )
            note_class( "completeness_claims", claims );
        // intrusive: every item that entered the list disposed exactly once by now
        if ( A::intrusive && !failed()) {
            for ( size_t i = 0; i < registry().recs.size(); ++i ) {
                auto const& rec = registry().recs[i];
                int want = rec.dropped ? 0 : 1;
                if ( rec.disposed != want ) {
                    fail( "intrusive item #" + std::to_string( i ) + " was disposed " + std::to_string( rec.disposed ) + " times (expected " + std::to_string( want )
                        + ") by the time the list and the SMR were destroyed" );
                    break;
                }
            }
        }
        // non-trivial: an updater changed the container strictly inside a pass
        bool nt = false;
        bool expanded = false;
        uint64_t h = hist.hash();
        for ( Pass const& p : passes ) {
            note_class( "passes" );
            note_class( "yields", p.ys.size());
            if ( p.rev )
                note_class( "reverse_passes" );
            bool inside = false;
            for ( Ev const& e : hist.ev )
                if ( e.thread >= 2 && changed_container( e ) && e.inv > p.t0 && e.resp < p.t1 )
                    inside = true;
            if ( inside ) {
                nt = true;
                note_class( "pass_with_update_inside" );
            }
            if ( p.expand1 > p.expand0 ) {
                expanded = true;
                note_class( "expand_during_iteration" );
            }
            h = hash_mix( h, p.t0 * 4096 + p.t1 );
            for ( Yield const& y : p.ys )
                h = hash_mix( h, uint64_t( y.key ) * 1000003u + uint64_t( y.tag ) * 31 + y.ty );
        }
        if ( nt )
            note_class( "case_update_inside_pass" );
        if ( expanded )
            note_class( "case_expand_during_iteration" );
        h = hash_mix( h, uint64_t( c.variant ));
        for ( int x : c.cfg )
            h = hash_mix( h, uint64_t( x ));
        return finish( st, h, nt );
    }

    // ---- container types --------------------------------------------------------------------------------
    struct il_cmp_ic : cc::iterable_list::traits {
        typedef ItemCmp compare;
        typedef cds::atomicity::item_counter item_counter;
    };
    struct il_less : cc::iterable_list::traits {
        typedef ItemLess less;
    };
    typedef cc::IterableList<HP, Item, il_cmp_ic> IL_HP;
    typedef cc::IterableList<DHP, Item, il_less> IL_DHP;

    struct iil_traits : ci::iterable_list::traits {
        typedef IItemCmp compare;
        typedef IItemDisposer disposer;
        typedef cds::atomicity::item_counter item_counter;
    };
    typedef ci::IterableList<HP, IItem, iil_traits> IIL_HP;
    typedef ci::IterableList<DHP, IItem, iil_traits> IIL_DHP;

    struct ms_traits : cc::michael_set::traits {
        typedef KeyHash hash;
        typedef cds::atomicity::item_counter item_counter;
    };
    typedef cc::MichaelHashSet<HP, cc::IterableList<HP, Item, il_less>, ms_traits> MS_HP;
    typedef cc::MichaelHashSet<DHP, cc::IterableList<DHP, Item, il_cmp_ic>, ms_traits> MS_DHP;

    struct sl_traits_dyn : cc::split_list::traits {
        typedef cc::iterable_list_tag ordered_list;
        typedef KeyHash hash;
        struct ordered_list_traits : cc::iterable_list::traits {
            typedef ItemCmp compare;
        };
    };
    struct sl_traits_static : cc::split_list::traits {
        typedef cc::iterable_list_tag ordered_list;
        typedef KeyHash hash;
        enum { dynamic_bucket_table = false };
        struct ordered_list_traits : cc::iterable_list::traits {
            typedef ItemLess less;
        };
    };
    typedef cc::SplitListSet<HP, Item, sl_traits_dyn> SL_HP;
    typedef cc::SplitListSet<DHP, Item, sl_traits_static> SL_DHP;

    struct fs_traits : cc::feldman_hashset::traits {
        typedef ItemHashAccessor hash_accessor;
        typedef cc::feldman_hashset::stat<> stat;
    };
    typedef cc::FeldmanHashSet<HP, Item, fs_traits> FS_HP;
    typedef cc::FeldmanHashSet<DHP, Item, fs_traits> FS_DHP;
    typedef cc::FeldmanHashSet<RCU_GPB, Item, fs_traits> FS_GPB;
    typedef cc::FeldmanHashSet<RCU_GPI, Item, fs_traits> FS_GPI;

    struct fm_traits : cc::feldman_hashmap::traits {
        typedef Hash8 hash;
        typedef cc::feldman_hashmap::stat<> stat;
    };
    typedef cc::FeldmanHashMap<HP, int, Item, fm_traits> FM_HP;

    template <typename S> S* mk_default( Case const& ) { return new S; }
    template <typename S> S* mk_michael( Case const& ) { return new S( 2, 1 ); }          // two buckets
    template <typename S> S* mk_split( Case const& c ) { return new S( cfg_at( c, 3, 0 ) ? 8 : 2, 1 ); }     // bucket table of 2 (fixed) or 8 (grows 2 -> 4 -> 8 while items arrive)

    struct Variant {
        const char* name;
        Verdict (*run)( Case const& );
    };
    const Variant kVariants[] = {
        { "IterableList_HP_cmp_ic", run_iter<SetAdapter<IL_HP, K_LIST, &mk_default<IL_HP>>> },
        { "IterableList_DHP_less", run_iter<SetAdapter<IL_DHP, K_LIST, &mk_default<IL_DHP>>> },
        { "intrusive_IterableList_HP", run_iter<IntrusiveListAdapter<IIL_HP>> },
        { "intrusive_IterableList_DHP", run_iter<IntrusiveListAdapter<IIL_DHP>> },
        { "MichaelHashSet_IterableList_HP_2buckets", run_iter<SetAdapter<MS_HP, K_HASH, &mk_michael<MS_HP>>> },
        { "MichaelHashSet_IterableList_DHP_2buckets", run_iter<SetAdapter<MS_DHP, K_HASH, &mk_michael<MS_DHP>>> },
        { "SplitListSet_iterable_HP_dynamic", run_iter<SetAdapter<SL_HP, K_HASH, &mk_split<SL_HP>>> },
        { "SplitListSet_iterable_DHP_static", run_iter<SetAdapter<SL_DHP, K_HASH, &mk_split<SL_DHP>>> },
        { "FeldmanHashSet_HP_forward", run_iter<FeldmanSetAdapter<FS_HP, D_FWD, false>> },
        { "FeldmanHashSet_HP_reverse", run_iter<FeldmanSetAdapter<FS_HP, D_REV, false>> },
        { "FeldmanHashSet_DHP_forward", run_iter<FeldmanSetAdapter<FS_DHP, D_FWD, false>> },
        { "FeldmanHashSet_DHP_reverse", run_iter<FeldmanSetAdapter<FS_DHP, D_REV, false>> },
        { "FeldmanHashMap_HP_mixed", run_iter<FeldmanMapAdapter<FM_HP>> },
        { "FeldmanHashSet_RCU_GPB_locked_mixed", run_iter<FeldmanSetAdapter<FS_GPB, D_MIX, true>> },
        { "FeldmanHashSet_RCU_GPI_locked_mixed", run_iter<FeldmanSetAdapter<FS_GPI, D_MIX, true>> },
    };
    const size_t kNumVariants = sizeof( kVariants ) / sizeof( kVariants[0] );
}

namespace cdsverif {
    Schema const& harness_schema()
    {
        static Schema s = []() {
            Schema x;
            x.name = "iter";
            for ( size_t i = 0; i < kNumVariants; ++i )
                x.variants.push_back( kVariants[i].name );
            x.cfg = { { "prefill_mask", 0, 255 }, { "scan", 0, 1 }, { "hash_mode", 0, 3 }, { "split_table", 0, 1 } };
            // worker 0 interprets EVERY op as one iteration pass: a bit0 = reverse (where offered), a bits1-2 = lead-in points,
            // b bits0-1 = pauses per element (3 = one yield), b bits2-4 = erase_at selector (0-3 never, 4 all, 5 odd, 6 even, 7 every third).
            // workers 1.. : a = key; "iterate" is executed as find(key).
            x.ops = { { "insert", 6, 7, 63 }, { "upsert", 5, 7, 63 }, { "erase", 6, 7, 63 }, { "extract", 3, 7, 63 }, { "upsert_noins", 2, 7, 63 }, { "iterate", 4, 7, 63 } };
            x.min_threads = 2;
            x.max_threads_quick = 3;
            x.max_threads_thorough = 4;
            x.max_ops_quick = 4;
            x.max_ops_thorough = 6;
            x.nontrivial_rule = "at least one updater operation that changed the container (successful insert/erase/extract/replacing update) was invoked after an iteration pass began and responded before that pass ended";
            return x;
        }();
        return s;
    }

    Verdict run_case( Case const& c )
    {
        size_t v = size_t( c.variant ) < kNumVariants ? size_t( c.variant ) : 0;
        return kVariants[v].run( c );
    }
}
