// C16 concurrent: CuckooSet/Map, intrusive CuckooSet, StripedSet/Map over std containers (lockhash_body.h, fam_lockhash.h)
#define LOCKHASH_HARNESS_NAME "lockhash"
#define LOCKHASH_SEQUENTIAL 0
#include "lockhash_body.h"
