// C16: lock-based hash containers (Cuckoo / Striped sets and maps, value and intrusive flavours) are linearizable
// across concurrent resizes. Tiny initial tables, probe sets and resize thresholds so that resizes interleave with
// every operation; see fam_lockhash.h for the variants and the per-case parameters.
#include "mapcommon_impl.h"
#include "fam_lockhash.h"

using namespace mh;

namespace fam_lockhash {
    Params decode_params( Case const& c, ContKind kind ) { return decode_params_c16( c, kind ); }
}

namespace {
    const MapVariant kVariants[] = {
        LOCKHASH_CUCKOO_VARIANTS
        LOCKHASH_STRIPED_VARIANTS
    };
    const MapHarnessConfig kConfig = { "lockhash", kVariants, sizeof( kVariants ) / sizeof( kVariants[0] ), 3, false, false };
}

namespace cdsverif {
    Schema const& harness_schema()
    {
        static Schema s = make_map_schema( kConfig,
            { { "init", 0, 3 }, { "probe", 0, 1 }, { "thr", 0, 1 }, { "hash", 0, 5 } },
            "two operations of different threads on the same key overlapped, at least one of them a successful update, and a pre-emptive or yielding switch occurred "
            "(class counters resized_in_concurrent_phase / cases_resized_in_concurrent_phase report table doublings between the first worker operation and the end)" );
        return s;
    }
    Verdict run_case( Case const& c )
    {
        fam_lockhash::oversize() = false;
        return run_map_case( kConfig, c );
    }
}
