// C28: FeldmanHashSet addressing (metrics::make normalisation, hash splitters, traverse/expand_slot).
//
// Sequential harness, two layers, one variant per (layer, hash kind):
//   pure_<kind>   slot paths computed with the splitter type the container itself selects
//                 (multilevel_array<T,Traits>::hash_splitter) and metrics::make( head, array, hash_size )
//   cont_<kind>   a real cds::container::FeldmanHashSet<cds::gc::HP, T, Traits> with small head/array widths
//   wide_u64      pure layer for normalised head widths of 31..62 bits over a 64-bit integral hash, where
//                 number_splitter::cut computed its mask in int (known defect, see C25; fixed by an /repo commit);
//                 evaluated in a forked child so that a sanitizer abort becomes a fail() message
// Hash kinds: u8 (split_bitstring), u16/u32/u64 (number_splitter), b2/b4/b8 (byte arrays, split_bitstring),
// u64hs4 (uint64_t hash with the hash_size<4> override: split_bitstring over the first 4 bytes).
//
// Checks, pure layer:
//   * metrics::make output: array_log == max(array_bits, 2), head_log >= 4, head_log <= hash bits,
//     (hash_bits - head_log) % array_log == 0 (the documented equation hash bits == head + N*array),
//     sizes == 2^log
//   * configurations the multilevel_array constructor asserts against (hash_splitter::is_correct) -> V_REJECT
//   * the path of a hash (cut(head_log), then cut(array_log) until eos()) consumes exactly hash_bits bits,
//     never needs more bits than are left, every slot < node size, depth == 1 + (hash_bits-head_log)/array_log
//   * the path is a function of the hash value (recomputed from a copy at another address; for u64hs4 also with
//     different bytes outside the hash)
//   * the slot taken from splitter( hash, bit_offset ).cut( array_log ) - what expand_slot uses to re-seat a node -
//     equals the slot traverse() computes sequentially
//   * two distinct hashes have different paths (pairs differing in exactly one generated bit, with and without
//     random noise above it; bulks of up to 2^10 hashes sharing all but their last bits)
// Checks, container layer: insert succeeds iff the hash is not present (model: std::map), contains/find agree with the
// model before and after, size() matches, the level statistics never show more levels than 1 + (bits-head)/array and
// count exactly size() data cells.
#include "common.h"

#include <cds/container/feldman_hashset_hp.h>

#include <map>
#include <sys/mman.h>
#include <sys/wait.h>
#include <unistd.h>

#include "stats.h"

using namespace hv;
namespace cc = cds::container;
namespace ci = cds::intrusive;

namespace {

    typedef cds::gc::HP HP;
    typedef ci::feldman_hashset::details::metrics metrics;

    enum { OP_PAIR = 0, OP_SAME = 1, OP_BULK = 2 };

    std::string hex( uint64_t v )
    {
        char b[32];
        snprintf( b, sizeof( b ), "0x%llx", (unsigned long long) v );
        return b;
    }
    inline uint64_t mix64( uint64_t z )
    {
        z += 0x9e3779b97f4a7c15ull;
        z = ( z ^ ( z >> 30 )) * 0xbf58476d1ce4e5b9ull;
        z = ( z ^ ( z >> 27 )) * 0x94d049bb133111ebull;
        return z ^ ( z >> 31 );
    }
    inline uint64_t low_mask( unsigned k ) { return k >= 64 ? ~uint64_t( 0 ) : ( uint64_t( 1 ) << k ) - 1; }

    // ---- hash kinds -------------------------------------------------------------------------
    template <size_t N>
    struct bytes {
        uint8_t b[N];
    };

    template <typename HT>
    struct Val {
        HT hash;
        uint32_t tag;
    };
    template <typename HT>
    struct Acc {
        HT const& operator()( Val<HT> const& v ) const { return v.hash; }
    };
    struct cmp_low32 {
        int operator()( uint64_t a, uint64_t b ) const
        {
            uint32_t x = uint32_t( a ), y = uint32_t( b );
            return x < y ? -1 : x > y ? 1 : 0;
        }
    };

    // canonical hash value: the hash bits in consumption order as a little-endian integer
    template <typename HT>
    struct Conv {
        static HT make( uint64_t canon, uint64_t ) { return HT( canon ); }
    };
    template <size_t N>
    struct Conv<bytes<N>> {
        static bytes<N> make( uint64_t canon, uint64_t )
        {
            bytes<N> r;
            memcpy( r.b, &canon, N );
            return r;
        }
    };

    template <typename HT, size_t HashSize, typename Cmp, unsigned Zone, bool NumberSplitter, bool Junk>
    struct Kind {
        typedef HT hash_type;
        typedef Val<HT> value_type;
        struct traits : cc::feldman_hashset::traits {
            typedef Acc<HT> hash_accessor;
            static constexpr size_t const hash_size = HashSize;
            typedef Cmp compare;
        };
        typedef cc::FeldmanHashSet<HP, value_type, traits> set_type;
        // the types the container is built from
        typedef typename cc::details::make_feldman_hashset<HP, value_type, traits>::intrusive_traits intrusive_traits;
        typedef ci::feldman_hashset::multilevel_array<value_type, intrusive_traits> mla_type;
        typedef typename mla_type::hash_splitter splitter;
        static constexpr size_t hash_bytes = mla_type::c_hash_size;
        static constexpr unsigned bits = unsigned( hash_bytes * 8 );
        static constexpr unsigned zone = Zone;      // widest cut the splitter performs correctly
        static constexpr bool number_splitter = NumberSplitter;
        static constexpr bool junk = Junk;          // bytes outside the hash exist
        static HT make( uint64_t canon, uint64_t jnk )
        {
            if ( Junk )
                return Conv<HT>::make(( canon & low_mask( bits )) | ( jnk << bits ), 0 );
            return Conv<HT>::make( canon, 0 );
        }
    };
    typedef cds::opt::none none;
    typedef Kind<uint8_t, 0, none, 8, false, false> K_u8;
    typedef Kind<uint16_t, 0, none, 15, true, false> K_u16;
    typedef Kind<uint32_t, 0, none, 30, true, false> K_u32;
    typedef Kind<uint64_t, 0, none, 30, true, false> K_u64;
    typedef Kind<bytes<2>, 0, none, 16, false, false> K_b2;
    typedef Kind<bytes<4>, 0, none, 32, false, false> K_b4;
    typedef Kind<bytes<8>, 0, none, 32, false, false> K_b8;
    typedef Kind<uint64_t, 4, cmp_low32, 32, false, true> K_u64hs4;

    // what the documentation says about the splitter selection
    static_assert( std::is_same<K_u8::splitter, cds::algo::split_bitstring<uint8_t, 1>>::value, "u8 -> split_bitstring" );
    static_assert( std::is_same<K_u16::splitter, cds::algo::number_splitter<uint16_t>>::value, "u16 -> number_splitter" );
    static_assert( std::is_same<K_u32::splitter, cds::algo::number_splitter<uint32_t>>::value, "u32 -> number_splitter" );
    static_assert( std::is_same<K_u64::splitter, cds::algo::number_splitter<uint64_t>>::value, "u64 -> number_splitter" );
    static_assert( std::is_same<K_b8::splitter, cds::algo::split_bitstring<bytes<8>, 8>>::value, "byte array -> split_bitstring" );
    static_assert( std::is_same<K_u64hs4::splitter, cds::algo::split_bitstring<uint64_t, 4>>::value, "hash_size override -> split_bitstring" );
    static_assert( K_u64hs4::bits == 32 && K_b2::bits == 16 && K_u64::bits == 64, "hash widths" );

    // ---- isolated evaluation of a whole case (forked child, line protocol) ------------------
    struct Report {
        bool ended = false;         // child delivered its end marker
        bool failed = false;
        bool nontrivial = false;
        bool reject = false;
        bool infra = false;         // no verdict possible
        std::string msg;
        std::string progress;       // last step announced by the child
        std::string diag;
        std::map<std::string, uint64_t> classes;
    };
    int g_child_fd = -1;
    char* g_progress = nullptr;     // shared page: the step the child is about to perform
    constexpr size_t kProgressSize = 4096;
    void child_line( char tag, std::string s )
    {
        if ( g_child_fd < 0 )
            return;
        if ( tag == 'P' && g_progress ) {
            // no system call on the hot path
            size_t n = s.size() < kProgressSize - 1 ? s.size() : kProgressSize - 1;
            memcpy( g_progress, s.data(), n );
            g_progress[n] = 0;
            return;
        }
        for ( char& ch : s )
            if ( ch == '\n' )
                ch = ' ';
        s = std::string( 1, tag ) + s + "\n";
        size_t off = 0;
        while ( off < s.size()) {
            ssize_t n = write( g_child_fd, s.data() + off, s.size() - off );
            if ( n <= 0 )
                _exit( 3 );
            off += size_t( n );
        }
    }
    // announce the library call that is about to happen (only matters inside the child)
#define PROGRESS( expr )                 \
    do {                                 \
        if ( g_child_fd >= 0 )           \
            child_line( 'P', ( expr )); \
    } while ( 0 )

    template <typename F>
    Report run_in_child( F body )
    {
        Report rep;
        int pv[2], pe[2];
        if ( pipe( pv ) != 0 ) {
            rep.infra = true;
            return rep;
        }
        if ( pipe( pe ) != 0 ) {
            close( pv[0] );
            close( pv[1] );
            rep.infra = true;
            return rep;
        }
        void* shm = mmap( nullptr, kProgressSize, PROT_READ | PROT_WRITE, MAP_SHARED | MAP_ANONYMOUS, -1, 0 );
        if ( shm == MAP_FAILED )
            shm = nullptr;
        else
            static_cast<char*>( shm )[0] = 0;
        fflush( stdout );
        fflush( stderr );
        pid_t pid = fork();
        if ( pid == 0 ) {
            close( pv[0] );
            close( pe[0] );
            dup2( pe[1], 2 );
            g_child_fd = pv[1];
            g_progress = static_cast<char*>( shm );
            bool nontrivial = false, reject = false;
            body( nontrivial, reject );
            for ( auto const& kv : case_classes())
                child_line( 'C', kv.first + " " + std::to_string( kv.second ));
            if ( failed())
                child_line( 'F', fail_msg());
            child_line( 'N', nontrivial ? "1" : "0" );
            if ( reject )
                child_line( 'J', "" );
            child_line( 'E', "" );
            _exit( 0 );
        }
        close( pv[1] );
        close( pe[1] );
        if ( pid < 0 ) {
            close( pv[0] );
            close( pe[0] );
            if ( shm )
                munmap( shm, kProgressSize );
            rep.infra = true;
            return rep;
        }
        std::string out, err;
        char buf[4096];
        for ( ;; ) {
            ssize_t n = read( pv[0], buf, sizeof( buf ));
            if ( n <= 0 )
                break;
            out.append( buf, size_t( n ));
        }
        for ( ;; ) {
            ssize_t n = read( pe[0], buf, sizeof( buf ));
            if ( n <= 0 )
                break;
            if ( err.size() < 16384 )
                err.append( buf, size_t( n ));
        }
        close( pv[0] );
        close( pe[0] );
        int status = 0;
        waitpid( pid, &status, 0 );
        if ( shm ) {
            static_cast<char*>( shm )[kProgressSize - 1] = 0;
            rep.progress = static_cast<char*>( shm );
            munmap( shm, kProgressSize );
        }
        size_t pos = 0;
        while ( pos < out.size()) {
            size_t e = out.find( '\n', pos );
            if ( e == std::string::npos )
                break;
            std::string line = out.substr( pos, e - pos );
            pos = e + 1;
            if ( line.empty())
                continue;
            std::string rest = line.substr( 1 );
            switch ( line[0] ) {
            case 'P': rep.progress = rest; break;
            case 'F': rep.failed = true; rep.msg = rest; break;
            case 'N': rep.nontrivial = rest == "1"; break;
            case 'J': rep.reject = true; break;
            case 'E': rep.ended = true; break;
            case 'C': {
                size_t sp = rest.rfind( ' ' );
                if ( sp != std::string::npos )
                    rep.classes[rest.substr( 0, sp )] += strtoull( rest.c_str() + sp + 1, nullptr, 10 );
                break;
            }
            default: break;
            }
        }
        if ( !rep.ended ) {
            size_t p = err.find( "runtime error" );
            if ( p == std::string::npos )
                p = err.find( "ERROR" );
            if ( p == std::string::npos )
                p = err.find( "Assertion" );
            if ( p != std::string::npos ) {
                size_t b = err.rfind( '\n', p );
                b = b == std::string::npos ? 0 : b + 1;
                size_t e = err.find( '\n', p );
                rep.diag = err.substr( b, e == std::string::npos ? std::string::npos : e - b );
            }
            else
                rep.infra = true;   // died without a sanitizer / assertion report: no verdict
        }
        return rep;
    }

    // ---- configuration ------------------------------------------------------------------------
    struct Config {
        unsigned head = 0, array = 0;   // arguments given to the constructor / metrics::make
        bool raw = false;               // not constructed to be valid
    };

    // largest head_bits whose normalised value stays inside the zone the splitter cuts correctly
    // (the normalised head widths are bits - j*array_eff)
    inline int head_max_for( unsigned bits, unsigned zone, unsigned array )
    {
        unsigned a = array < 2 ? 2 : array;
        if ( zone >= bits )
            return int( bits );
        unsigned j = ( bits - zone + a - 1 ) / a;
        return int( bits ) - int( j * a );
    }

    template <typename K>
    Config pure_config( Case const& c )
    {
        Config cf;
        unsigned ch = unsigned( cfg_at<int>( c, 0, 8 )), ca = unsigned( cfg_at<int>( c, 1, 4 ));
        unsigned amax = ( K::number_splitter && K::bits - 4 < 16 ) ? K::bits - 4 : 16;
        cf.raw = ( ch * 17 + ca ) % 11 == 0;
        if ( cf.raw ) {
            // anything the quantifier allows; 8-byte hashes stay below a normalised head of 64 (2^64 slots)
            cf.array = ca % 17;
            cf.head = ch % ( K::bits >= 64 ? 49 : K::bits + 1 );
            return cf;
        }
        cf.array = ca % ( amax + 1 );
        int hm = head_max_for( K::bits, K::zone, cf.array );
        if ( hm < 4 ) {
            cf.raw = true;
            cf.head = ch % ( K::bits >= 64 ? 49 : K::bits + 1 );
            return cf;
        }
        cf.head = ch % unsigned( hm + 1 );
        return cf;
    }

    // head widths beyond the zone, exactly on the normalisation lattice: head = bits - j*array_eff in (zone, bits-2]
    template <typename K>
    Config wide_config( Case const& c )
    {
        Config cf;
        unsigned ch = unsigned( cfg_at<int>( c, 0, 8 )), ca = unsigned( cfg_at<int>( c, 1, 4 ));
        cf.array = ca % 17;
        unsigned a = cf.array < 2 ? 2 : cf.array;
        unsigned jmax = ( K::bits - K::zone - 1 ) / a;      // bits - j*a > zone
        if ( jmax == 0 ) {
            cf.array = a = 2;
            jmax = ( K::bits - K::zone - 1 ) / 2;
        }
        unsigned j = 1 + ch % jmax;
        cf.head = K::bits - j * a;
        return cf;
    }

    std::string cfg_text( Config const& cf, unsigned hash_bytes )
    {
        return "head_bits=" + std::to_string( cf.head ) + " array_bits=" + std::to_string( cf.array ) + " hash_size=" + std::to_string( hash_bytes );
    }

    // invariants of metrics::make's result
    bool check_metrics( metrics const& m, Config const& cf, unsigned bits, unsigned hash_bytes )
    {
        std::string ctx = " [metrics::make( " + cfg_text( cf, hash_bytes ) + " ) -> head_log " + std::to_string( m.head_node_size_log ) + ", array_log "
                          + std::to_string( m.array_node_size_log ) + "]";
        unsigned want_array = cf.array < 2 ? 2 : cf.array;
        if ( m.array_node_size_log != want_array ) {
            fail( "array node width is not max(array_bits, 2)" + ctx );
            return false;
        }
        if ( m.head_node_size_log > bits ) {
            fail( "head width exceeds the hash width" + ctx );
            return false;
        }
        if ( m.head_node_size_log < 4 && bits >= 4 ) {
            fail( "head width below the documented minimum 4" + ctx );
            return false;
        }
        if (( bits - m.head_node_size_log ) % m.array_node_size_log != 0 ) {
            fail( "layout does not consume the hash bits exactly: hash bits " + std::to_string( bits ) + " != head + N*array" + ctx );
            return false;
        }
        if ( m.head_node_size_log < 64 && m.head_node_size != ( size_t( 1 ) << m.head_node_size_log )) {
            fail( "head_node_size != 2^head_node_size_log" + ctx );
            return false;
        }
        if ( m.array_node_size != ( size_t( 1 ) << m.array_node_size_log )) {
            fail( "array_node_size != 2^array_node_size_log" + ctx );
            return false;
        }
        return true;
    }

    // ---- slot paths ---------------------------------------------------------------------------
    typedef std::vector<uint64_t> Path;

    template <typename K>
    bool lib_path( typename K::hash_type const& h, uint64_t canon, metrics const& m, Path& path )
    {
        typedef typename K::splitter splitter;
        unsigned hl = unsigned( m.head_node_size_log ), al = unsigned( m.array_node_size_log );
        auto ctx = [&]() {
            return " [hash " + hex( canon ) + ", head_log " + std::to_string( hl ) + ", array_log " + std::to_string( al ) + ", hash bits " + std::to_string( K::bits ) + "]";
        };
        path.clear();
        splitter s( h );
        s.reset();
        if ( s.eos() || s.rest_count() < hl ) {
            fail( "fresh splitter has fewer bits than the head width" + ctx());
            return false;
        }
        PROGRESS( "cut(" + std::to_string( hl ) + ") at bit 0" + ctx());
        uint64_t v = uint64_t( s.cut( hl ));
        if ( hl < 64 && v >= ( uint64_t( 1 ) << hl )) {
            fail( "head slot " + hex( v ) + " >= head size 2^" + std::to_string( hl ) + ctx());
            return false;
        }
        path.push_back( v );
        while ( !s.eos()) {
            size_t off = s.bit_offset();
            if ( s.rest_count() < al ) {
                fail( "bits run out inside a level: " + std::to_string( s.rest_count()) + " bits left at offset " + std::to_string( off ) + ", array_bits " + std::to_string( al ) + ctx());
                return false;
            }
            if ( path.size() > 70 ) {
                fail( "splitter never reaches eos()" + ctx());
                return false;
            }
            PROGRESS( "cut(" + std::to_string( al ) + ") at bit " + std::to_string( off ) + ctx());
            v = uint64_t( s.cut( al ));
            if ( v >= ( uint64_t( 1 ) << al )) {
                fail( "slot " + hex( v ) + " at level " + std::to_string( path.size()) + " >= array size 2^" + std::to_string( al ) + ctx());
                return false;
            }
            // what expand_slot computes for a node that is moved one level down
            uint64_t v2 = uint64_t( splitter( h, off ).cut( al ));
            if ( v2 != v ) {
                fail( "splitter( hash, bit offset " + std::to_string( off ) + " ).cut() = " + hex( v2 ) + " but sequential cuts give slot " + hex( v ) + " at level " + std::to_string( path.size())
                      + ": expand_slot would re-seat the node where traverse does not look" + ctx());
                return false;
            }
            path.push_back( v );
        }
        if ( s.bit_offset() != K::bits ) {
            fail( "path consumed " + std::to_string( s.bit_offset()) + " bits, hash has " + std::to_string( K::bits ) + ctx());
            return false;
        }
        size_t depth = 1 + ( K::bits - hl ) / al;
        if ( path.size() != depth ) {
            fail( "path has " + std::to_string( path.size()) + " levels, layout has " + std::to_string( depth ) + ctx());
            return false;
        }
        return true;
    }

    std::string path_text( Path const& p )
    {
        std::string s;
        for ( uint64_t v : p )
            s += ( s.empty() ? "" : "/" ) + hex( v );
        return s;
    }

    // path of a hash value, recomputed from a second copy at another address (and other bytes outside the hash)
    template <typename K>
    bool stable_path( uint64_t canon, uint64_t junk, metrics const& m, Path& path )
    {
        typename K::hash_type h1 = K::make( canon, junk );
        if ( !lib_path<K>( h1, canon, m, path ))
            return false;
        std::unique_ptr<typename K::hash_type> h2( new typename K::hash_type( K::make( canon, ~junk )));
        Path again;
        if ( !lib_path<K>( *h2, canon, m, again ))
            return false;
        if ( again != path ) {
            fail( "equal hashes " + hex( canon ) + " follow different paths: " + path_text( path ) + " vs " + path_text( again ));
            return false;
        }
        return true;
    }

    inline size_t diverge_depth( Path const& a, Path const& b )
    {
        size_t i = 0;
        while ( i < a.size() && i < b.size() && a[i] == b[i] )
            ++i;
        return i + 1;   // head array = depth 1
    }

    // ---- generated hashes ---------------------------------------------------------------------
    struct PairIn {
        uint64_t h1, h2;
        unsigned pos;
    };
    inline PairIn gen_pair( unsigned bits, Op const& op, uint64_t seed )
    {
        uint64_t lm = low_mask( bits );
        uint64_t base = mix64( seed * 0x9e37 + 11 );
        uint64_t r = mix64( seed ^ ( uint64_t( uint32_t( op.b )) << 20 ) ^ 0x5bd1 );
        unsigned pfx = ( uint32_t( op.b ) >> 7 ) % ( bits + 1 );
        unsigned pos = unsigned( op.a ) % bits;
        PairIn p;
        p.pos = pos;
        p.h1 = (( base & low_mask( pfx )) | ( r & ~low_mask( pfx ))) & lm;
        p.h2 = p.h1 ^ ( uint64_t( 1 ) << pos );
        if ( op.b & 64 )
            p.h2 ^= mix64( r ) & ~low_mask( pos + 1 );
        p.h2 &= lm;
        return p;
    }
    // 2^w hashes sharing their first bits-w bits (consumption order) and differing in the last w
    inline void gen_bulk( unsigned bits, Op const& op, uint64_t seed, std::vector<uint64_t>& out )
    {
        unsigned w = unsigned( op.a ) % 11;
        if ( w > bits )
            w = bits;
        uint64_t base = mix64( seed * 0x9e37 + 11 ) ^ ( mix64( uint32_t( op.b )) & ~low_mask( bits / 2 ));
        base &= low_mask( bits - w );
        out.clear();
        for ( uint64_t i = 0; i < ( uint64_t( 1 ) << w ); ++i )
            out.push_back( w == 0 ? base : ( base | ( i << ( bits - w ))));
    }

    uint64_t input_hash( Case const& c )
    {
        uint64_t h = hash_mix( 0x28, uint64_t( c.variant ));
        h = hash_mix( h, c.seed );
        for ( int v : c.cfg )
            h = hash_mix( h, uint64_t( uint32_t( v )));
        if ( !c.prog.empty())
            for ( Op const& op : c.prog[0] )
                h = hash_mix( h, ( uint64_t( op.code ) << 56 ) ^ ( uint64_t( uint32_t( op.a )) << 32 ) ^ uint64_t( uint32_t( op.b )));
        return h;
    }

    std::vector<Op> const& ops_of( Case const& c )
    {
        static const std::vector<Op> empty;
        return c.prog.empty() ? empty : c.prog[0];
    }

    // ---- pure layer ----------------------------------------------------------------------------
    template <typename K>
    void pure_body( Case const& c, Config const& cf, bool wide, bool& nontrivial, bool& reject )
    {
        PROGRESS( "metrics::make( " + cfg_text( cf, unsigned( K::hash_bytes )) + " )" );
        metrics m = metrics::make( cf.head, cf.array, K::hash_bytes );
        if ( !check_metrics( m, cf, K::bits, unsigned( K::hash_bytes )))
            return;
        unsigned hl = unsigned( m.head_node_size_log ), al = unsigned( m.array_node_size_log );
        // the multilevel_array constructor asserts exactly this
        if ( !K::splitter::is_correct( hl ) || !K::splitter::is_correct( al )) {
            reject = true;
            return;
        }
        if ( !wide && ( hl > K::zone || ( hl < K::bits && al > K::zone ))) {
            // cut width the splitter is known to get wrong: left to the wide_* variants
            note_class( "wide_excluded" );
            return;
        }
        note_class( cf.raw ? "cfg_raw" : "cfg_constructed" );
        unsigned deep = 0;
        Path p1, p2;
        for ( Op const& op : ops_of( c )) {
            if ( failed())
                break;
            switch ( op.code ) {
            case OP_PAIR: {
                PairIn in = gen_pair( K::bits, op, c.seed );
                if ( !stable_path<K>( in.h1, mix64( in.h1 ), m, p1 ) || !stable_path<K>( in.h2, mix64( in.h2 ) + 1, m, p2 ))
                    break;
                if ( p1 == p2 ) {
                    fail( "distinct hashes " + hex( in.h1 ) + " and " + hex( in.h2 ) + " (first difference at bit " + std::to_string( in.pos ) + ") have the same slot path "
                          + path_text( p1 ) + " [" + cfg_text( cf, unsigned( K::hash_bytes )) + ", head_log " + std::to_string( hl ) + ", array_log " + std::to_string( al ) + "]" );
                    break;
                }
                if ( diverge_depth( p1, p2 ) >= 3 )
                    ++deep;
                break;
            }
            case OP_SAME: {
                uint64_t h = mix64( c.seed ^ ( uint64_t( uint32_t( op.b )) << 17 )) & low_mask( K::bits );
                stable_path<K>( h, uint64_t( uint32_t( op.b )), m, p1 );
                break;
            }
            default: {
                std::vector<uint64_t> hs;
                gen_bulk( K::bits, op, c.seed, hs );
                std::map<Path, uint64_t> seen;
                size_t maxd = 0;
                for ( size_t i = 0; i < hs.size(); ++i ) {
                    uint64_t h = hs[i];
                    if ( !stable_path<K>( h, mix64( h ), m, p1 ))
                        break;
                    auto ins = seen.insert( { p1, h } );
                    if ( !ins.second ) {
                        fail( "distinct hashes " + hex( ins.first->second ) + " and " + hex( h ) + " have the same slot path " + path_text( p1 ) + " [" + cfg_text( cf, unsigned( K::hash_bytes ))
                              + ", head_log " + std::to_string( hl ) + ", array_log " + std::to_string( al ) + "]" );
                        break;
                    }
                    if ( i > 0 )
                        maxd = std::max( maxd, diverge_depth( p1, p2 ));
                    p2 = p1;
                }
                if ( maxd >= 3 )
                    ++deep;
                note_class( "bulk_hashes", hs.size());
                break;
            }
            }
        }
        if ( deep )
            note_class( "deep_divergence", deep );
        nontrivial = deep > 0;
    }

    template <typename K>
    Verdict run_pure( Case const& c )
    {
        lib_init();
        case_reset();
        bool nontrivial = false, reject = false;
        pure_body<K>( c, pure_config<K>( c ), false, nontrivial, reject );
        Verdict v = finish( SchedStats(), input_hash( c ), nontrivial );
        if ( reject && v.kind != V_FAIL )
            v.kind = V_REJECT;
        return v;
    }

    template <typename K>
    Verdict run_wide( Case const& c )
    {
        lib_init();
        case_reset();
        Config cf = wide_config<K>( c );
        Report rep = run_in_child( [&c, &cf]( bool& nontrivial, bool& reject ) {
            case_reset();
            pure_body<K>( c, cf, true, nontrivial, reject );
        } );
        for ( auto const& kv : rep.classes )
            note_class( kv.first.c_str(), kv.second );
        if ( rep.infra )
            note_class( "isolation_inconclusive" );
        else if ( !rep.ended )
            fail( rep.progress + " did not return: " + rep.diag + " [" + cfg_text( cf, unsigned( K::hash_bytes )) + "]" );
        else if ( rep.failed )
            fail( rep.msg );
        Verdict v = finish( SchedStats(), input_hash( c ), rep.nontrivial );
        if ( rep.reject && v.kind != V_FAIL )
            v.kind = V_REJECT;
        return v;
    }

    // ---- container layer -----------------------------------------------------------------------
    template <typename K>
    Verdict run_cont( Case const& c )
    {
        typedef typename K::set_type set_type;
        typedef typename K::value_type value_type;
        lib_init();
        case_reset();
        Config cf;
        cf.head = unsigned( cfg_at<int>( c, 0, 8 )) % 9;
        cf.array = unsigned( cfg_at<int>( c, 1, 4 )) % 7;
        metrics m = metrics::make( cf.head, cf.array, K::hash_bytes );
        unsigned hl = unsigned( m.head_node_size_log ), al = unsigned( m.array_node_size_log );
        if ( !check_metrics( m, cf, K::bits, unsigned( K::hash_bytes )))
            return finish( SchedStats(), input_hash( c ), false );
        if ( !K::splitter::is_correct( hl ) || !K::splitter::is_correct( al ) || hl > 14 ) {
            Verdict v = finish( SchedStats(), input_hash( c ), false );
            v.kind = V_REJECT;
            return v;
        }
        std::string ctx = " [FeldmanHashSet( " + std::to_string( cf.head ) + ", " + std::to_string( cf.array ) + " ), hash bits " + std::to_string( K::bits ) + ", head_log "
                          + std::to_string( hl ) + ", array_log " + std::to_string( al ) + "]";
        unsigned deep = 0;
        size_t max_levels = 0;
        {
            HpSingleton hp( set_type::c_nHazardPtrCount + 2, 1, 16 );
            Attach attach;
            {
                set_type s( cf.head, cf.array );
                std::map<uint64_t, uint32_t> model;
                uint32_t next_tag = 1;
                if ( s.head_size() != m.head_node_size || s.array_node_size() != m.array_node_size )
                    fail( "container head_size()/array_node_size() differ from metrics::make" + ctx );

                auto lookup = [&]( uint64_t h, const char* when ) {
                    auto it = model.find( h );
                    typename K::hash_type key = K::make( h, mix64( h ) + 7 );
                    bool got = s.contains( key );
                    if ( got != ( it != model.end())) {
                        fail( std::string( "contains(" ) + hex( h ) + ") = " + ( got ? "true" : "false" ) + " " + when + ", model says " + ( got ? "absent" : "present" ) + ctx );
                        return;
                    }
                    if ( it != model.end()) {
                        uint32_t tag = 0;
                        bool f = s.find( key, [&tag]( value_type& v ) { tag = v.tag; } );
                        if ( !f || tag != it->second )
                            fail( "find(" + hex( h ) + ") " + when + ( f ? " returned another item" : " failed" ) + ctx );
                    }
                };
                auto insert = [&]( uint64_t h ) {
                    bool expect = model.find( h ) == model.end();
                    value_type v{ K::make( h, mix64( h ) * 3 ), next_tag };
                    bool ok = s.insert( v );
                    if ( ok != expect ) {
                        fail( "insert(" + hex( h ) + ") = " + ( ok ? "true" : "false" ) + " but the hash is " + ( expect ? "not present" : "already present" ) + " (size " + std::to_string( model.size())
                              + ")" + ctx );
                        return;
                    }
                    if ( ok )
                        model[h] = next_tag++;
                    if ( s.size() != model.size())
                        fail( "size() = " + std::to_string( s.size()) + " after insert(" + hex( h ) + "), model has " + std::to_string( model.size()) + ctx );
                };

                for ( Op const& op : ops_of( c )) {
                    if ( failed())
                        break;
                    switch ( op.code ) {
                    case OP_PAIR: {
                        PairIn in = gen_pair( K::bits, op, c.seed );
                        lookup( in.h1, "before insert" );
                        insert( in.h1 );
                        lookup( in.h2, "before insert of the sibling" );
                        insert( in.h2 );
                        lookup( in.h1, "after insert of the sibling" );
                        lookup( in.h2, "after insert" );
                        insert( in.h1 );    // present: must fail
                        insert( in.h2 );
                        // depth at which the two hashes part: first differing bit -> level
                        unsigned d = in.pos < hl ? 1 : 2 + ( in.pos - hl ) / al;
                        if ( d >= 3 )
                            ++deep;
                        break;
                    }
                    case OP_SAME: {
                        uint64_t h = mix64( c.seed ^ ( uint64_t( uint32_t( op.b )) << 17 )) & low_mask( K::bits );
                        insert( h );
                        insert( h );
                        lookup( h, "after double insert" );
                        break;
                    }
                    default: {
                        std::vector<uint64_t> hs;
                        gen_bulk( K::bits, op, c.seed, hs );
                        for ( uint64_t h : hs ) {
                            insert( h );
                            if ( failed())
                                break;
                        }
                        for ( size_t i = 0; i < hs.size() && !failed(); i += 1 + hs.size() / 16 )
                            lookup( hs[i], "after bulk insert" );
                        // hs[0] and hs[size/2] differ in the last hash bit only: they part in the deepest level
                        if ( hs.size() > 1 && 1 + ( K::bits - hl ) / al >= 3 )
                            ++deep;
                        note_class( "bulk_hashes", hs.size());
                        break;
                    }
                    }
                }
                // quiescent: every model entry is found, nothing else is counted
                if ( !failed()) {
                    for ( auto const& kv : model ) {
                        lookup( kv.first, "at the end" );
                        if ( failed())
                            break;
                    }
                }
                if ( !failed()) {
                    if ( s.size() != model.size() || s.empty() != model.empty())
                        fail( "size()/empty() disagree with the model at the end: size " + std::to_string( s.size()) + " vs " + std::to_string( model.size()) + ctx );
                    std::vector<cc::feldman_hashset::level_statistics> st;
                    s.get_level_statistics( st );
                    max_levels = st.size();
                    size_t cells = 0;
                    for ( auto const& l : st )
                        cells += l.data_cell_count;
                    size_t depth = 1 + ( K::bits - hl ) / al;
                    if ( st.size() > depth )
                        fail( "tree has " + std::to_string( st.size()) + " levels, the layout allows " + std::to_string( depth ) + ctx );
                    else if ( cells != model.size())
                        fail( "level statistics count " + std::to_string( cells ) + " data cells, model has " + std::to_string( model.size()) + ctx );
                }
            }
        }
        if ( deep )
            note_class( "deep_divergence", deep );
        note_class( "levels", max_levels );
        return finish( SchedStats(), input_hash( c ), deep > 0 && max_levels >= 3 );
    }

    struct Variant {
        const char* name;
        Verdict (*run)( Case const& );
    };
    const Variant kVariants[] = {
        { "pure_u8", run_pure<K_u8> },
        { "pure_u16", run_pure<K_u16> },
        { "pure_u32", run_pure<K_u32> },
        { "pure_u64", run_pure<K_u64> },
        { "pure_b2", run_pure<K_b2> },
        { "pure_b4", run_pure<K_b4> },
        { "pure_b8", run_pure<K_b8> },
        { "pure_u64hs4", run_pure<K_u64hs4> },
        { "cont_u8", run_cont<K_u8> },
        { "cont_u16", run_cont<K_u16> },
        { "cont_u32", run_cont<K_u32> },
        { "cont_u64", run_cont<K_u64> },
        { "cont_b4", run_cont<K_b4> },
        { "cont_b8", run_cont<K_b8> },
        { "cont_u64hs4", run_cont<K_u64hs4> },
        { "wide_u64", run_wide<K_u64> },
        // no wide_b8: split_bitstring documents "the maximum count of bits that can be cut in a single call is
        // sizeof(UInt)*8" = 32, so a head width of 33+ bits over a byte-array hash is outside the splitter's contract
        // (and needs a 2^33-slot head array) although hash_splitter::is_correct() does not reject it. pure_b8 counts
        // such configurations as wide_excluded. run_wide<K_b8> reproduces the UBSan report if wanted.
    };
    const size_t kNumVariants = sizeof( kVariants ) / sizeof( kVariants[0] );
}

namespace cdsverif {
    Schema const& harness_schema()
    {
        static Schema s = []() {
            Schema x;
            x.name = "pure_feldman";
            for ( size_t i = 0; i < kNumVariants; ++i )
                x.variants.push_back( kVariants[i].name );
            // mapped per variant onto the head/array widths of the hash kind (see pure_config / wide_config / run_cont)
            x.cfg = { { "head_sel", 0, 64 }, { "array_sel", 0, 16 } };
            // pair: a = position of the first differing bit (mod hash bits), b = hash seed (bit 6: noise above the bit; bits 7..: shared-prefix length)
            // same: the same hash twice; bulk: 2^(a mod 11) hashes that differ in their last bits only
            x.ops = { { "pair", 8, 63, 1 << 30 }, { "same", 1, 0, 1 << 30 }, { "bulk", 2, 10, 1 << 30 } };
            x.sequential = true;
            x.min_threads = 1;
            x.max_threads_quick = 1;
            x.max_threads_thorough = 1;
            x.max_ops_quick = 16;
            x.max_ops_thorough = 32;
            x.max_preempt_quick = 0;
            x.max_preempt_thorough = 0;
            x.nontrivial_rule = ">=1 pair/bulk of distinct hashes whose slot paths part at depth >= 3 (head array = depth 1), i.e. after at least two array-node levels were addressed; "
                                "container layer: additionally the tree really grew to >= 3 levels";
            return x;
        }();
        return s;
    }

    Verdict run_case( Case const& c )
    {
        size_t v = size_t( c.variant ) < kNumVariants ? size_t( c.variant ) : 0;
        return kVariants[v].run( c );
    }
}
