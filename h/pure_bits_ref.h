// C25 (pure_bits): library headers under test, second copies of two headers, naive reference
// implementations and the value checks (bit reversal, bitop, int_algo).
#ifndef CDSVERIF_H_PURE_BITS_REF_H
#define CDSVERIF_H_PURE_BITS_REF_H

#include <cassert>
#include <cstdint>
#include <cstdio>
#include <cstdlib>
#include <cstring>
#include <string>
#include <type_traits>
#include <vector>

#include "case.h"
#include "stats.h"

#include <cds/algo/bit_reversal.h>
#include <cds/algo/bitop.h>
#include <cds/algo/int_algo.h>
#include <cds/algo/split_bitstring.h>

// ---- second copy of the generic (portable C) bitop fallbacks ---------------------------------
// cds/compiler/gcc/amd64/bitop.h defines cds_bitop_<fn>_DEFINED for the functions it implements
// with inline asm, which removes the generic versions from cds::bitop::platform. Compile them
// again into pb_generic::cds::bitop::platform so that the fallbacks are checked as well.
#undef cds_bitop_isPow2_32_DEFINED
#undef cds_bitop_isPow2_64_DEFINED
#undef cds_bitop_msb32_DEFINED
#undef cds_bitop_msb32nz_DEFINED
#undef cds_bitop_msb64_DEFINED
#undef cds_bitop_msb64nz_DEFINED
#undef cds_bitop_lsb32_DEFINED
#undef cds_bitop_lsb32nz_DEFINED
#undef cds_bitop_lsb64_DEFINED
#undef cds_bitop_lsb64nz_DEFINED
#undef cds_bitop_rbo32_DEFINED
#undef cds_bitop_rbo64_DEFINED
#undef cds_bitop_sbc32_DEFINED
#undef cds_bitop_sbc64_DEFINED
#undef cds_bitop_zbc32_DEFINED
#undef cds_bitop_zbc64_DEFINED
#undef cds_bitop_complement32_DEFINED
#undef cds_bitop_complement64_DEFINED
#undef CDSLIB_DETAILS_BITOP_GENERIC_H
namespace pb_generic {
#include <cds/details/bitop_generic.h>
}

// ---- second copy of the splitters compiled WITHOUT UBSan -----------------------------------
// Used only by the op "numsplit_wide": number_splitter::cut builds its mask in int, which is UB
// for wide cuts. The uninstrumented copy lets the harness compare the delivered value with the
// reference (and report a readable failure) before the instrumented original is called.
#undef CDSLIB_ALGO_SPLIT_BITSTRING_H
#pragma clang attribute push( __attribute__(( no_sanitize( "undefined" ))), apply_to = function )
namespace pb_nosan {
#include <cds/algo/split_bitstring.h>
}
#pragma clang attribute pop

namespace pb {
    using namespace cdsverif;
    namespace gen = pb_generic::cds::bitop::platform;
    namespace br = cds::algo::bit_reversal;

    // set by every reported mismatch; lets hot loops test a plain static instead of failed()
    static bool g_bad = false;

    __attribute__(( noinline, cold )) static void mismatch( const char* what, uint64_t x, uint64_t got, uint64_t want )
    {
        char buf[320];
        snprintf( buf, sizeof( buf ), "%s: input 0x%llx: returned 0x%llx, expected 0x%llx", what, (unsigned long long) x,
            (unsigned long long) got, (unsigned long long) want );
        g_bad = true;
        fail( buf );
    }

#define PB_EXPECT( what, x, got, want )                                                           \
    do {                                                                                          \
        uint64_t g_ = uint64_t( got ), w_ = uint64_t( want );                                     \
        if ( __builtin_expect( g_ != w_, 0 ))                                                     \
            ::pb::mismatch( what, uint64_t( x ), g_, w_ );                                        \
    } while ( 0 )

    // ---- naive references (bit loops) ---------------------------------------------------------
    static inline uint8_t ref_rev8( uint8_t x )
    {
        uint8_t r = 0;
        for ( int i = 0; i < 8; ++i )
            if (( x >> i ) & 1 )
                r = uint8_t( r | ( 1u << ( 7 - i )));
        return r;
    }
    static inline uint32_t ref_rev32( uint32_t x )
    {
        uint32_t r = 0;
        for ( int i = 0; i < 32; ++i )
            if (( x >> i ) & 1 )
                r |= uint32_t( 1 ) << ( 31 - i );
        return r;
    }
    static inline uint64_t ref_rev64( uint64_t x )
    {
        uint64_t r = 0;
        for ( int i = 0; i < 64; ++i )
            if (( x >> i ) & 1 )
                r |= uint64_t( 1 ) << ( 63 - i );
        return r;
    }
    // 1-based number of the most / least significant set bit, 0 for x == 0
    static inline int ref_msb( uint64_t x )
    {
        for ( int i = 63; i >= 0; --i )
            if (( x >> i ) & 1 )
                return i + 1;
        return 0;
    }
    static inline int ref_msb32( uint32_t x )
    {
        for ( int i = 31; i >= 0; --i )
            if (( x >> i ) & 1 )
                return i + 1;
        return 0;
    }
    static inline int ref_lsb( uint64_t x )
    {
        for ( int i = 0; i < 64; ++i )
            if (( x >> i ) & 1 )
                return i + 1;
        return 0;
    }
    static inline int ref_sbc( uint64_t x )
    {
        int n = 0;
        for ( int i = 0; i < 64; ++i )
            n += int(( x >> i ) & 1 );
        return n;
    }

    // ---- bit reversal ----------------------------------------------------------------------------
    // r = reference reversal of x
    static inline __attribute__(( always_inline )) void check_rev32( uint32_t x, uint32_t r )
    {
        uint32_t s = br::swar()( x ), l = br::lookup()( x ), m = br::muldiv()( x );
        uint32_t m32 = br::muldiv::muldiv32( x ), m64 = br::muldiv::muldiv64( x );
        PB_EXPECT( "bit_reversal::swar(uint32_t)", x, s, r );
        PB_EXPECT( "bit_reversal::lookup(uint32_t)", x, l, r );
        PB_EXPECT( "bit_reversal::muldiv(uint32_t)", x, m, r );
        PB_EXPECT( "bit_reversal::muldiv::muldiv32(uint32_t)", x, m32, r );
        PB_EXPECT( "bit_reversal::muldiv::muldiv64(uint32_t)", x, m64, r );
        if ( __builtin_expect( s != l || l != m, 0 ))
            mismatch( "bit_reversal: swar/lookup/muldiv disagree on a 32-bit input (got=swar, expected=lookup)", x, s, l );
        PB_EXPECT( "involution swar(swar(x)) 32-bit", x, br::swar()( s ), x );
        PB_EXPECT( "involution lookup(lookup(x)) 32-bit", x, br::lookup()( l ), x );
        PB_EXPECT( "involution muldiv(muldiv(x)) 32-bit", x, br::muldiv()( m ), x );
        PB_EXPECT( "involution muldiv32(muldiv32(x)) 32-bit", x, br::muldiv::muldiv32( m32 ), x );
        PB_EXPECT( "involution muldiv64(muldiv64(x)) 32-bit", x, br::muldiv::muldiv64( m64 ), x );
    }

    static inline void check_rev64( uint64_t x, uint64_t r )
    {
        uint64_t s = br::swar()( x ), l = br::lookup()( x ), m = br::muldiv()( x );
        uint64_t m32 = br::muldiv::muldiv32( x ), m64 = br::muldiv::muldiv64( x );
        PB_EXPECT( "bit_reversal::swar(uint64_t)", x, s, r );
        PB_EXPECT( "bit_reversal::lookup(uint64_t)", x, l, r );
        PB_EXPECT( "bit_reversal::muldiv(uint64_t)", x, m, r );
        PB_EXPECT( "bit_reversal::muldiv::muldiv32(uint64_t)", x, m32, r );
        PB_EXPECT( "bit_reversal::muldiv::muldiv64(uint64_t)", x, m64, r );
        if ( s != l || l != m )
            mismatch( "bit_reversal: swar/lookup/muldiv disagree on a 64-bit input (got=swar, expected=lookup)", x, s, l );
        PB_EXPECT( "involution swar(swar(x)) 64-bit", x, br::swar()( s ), x );
        PB_EXPECT( "involution lookup(lookup(x)) 64-bit", x, br::lookup()( l ), x );
        PB_EXPECT( "involution muldiv(muldiv(x)) 64-bit", x, br::muldiv()( m ), x );
        PB_EXPECT( "involution muldiv32(muldiv32(x)) 64-bit", x, br::muldiv::muldiv32( m32 ), x );
        PB_EXPECT( "involution muldiv64(muldiv64(x)) 64-bit", x, br::muldiv::muldiv64( m64 ), x );
    }

    // ---- cds::bitop templates ---------------------------------------------------------------------
    // T is a 4- or 8-byte integer type (signed or unsigned); ux = bit pattern; msb/lsb 1-based refs
    template <typename T, typename U>
    static inline __attribute__(( always_inline )) void check_bitop_T( U ux, int msb, int lsb, int sbc, U rev, int bit, const char* const* nm )
    {
        const int bits = int( sizeof( T ) * 8 );
        T x = T( ux );
        PB_EXPECT( nm[0], ux, cds::bitop::MSB( x ), msb );
        PB_EXPECT( nm[1], ux, cds::bitop::LSB( x ), lsb );
        PB_EXPECT( nm[2], ux, cds::bitop::SBC( x ), sbc );
        PB_EXPECT( nm[3], ux, cds::bitop::ZBC( x ), bits - sbc );
        PB_EXPECT( nm[4], ux, U( cds::bitop::RBO( x )), rev );
        if ( ux != 0 ) {
            PB_EXPECT( nm[5], ux, cds::bitop::MSBnz( x ), msb - 1 );
            PB_EXPECT( nm[6], ux, cds::bitop::LSBnz( x ), lsb - 1 );
        }
        T y = x;
        bool was = cds::bitop::complement( y, bit );
        PB_EXPECT( nm[7], ux, U( y ), ux ^ ( U( 1 ) << bit ));
        PB_EXPECT( nm[8], ux, was, ( ux >> bit ) & 1 );
    }

#define PB_NAMES( T )                                                                                          \
    { "bitop::MSB<" T ">", "bitop::LSB<" T ">", "bitop::SBC<" T ">", "bitop::ZBC<" T ">", "bitop::RBO<" T ">",    \
        "bitop::MSBnz<" T ">", "bitop::LSBnz<" T ">", "bitop::complement<" T "> (value after flipping the bit)", \
        "bitop::complement<" T "> (returned previous state of the bit)" }
    static const char* const kNmU32[] = PB_NAMES( "uint32_t" );
    static const char* const kNmI32[] = PB_NAMES( "int32_t" );
    static const char* const kNmU64[] = PB_NAMES( "uint64_t" );
    static const char* const kNmI64[] = PB_NAMES( "int64_t" );
    static const char* const kNmULL[] = PB_NAMES( "unsigned long long" );

    static inline __attribute__(( always_inline )) void check_bitop32( uint32_t x, int msb, int lsb, int sbc, uint32_t rev, int bit )
    {
        check_bitop_T<uint32_t, uint32_t>( x, msb, lsb, sbc, rev, bit, kNmU32 );
        check_bitop_T<int32_t, uint32_t>( x, msb, lsb, sbc, rev, bit, kNmI32 );
        // generic fallbacks
        PB_EXPECT( "generic msb32", x, gen::msb32( x ), msb );
        PB_EXPECT( "generic lsb32", x, gen::lsb32( x ), lsb );
        PB_EXPECT( "generic sbc32", x, gen::sbc32( x ), sbc );
        PB_EXPECT( "generic zbc32", x, gen::zbc32( x ), 32 - sbc );
        PB_EXPECT( "generic rbo32", x, gen::rbo32( x ), rev );
        PB_EXPECT( "generic isPow2_32", x, gen::isPow2_32( x ), sbc == 1 );
        PB_EXPECT( "platform isPow2_32", x, cds::bitop::platform::isPow2_32( x ), sbc == 1 );
        if ( x != 0 ) {
            PB_EXPECT( "generic msb32nz", x, gen::msb32nz( x ), msb - 1 );
            PB_EXPECT( "generic lsb32nz", x, gen::lsb32nz( x ), lsb - 1 );
        }
        uint32_t y = x;
        bool was = gen::complement32( &y, unsigned( bit ));
        PB_EXPECT( "generic complement32 (value)", x, y, x ^ ( uint32_t( 1 ) << bit ));
        PB_EXPECT( "generic complement32 (returned previous state)", x, was, ( x >> bit ) & 1 );
    }

    static inline void check_bitop64( uint64_t x, int msb, int lsb, int sbc, uint64_t rev, int bit )
    {
        check_bitop_T<uint64_t, uint64_t>( x, msb, lsb, sbc, rev, bit, kNmU64 );
        check_bitop_T<int64_t, uint64_t>( x, msb, lsb, sbc, rev, bit, kNmI64 );
        check_bitop_T<unsigned long long, uint64_t>( x, msb, lsb, sbc, rev, bit, kNmULL );
        PB_EXPECT( "generic msb64", x, gen::msb64( x ), msb );
        PB_EXPECT( "generic lsb64", x, gen::lsb64( x ), lsb );
        PB_EXPECT( "generic sbc64", x, gen::sbc64( x ), sbc );
        PB_EXPECT( "generic zbc64", x, gen::zbc64( x ), 64 - sbc );
        PB_EXPECT( "generic rbo64", x, gen::rbo64( x ), rev );
        PB_EXPECT( "generic isPow2_64", x, gen::isPow2_64( x ), sbc == 1 );
        PB_EXPECT( "platform isPow2_64", x, cds::bitop::platform::isPow2_64( x ), sbc == 1 );
        if ( x != 0 ) {
            PB_EXPECT( "generic msb64nz", x, gen::msb64nz( x ), msb - 1 );
            PB_EXPECT( "generic lsb64nz", x, gen::lsb64nz( x ), lsb - 1 );
        }
        uint64_t y = x;
        bool was = gen::complement64( &y, unsigned( bit ));
        PB_EXPECT( "generic complement64 (value)", x, y, x ^ ( uint64_t( 1 ) << bit ));
        PB_EXPECT( "generic complement64 (returned previous state)", x, was, ( x >> bit ) & 1 );
    }

    // ---- cds::beans (int_algo.h) -------------------------------------------------------------------
    static_assert( sizeof( size_t ) == 8, "harness assumes a 64-bit build" );
    static_assert( cds::beans::is_power2( 1 ) && cds::beans::is_power2( size_t( 1 ) << 63 ) && !cds::beans::is_power2( 0 ) && !cds::beans::is_power2( 6 ),
        "constexpr is_power2" );

    // msb = 1-based reference MSB of n, sbc = reference popcount
    static inline __attribute__(( always_inline )) void check_intalgo( size_t n, int msb, int sbc )
    {
        namespace bn = cds::beans;
        typedef unsigned __int128 u128;
        const bool p2 = sbc == 1;
        PB_EXPECT( "beans::is_power2", n, bn::is_power2( n ), p2 );
        PB_EXPECT( "beans::log2 (log2 n for a power of two, otherwise 0)", n, bn::log2( n ), p2 ? msb - 1 : 0 );
        if ( n == 0 ) {
            // documented: floor2(0) == 1, ceil2(0) == 1; log2floor(0)/log2ceil(0) have no documented value
            PB_EXPECT( "beans::floor2(0) (documented as 1)", n, bn::floor2( n ), 1 );
            PB_EXPECT( "beans::ceil2(0) (documented as 1)", n, bn::ceil2( n ), 1 );
            (void) bn::log2floor( n );
            (void) bn::log2ceil( n );
            return;
        }
        size_t lf = bn::log2floor( n ), lc = bn::log2ceil( n );
        PB_EXPECT( "beans::log2floor", n, lf, msb - 1 );
        // definition: 2^lf <= n < 2^(lf+1)
        if ( __builtin_expect( lf > 63 || !((( u128( 1 ) << lf ) <= n ) && ( n < ( u128( 1 ) << ( lf + 1 )))), 0 ))
            mismatch( "beans::log2floor violates 2^r <= n < 2^(r+1)", n, lf, uint64_t( msb - 1 ));
        // definition: 2^(lc-1) < n <= 2^lc
        const size_t want_lc = size_t( p2 ? msb - 1 : msb );
        PB_EXPECT( "beans::log2ceil", n, lc, want_lc );
        if ( __builtin_expect( lc > 64 || !(( n <= ( u128( 1 ) << lc )) && ( lc == 0 || ( u128( 1 ) << ( lc - 1 )) < n )), 0 ))
            mismatch( "beans::log2ceil violates 2^(r-1) < n <= 2^r", n, lc, want_lc );
        PB_EXPECT( "beans::floor2", n, bn::floor2( n ), size_t( 1 ) << ( msb - 1 ));
        if ( n <= ( size_t( 1 ) << 63 ))       // ceil2 is not representable above 2^63
            PB_EXPECT( "beans::ceil2", n, bn::ceil2( n ), size_t( 1 ) << want_lc );
    }

    // all value families on one 32-bit input, references supplied by the caller
    static inline __attribute__(( always_inline )) void check_all32( uint32_t x, uint32_t rev, int msb, int lsb, int sbc, int bit )
    {
        check_rev32( x, rev );
        check_bitop32( x, msb, lsb, sbc, rev, bit );
        check_intalgo( size_t( x ), msb, sbc );
    }

    static inline uint64_t splitmix( uint64_t& s )
    {
        s += 0x9e3779b97f4a7c15ull;
        uint64_t z = s;
        z = ( z ^ ( z >> 30 )) * 0xbf58476d1ce4e5b9ull;
        z = ( z ^ ( z >> 27 )) * 0x94d049bb133111ebull;
        return z ^ ( z >> 31 );
    }
} // namespace pb

#endif
