// C07: VyukovMPMCCycleQueue (container and intrusive, MPMC and single-consumer flavour) is a
// linearizable bounded FIFO: FifoModel{capacity}; enqueue fails only on a full queue, dequeue only
// on an empty one. Static / dynamic, initialized / uninitialized buffers, capacity 2/4/8, a
// sequential prefix that makes the positions wrap before the concurrent part starts.
#include "common.h"

#include <deque>

#include <cds/container/vyukov_mpmc_cycle_queue.h>
#include <cds/intrusive/vyukov_mpmc_cycle_queue.h>

namespace hv {
    Registry& registry()
    {
        static Registry r;
        return r;
    }
    Graveyard& graveyard()
    {
        static Graveyard g;
        return g;
    }
}

using namespace hv;
namespace cc = cds::container;
namespace ci = cds::intrusive;

namespace {

    const char* const kOpNames[] = { "enq", "deq", "?", "?", "?", "?", "front" };

    // ---- value types ----------------------------------------------------------------------
    // Non-trivial value: counts constructions / destructions (the queue constructs an item with
    // placement new in a free cell and the value_cleaner destroys it after it was dequeued)
    struct Tracked {
        static constexpr uint32_t kMagic = 0x7ac4ed01u;
        static int live;
        static int bad;
        int v;
        uint32_t magic;
        Tracked() : v( -7 ), magic( kMagic ) { ++live; }
        // copying is client code that runs inside the queue operation: make it a scheduling point
        Tracked( int x ) : v( x ), magic( kMagic )
        {
            cdsverif::point();
            ++live;
        }
        Tracked( Tracked const& o ) : magic( kMagic )
        {
            cdsverif::point();
            v = o.v;
            if ( o.magic != kMagic )
                ++bad;
            ++live;
        }
        Tracked( Tracked&& o ) noexcept : magic( kMagic )
        {
            cdsverif::point();
            v = o.v;
            if ( o.magic != kMagic )
                ++bad;
            ++live;
        }
        Tracked& operator=( Tracked const& o )
        {
            cdsverif::point();
            if ( o.magic != kMagic || magic != kMagic )
                ++bad;
            v = o.v;
            return *this;
        }
        Tracked& operator=( Tracked&& o ) noexcept
        {
            cdsverif::point();
            if ( o.magic != kMagic || magic != kMagic )
                ++bad;
            v = o.v;
            return *this;
        }
        ~Tracked()
        {
            if ( magic != kMagic )
                ++bad;      // destroying something that is not a live object
            magic = 0;
            --live;
        }
    };
    int Tracked::live = 0;
    int Tracked::bad = 0;

    inline int as_int( int v ) { return v; }
    inline int as_int( Tracked const& t ) { return t.magic == Tracked::kMagic ? t.v : -99; }

    // ---- container adapter ----------------------------------------------------------------
    template <typename Q, typename V>
    struct ValQ {
        static constexpr bool kSingleConsumer = Q::c_single_consumer;
        static constexpr bool kIntrusive = false;
        static constexpr bool kTracked = std::is_same<V, Tracked>::value;
        Q q;
        explicit ValQ( size_t cap ) : q( cap ) {}
        size_t capacity() const { return q.capacity(); }

        bool enq( int v, int how )
        {
            switch ( how & 3 ) {
            case 0: {
                V x( v );
                return q.enqueue( x );
            }
            case 1:
                return q.push( V( v ));
            case 2:
                return q.emplace( v );
            default:
                return q.enqueue_with( [v]( V& dest ) {
                    cdsverif::point();      // the copy functor is client code
                    new ( &dest ) V( v );
                } );
            }
        }
        int deq( int how )
        {
            V x( -1 );
            switch ( how % 3 ) {
            case 0:
                return q.dequeue( x ) ? as_int( x ) : -1;
            case 1:
                return q.pop( x ) ? as_int( x ) : -1;
            default: {
                int r = -1;
                return q.dequeue_with( [&r]( V& src ) {
                    cdsverif::point();
                    r = as_int( src );
                } ) ? r : -1;
            }
            }
        }
        // single-consumer API
        template <typename QQ = Q>
        typename std::enable_if<QQ::c_single_consumer, int>::type front()
        {
            V* p = q.front();
            return p ? as_int( *p ) : -1;
        }
        template <typename QQ = Q>
        typename std::enable_if<!QQ::c_single_consumer, int>::type front() { return -1; }
        template <typename QQ = Q>
        typename std::enable_if<QQ::c_single_consumer, bool>::type pop_front() { return q.pop_front(); }
        template <typename QQ = Q>
        typename std::enable_if<!QQ::c_single_consumer, bool>::type pop_front() { return false; }

        bool counted_size( size_t& n ) const
        {
            n = q.size();
            return !std::is_same<typename Q::item_counter, cds::atomicity::empty_item_counter>::value;
        }
        bool empty() const { return q.empty(); }
        // drains the rest of the queue, recording the operations of thread 0
        size_t drain( History& hist, bool /*use_clear*/ )
        {
            size_t drained = 0;
            for ( ;; ) {
                size_t e = hist.begin( 0, Q_DEQ );
                int v = deq( int( drained ));
                hist.end( e, v );
                if ( v < 0 )
                    break;
                if ( ++drained > 64 ) {
                    fail( "drain does not terminate" );
                    break;
                }
            }
            return drained;
        }
    };

    // ---- intrusive adapter ------------------------------------------------------------------
    struct INode {
        int val;
        int taken;
        uint64_t canary;
    };
    struct ClearLog {
        std::vector<INode*> disposed;
    };
    ClearLog* g_clear_log = nullptr;
    unsigned g_disposer_calls = 0;
    struct clear_disposer {
        void operator()( INode* p ) const
        {
            ++g_disposer_calls;
            if ( g_clear_log )
                g_clear_log->disposed.push_back( p );
        }
    };

    template <typename Q>
    struct IntrQ {
        static constexpr bool kSingleConsumer = false;
        static constexpr bool kIntrusive = true;
        static constexpr bool kTracked = false;
        std::deque<INode> nodes;        // harness-owned storage, stable addresses; declared before the queue
        Q q;
        explicit IntrQ( size_t cap ) : q( cap ) { g_disposer_calls = 0; }
        size_t capacity() const { return q.capacity(); }

        bool enq( int v, int how )
        {
            nodes.push_back( INode{ v, 0, 0xc0ffeeull } );
            INode& n = nodes.back();
            return ( how & 1 ) ? q.push( n ) : q.enqueue( n );
        }
        int take( INode* p )
        {
            if ( !p )
                return -1;
            // a dequeued pointer is owned by the caller
            cdsverif::point();
            if ( p->canary != 0xc0ffeeull ) {
                fail( "dequeued intrusive node has a bad canary" );
                return -2;
            }
            if ( p->taken++ )
                fail( "intrusive node with value " + std::to_string( p->val ) + " was handed out twice" );
            return p->val;
        }
        int deq( int how ) { return take(( how & 1 ) ? q.pop() : q.dequeue()); }
        int front() { return -1; }
        bool pop_front() { return false; }
        bool counted_size( size_t& n ) const
        {
            n = q.size();
            return !std::is_same<typename Q::item_counter, cds::atomicity::empty_item_counter>::value;
        }
        bool empty() const { return q.empty(); }
        size_t drain( History& hist, bool use_clear )
        {
            if ( g_disposer_calls )
                fail( "the disposer was called by an operation other than clear()" );
            size_t drained = 0;
            if ( use_clear ) {
                // clear() == pop until empty, the disposer is called for every popped item: account
                // every disposed node as one dequeue of thread 0
                ClearLog log;
                g_clear_log = &log;
                q.clear();
                g_clear_log = nullptr;
                for ( INode* p : log.disposed ) {
                    Ev e;
                    e.thread = 0;
                    e.op = Q_DEQ;
                    e.inv = tick();
                    e.r = take( p );
                    e.resp = tick();
                    hist.ev.push_back( e );
                    ++drained;
                }
                note_class( "clear_used" );
            }
            for ( ;; ) {
                size_t e = hist.begin( 0, Q_DEQ );
                int v = deq( int( drained ));
                hist.end( e, v );
                if ( v < 0 )
                    break;
                if ( ++drained > 64 ) {
                    fail( "drain does not terminate" );
                    break;
                }
            }
            return drained;
        }
    };

    // ---- the case runner ------------------------------------------------------------------------
    template <typename Ad>
    Verdict run_vq_cap( Case const& c, size_t cap )
    {
        lib_init();
        case_reset();
        registry().reset();
        CaseRng::seed( c.seed );
        Tracked::live = 0;
        Tracked::bad = 0;
        History hist;
        SchedStats st;
        int rounds = cfg_at( c, 1, 0 );
        int prefill = cfg_at( c, 2, 0 );
        if ( prefill > int( cap ))
            prefill = int( cap );
        unsigned full_fail = 0, empty_fail = 0;
        size_t enq_ok_total = 0;
        {
            session_begin( sched_params( c ));
            {
                Attach main_attach;
                {
                    Ad ad( cap );
                    if ( ad.capacity() != cap )
                        fail( "capacity() is " + std::to_string( ad.capacity()) + ", expected " + std::to_string( cap ));
                    int next_val = 1;
                    // sequential prefix (not part of the history): k rounds of fill-to-capacity / drain, so
                    // that the positions wrap around the buffer k times; checked directly
                    for ( int r = 0; r < rounds && !failed(); ++r ) {
                        int first = next_val;
                        for ( size_t i = 0; i < cap; ++i ) {
                            if ( !ad.enq( next_val++, r + int( i )))
                                fail( "sequential prefix: enqueue failed on a queue that holds " + std::to_string( i ) + " < capacity items" );
                            ++enq_ok_total;
                        }
                        if ( ad.enq( next_val++, r ))
                            fail( "sequential prefix: enqueue succeeded on a full queue" );
                        if ( ad.empty())
                            fail( "sequential prefix: empty() is true on a full queue" );
                        for ( size_t i = 0; i < cap; ++i ) {
                            int v;
                            if ( Ad::kSingleConsumer && (( r + int( i )) & 1 )) {
                                v = ad.front();
                                if ( !ad.pop_front())
                                    fail( "sequential prefix: pop_front() failed on a non-empty queue" );
                            }
                            else
                                v = ad.deq( r + int( i ));
                            if ( v != first + int( i ))
                                fail( "sequential prefix: dequeued " + std::to_string( v ) + ", expected " + std::to_string( first + int( i )));
                        }
                        if ( ad.deq( r ) != -1 )
                            fail( "sequential prefix: dequeue succeeded on an empty queue" );
                        if ( !ad.empty())
                            fail( "sequential prefix: empty() is false on an empty queue" );
                    }
                    for ( int i = 0; i < prefill; ++i ) {
                        size_t e = hist.begin( 0, Q_ENQ, next_val );
                        bool ok = ad.enq( next_val, i );
                        hist.end( e, ok ? 1 : 0 );
                        if ( ok )
                            ++enq_ok_total;
                        ++next_val;
                    }
                    std::vector<std::function<void()>> bodies;
                    for ( size_t t = 0; t < c.prog.size(); ++t ) {
                        bodies.push_back( [&, t]() {
                            Attach a;
                            int th = int( t ) + 1;
                            for ( Op const& op : c.prog[t] ) {
                                // 0 enq, 1 deq, 2 front(), 3 front()+pop_front()
                                int what;
                                if ( Ad::kSingleConsumer ) {
                                    if ( t != 0 )
                                        what = 0;       // producers only enqueue
                                    else if ( op.code == 0 )
                                        what = 0;
                                    else if ( op.code == 1 )
                                        what = 3;
                                    else
                                        what = ( op.a & 1 ) ? 1 : 2;
                                }
                                else
                                    what = op.code == 2 ? ( op.a & 1 ) : op.code;
                                int how = op.code == 2 ? 2 + ( op.a >> 1 ) : op.a;
                                if ( what == 0 ) {
                                    int v = th * 1000 + ( next_val++ );
                                    size_t e = hist.begin( th, Q_ENQ, v );
                                    bool ok = ad.enq( v, how );
                                    hist.end( e, ok ? 1 : 0 );
                                    if ( ok )
                                        ++enq_ok_total;
                                    else
                                        ++full_fail;
                                }
                                else if ( what == 1 ) {
                                    size_t e = hist.begin( th, Q_DEQ );
                                    int v = ad.deq( how );
                                    hist.end( e, v );
                                    if ( v < 0 )
                                        ++empty_fail;
                                }
                                else {
                                    size_t e = hist.begin( th, Q_FRONT );
                                    int v = ad.front();
                                    hist.end( e, v );
                                    if ( v < 0 )
                                        ++empty_fail;
                                    else if ( what == 3 ) {
                                        cdsverif::point();
                                        size_t d = hist.begin( th, Q_DEQ );
                                        bool ok = ad.pop_front();
                                        // pop_front() removes the item front() has just returned
                                        hist.end( d, ok ? v : -1 );
                                        note_class( "front_pop" );
                                    }
                                }
                            }
                        } );
                    }
                    run_threads( bodies );
                    // quiescent checks
                    size_t sz = 0;
                    bool counted = ad.counted_size( sz );
                    bool was_empty = ad.empty();
                    size_t drained = ad.drain( hist, Ad::kIntrusive && ( c.seed & 1 ));
                    if ( counted && sz != drained )
                        fail( "size() at quiescence is " + std::to_string( sz ) + " but " + std::to_string( drained ) + " items were drained" );
                    if ( was_empty != ( drained == 0 ))
                        fail( std::string( "empty() at quiescence is " ) + ( was_empty ? "true" : "false" ) + " but " + std::to_string( drained ) + " items were drained" );
                    if ( !ad.empty())
                        fail( "empty() is false after the queue was drained" );
                }
            }
            st = session_end();
        }
        if ( Ad::kTracked ) {
            if ( Tracked::bad )
                fail( "value life cycle: " + std::to_string( Tracked::bad ) + " operations on an object that was not alive (destroyed twice / never constructed)" );
            if ( Tracked::live != 0 )
                fail( "value life cycle: " + std::to_string( Tracked::live ) + " items constructed by the queue were never destroyed" );
        }
        if ( !failed()) {
            LinChecker<FifoModel> lc( hist.ev );
            FifoModel init;
            init.cap = int64_t( cap );
            if ( !lc.check( init ))
                fail( "history is not linearizable to a FIFO queue of capacity " + std::to_string( cap ) + ": " + history_text( hist.ev, kOpNames ));
            if ( lc.gave_up())
                note_class( "lin_gave_up" );
        }
        unsigned ov = hist.overlaps();
        if ( ov )
            note_class( "overlap" );
        if ( st.preemptions )
            note_class( "preempted" );
        if ( full_fail )
            note_class( "full_fail" );
        if ( empty_fail )
            note_class( "empty_fail" );
        if ( enq_ok_total > cap )
            note_class( "wrapped" );
        return finish( st, hist.hash(), ov > 0 && st.preemptions > 0 );
    }

    // dynamic buffers: one type for every capacity
    template <typename Ad>
    Verdict run_dyn( Case const& c )
    {
        return run_vq_cap<Ad>( c, size_t( 1 ) << cfg_at( c, 0, 1 ));
    }
    // static buffers: one type per capacity
    template <template <size_t> class AdN>
    Verdict run_static( Case const& c )
    {
        switch ( cfg_at( c, 0, 1 )) {
        case 1: return run_vq_cap<AdN<2>>( c, 2 );
        case 2: return run_vq_cap<AdN<4>>( c, 4 );
        default: return run_vq_cap<AdN<8>>( c, 8 );
        }
    }

    // ---- variant table ------------------------------------------------------------------------
    typedef cds::opt::v::uninitialized_dynamic_buffer<void*> udyn;
    typedef cds::opt::v::initialized_dynamic_buffer<void*> idyn;

    template <typename Buffer, bool Counted = false, bool SeqCst = false>
    struct vtraits : cc::vyukov_queue::traits {
        typedef Buffer buffer;
        typedef typename std::conditional<Counted, cds::atomicity::item_counter, cds::atomicity::empty_item_counter>::type item_counter;
        typedef typename std::conditional<SeqCst, cds::opt::v::sequential_consistent, cds::opt::v::relaxed_ordering>::type memory_model;
    };
    template <typename Buffer, bool Counted = false>
    struct itraits : ci::vyukov_queue::traits {
        typedef Buffer buffer;
        typedef clear_disposer disposer;
        typedef typename std::conditional<Counted, cds::atomicity::item_counter, cds::atomicity::empty_item_counter>::type item_counter;
    };

    template <size_t N> using AdValStatic = ValQ<cc::VyukovMPMCCycleQueue<int, vtraits<cds::opt::v::uninitialized_static_buffer<void*, N>>>, int>;
    template <size_t N> using AdValStaticInit = ValQ<cc::VyukovMPMCCycleQueue<int, vtraits<cds::opt::v::initialized_static_buffer<void*, N>, true>>, int>;
    template <size_t N> using AdIntrStatic = IntrQ<ci::VyukovMPMCCycleQueue<INode, itraits<cds::opt::v::uninitialized_static_buffer<void*, N>>>>;
    template <size_t N> using AdIntrStaticInit = IntrQ<ci::VyukovMPMCCycleQueue<INode, itraits<cds::opt::v::initialized_static_buffer<void*, N>, true>>>;
    template <size_t N> using AdScStaticInit = ValQ<cc::VyukovMPSCCycleQueue<int, vtraits<cds::opt::v::initialized_static_buffer<void*, N>>>, int>;

    struct Variant {
        const char* name;
        Verdict (*run)( Case const& );
    };

    const Variant kVariants[] = {
        { "value_dynamic", run_dyn<ValQ<cc::VyukovMPMCCycleQueue<int>, int>> },
        { "value_dynamic_init_ic", run_dyn<ValQ<cc::VyukovMPMCCycleQueue<int, vtraits<idyn, true>>, int>> },
        { "value_dynamic_seqcst_ic", run_dyn<ValQ<cc::VyukovMPMCCycleQueue<int, vtraits<udyn, true, true>>, int>> },
        { "value_static", run_static<AdValStatic> },
        { "value_static_init_ic", run_static<AdValStaticInit> },
        { "tracked_dynamic", run_dyn<ValQ<cc::VyukovMPMCCycleQueue<Tracked, vtraits<udyn, true>>, Tracked>> },
        { "intrusive_dynamic", run_dyn<IntrQ<ci::VyukovMPMCCycleQueue<INode, itraits<udyn>>>> },
        { "intrusive_dynamic_init_ic", run_dyn<IntrQ<ci::VyukovMPMCCycleQueue<INode, itraits<idyn, true>>>> },
        { "intrusive_static", run_static<AdIntrStatic> },
        { "intrusive_static_init_ic", run_static<AdIntrStaticInit> },
        { "single_consumer_dynamic", run_dyn<ValQ<cc::VyukovMPSCCycleQueue<int, vtraits<udyn, true>>, int>> },
        { "single_consumer_dynamic_init", run_dyn<ValQ<cc::VyukovMPSCCycleQueue<int, vtraits<idyn>>, int>> },
        { "single_consumer_static_init", run_static<AdScStaticInit> },
        { "single_consumer_tracked_dynamic", run_dyn<ValQ<cc::VyukovMPSCCycleQueue<Tracked, vtraits<udyn>>, Tracked>> },
    };
    const size_t kNumVariants = sizeof( kVariants ) / sizeof( kVariants[0] );
}

namespace cdsverif {
    Schema const& harness_schema()
    {
        static Schema s = []() {
            Schema x;
            x.name = "vyukov";
            for ( size_t i = 0; i < kNumVariants; ++i )
                x.variants.push_back( kVariants[i].name );
            x.cfg = { { "capacity_log2", 1, 3 }, { "wrap_rounds", 0, 5 }, { "prefill", 0, 8 } };
            // alt: another overload of the same operation (a&1: deq / enq; single-consumer thread 0: front() / dequeue())
            x.ops = { { "enq", 5, 3, 0 }, { "deq", 5, 2, 0 }, { "alt", 3, 7, 0 } };
            x.max_ops_quick = 5;
            x.max_ops_thorough = 7;
            x.nontrivial_rule = "history has >=1 pair of overlapping operations of different threads and >=1 pre-emptive token switch (st.preemptions > 0); classes full_fail / empty_fail / wrapped count failed enqueues, failed dequeues and position wrap-around";
            return x;
        }();
        return s;
    }

    Verdict run_case( Case const& c )
    {
        size_t v = size_t( c.variant ) < kNumVariants ? size_t( c.variant ) : 0;
        return kVariants[v].run( c );
    }
}
