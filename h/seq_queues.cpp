// C20 (queues, stacks, deques, priority queues): single-threaded API behaviour against
// std::queue / std::stack / std::deque / std::priority_queue reference models, step by step.
#include "common.h"

#include <deque>
#include <list>
#include <queue>
#include <stack>
#include <vector>
#include <functional>
#include <set>

#include <cds/container/msqueue.h>
#include <cds/container/moir_queue.h>
#include <cds/container/basket_queue.h>
#include <cds/container/optimistic_queue.h>
#include <cds/container/rwqueue.h>
#include <cds/container/vyukov_mpmc_cycle_queue.h>
#include <cds/container/segmented_queue.h>
#include <cds/container/treiber_stack.h>
#include <cds/container/mspriority_queue.h>
#include <cds/container/fcqueue.h>
#include <cds/container/fcstack.h>
#include <cds/container/fcdeque.h>
#include <cds/container/fcpriority_queue.h>
#include <cds/container/weak_ringbuffer.h>

namespace hv {
    Registry& registry()
    {
        static Registry r;
        return r;
    }
    Graveyard& graveyard()
    {
        static Graveyard g;
        return g;
    }
}

using namespace hv;
namespace cc = cds::container;
typedef cds::gc::HP HP;
typedef cds::gc::DHP DHP;

namespace {
    enum Kind { K_FIFO, K_LIFO, K_DEQUE, K_PQ };

    struct SeqAdapter {
        virtual ~SeqAdapter() {}
        virtual bool push( int v, int flavour ) = 0;           // back
        virtual bool push_front( int v, int flavour ) { return push( v, flavour ); }
        virtual int pop( int flavour ) = 0;                     // FIFO front / LIFO top / PQ max / deque front; -1 = empty
        virtual int pop_back( int flavour ) { return pop( flavour ); }
        virtual bool empty() = 0;
        virtual long size() { return -1; }                      // -1: no counter
        virtual void clear() = 0;
        virtual long capacity() { return -1; }                  // -1: unbounded
    };

    // ---- generic wrappers -----------------------------------------------------------------
    template <typename Q>
    struct QueueA : SeqAdapter {
        Q q;
        template <typename... A>
        explicit QueueA( A&&... a ) : q( std::forward<A>( a )... ) {}
        bool push( int v, int f ) override
        {
            switch ( f % 4 ) {
            case 0: return q.enqueue( v );
            case 1: return q.push( v );
            case 2: return q.emplace( v );
            default: return q.enqueue_with( [v]( int& d ) { d = v; } );
            }
        }
        int pop( int f ) override
        {
            int v = -1;
            bool ok;
            switch ( f % 3 ) {
            case 0: ok = q.dequeue( v ); break;
            case 1: ok = q.pop( v ); break;
            default: ok = q.dequeue_with( [&v]( int& s ) { v = s; } ); break;
            }
            return ok ? v : -1;
        }
        bool empty() override { return q.empty(); }
        long size() override
        {
            return std::is_same<typename Q::item_counter, cds::atomicity::empty_item_counter>::value ? -1 : long( q.size());
        }
        void clear() override { q.clear(); }
    };

    template <typename Q>
    struct BoundedQueueA : QueueA<Q> {
        template <typename... A>
        explicit BoundedQueueA( A&&... a ) : QueueA<Q>( std::forward<A>( a )... ) {}
        long size() override { return long( this->q.size()); }
        long capacity() override { return long( this->q.capacity()); }
    };

    template <typename S>
    struct StackA : SeqAdapter {
        S s;
        template <typename... A>
        explicit StackA( A&&... a ) : s( std::forward<A>( a )... ) {}
        bool push( int v, int f ) override
        {
            if ( f % 2 )
                return s.emplace( v );
            return s.push( v );
        }
        int pop( int f ) override
        {
            int v = -1;
            bool ok = ( f % 2 ) ? s.pop_with( [&v]( int& x ) { v = x; } ) : s.pop( v );
            return ok ? v : -1;
        }
        bool empty() override { return s.empty(); }
        long size() override
        {
            return std::is_same<typename S::item_counter, cds::atomicity::empty_item_counter>::value ? -1 : long( s.size());
        }
        void clear() override { s.clear(); }
    };

    template <typename S>
    struct FCStackA : SeqAdapter {
        S s;
        bool push( int v, int ) override { return s.push( v ); }
        int pop( int ) override
        {
            int v = -1;
            return s.pop( v ) ? v : -1;
        }
        bool empty() override { return s.empty(); }
        long size() override { return long( s.size()); }
        void clear() override { s.clear(); }
    };

    template <typename Q>
    struct FCQueueA : SeqAdapter {
        Q q;
        bool push( int v, int f ) override { return ( f % 2 ) ? q.push( v ) : q.enqueue( v ); }
        int pop( int f ) override
        {
            int v = -1;
            bool ok = ( f % 2 ) ? q.pop( v ) : q.dequeue( v );
            return ok ? v : -1;
        }
        bool empty() override { return q.empty(); }
        long size() override { return long( q.size()); }
        void clear() override { q.clear(); }
    };

    template <typename D>
    struct FCDequeA : SeqAdapter {
        D d;
        bool push( int v, int ) override { return d.push_back( v ); }
        bool push_front( int v, int ) override { return d.push_front( v ); }
        int pop( int ) override
        {
            int v = -1;
            return d.pop_front( v ) ? v : -1;
        }
        int pop_back( int ) override
        {
            int v = -1;
            return d.pop_back( v ) ? v : -1;
        }
        bool empty() override { return d.empty(); }
        long size() override { return long( d.size()); }
        void clear() override { d.clear(); }
    };

    template <typename P>
    struct PQA : SeqAdapter {
        P p;
        bool bounded;
        template <typename... A>
        explicit PQA( bool b, A&&... a ) : p( std::forward<A>( a )... ), bounded( b ) {}
        bool push( int v, int ) override { return p.push( v ); }
        int pop( int ) override
        {
            int v = -1;
            return p.pop( v ) ? v : -1;
        }
        bool empty() override { return p.empty(); }
        long size() override { return long( p.size()); }
        void clear() override { p.clear(); }
        long capacity() override { return bounded ? capacity_of( p, 0 ) : -1; }
        template <typename X>
        static auto capacity_of( X& x, int ) -> decltype( long( x.capacity())) { return long( x.capacity()); }
        template <typename X>
        static long capacity_of( X&, ... ) { return -1; }
    };

    struct RingA : SeqAdapter {
        cc::WeakRingBuffer<int> rb;
        explicit RingA( size_t cap ) : rb( cap ) {}
        bool push( int v, int f ) override
        {
            if ( f % 2 )
                return rb.enqueue( v );
            return rb.push( v );
        }
        int pop( int f ) override
        {
            int v = -1;
            if ( f % 2 ) {
                // front() may be called repeatedly without pop_front(): it only refreshes the cached back
                int* p0 = rb.front();
                int* p = rb.front();
                if ( p != p0 )
                    fail( "two consecutive front() calls returned different elements" );
                if ( !p )
                    return -1;
                v = *p;
                rb.pop_front();
                return v;
            }
            return rb.pop( v ) ? v : -1;
        }
        bool empty() override { return rb.empty(); }
        long size() override { return long( rb.size()); }
        void clear() override { rb.clear(); }
        long capacity() override { return long( rb.capacity()); }
    };

    // ---- variant table --------------------------------------------------------------------------
    struct ic_ms : cc::msqueue::traits { typedef cds::atomicity::item_counter item_counter; };
    struct ic_bk : cc::basket_queue::traits { typedef cds::atomicity::item_counter item_counter; };
    struct ic_op : cc::optimistic_queue::traits { typedef cds::atomicity::item_counter item_counter; };
    struct ic_rw : cc::rwqueue::traits { typedef cds::atomicity::item_counter item_counter; };
    struct ic_ts : cc::treiber_stack::traits { typedef cds::atomicity::item_counter item_counter; };
    struct el_ts : cc::treiber_stack::traits {
        typedef cds::atomicity::item_counter item_counter;
        static constexpr const bool enable_elimination = true;
    };
    struct vy_dyn : cc::vyukov_queue::traits { typedef cds::atomicity::item_counter item_counter; };
    struct fcq_elim : cc::fcqueue::traits { static constexpr const bool enable_elimination = true; };
    struct fcs_elim : cc::fcstack::traits { static constexpr const bool enable_elimination = true; };
    struct fcd_elim : cc::fcdeque::traits { static constexpr const bool enable_elimination = true; };

    enum GcNeed { G_NONE, G_HP, G_DHP };
    struct Variant {
        const char* name;
        Kind kind;
        GcNeed gc;
        std::function<SeqAdapter*( Case const& )> make;
    };

    size_t cap_of( Case const& c ) { return size_t( 2 ) << ( cfg_at( c, 0, 0 ) % 3 ); }     // 2,4,8

    const std::vector<Variant>& variants()
    {
        static const std::vector<Variant> v = {
            { "MSQueue_HP_ic", K_FIFO, G_HP, []( Case const& ) { return new QueueA<cc::MSQueue<HP, int, ic_ms>>(); } },
            { "MSQueue_DHP", K_FIFO, G_DHP, []( Case const& ) { return new QueueA<cc::MSQueue<DHP, int>>(); } },
            { "MoirQueue_HP_ic", K_FIFO, G_HP, []( Case const& ) { return new QueueA<cc::MoirQueue<HP, int, ic_ms>>(); } },
            { "BasketQueue_HP_ic", K_FIFO, G_HP, []( Case const& ) { return new QueueA<cc::BasketQueue<HP, int, ic_bk>>(); } },
            { "BasketQueue_DHP", K_FIFO, G_DHP, []( Case const& ) { return new QueueA<cc::BasketQueue<DHP, int>>(); } },
            { "OptimisticQueue_HP_ic", K_FIFO, G_HP, []( Case const& ) { return new QueueA<cc::OptimisticQueue<HP, int, ic_op>>(); } },
            { "OptimisticQueue_DHP", K_FIFO, G_DHP, []( Case const& ) { return new QueueA<cc::OptimisticQueue<DHP, int>>(); } },
            { "RWQueue_ic", K_FIFO, G_NONE, []( Case const& ) { return new QueueA<cc::RWQueue<int, ic_rw>>(); } },
            { "VyukovMPMCCycleQueue", K_FIFO, G_NONE, []( Case const& c ) { return new BoundedQueueA<cc::VyukovMPMCCycleQueue<int, vy_dyn>>( cap_of( c )); } },
            { "TreiberStack_HP_ic", K_LIFO, G_HP, []( Case const& ) { return new StackA<cc::TreiberStack<HP, int, ic_ts>>(); } },
            { "TreiberStack_DHP", K_LIFO, G_DHP, []( Case const& ) { return new StackA<cc::TreiberStack<DHP, int>>(); } },
            { "TreiberStack_HP_elimination_ic", K_LIFO, G_HP, []( Case const& ) { return new StackA<cc::TreiberStack<HP, int, el_ts>>(); } },
            { "FCQueue", K_FIFO, G_NONE, []( Case const& ) { return new FCQueueA<cc::FCQueue<int>>(); } },
            { "FCQueue_list_elimination", K_FIFO, G_NONE, []( Case const& ) { return new FCQueueA<cc::FCQueue<int, std::queue<int, std::list<int>>, fcq_elim>>(); } },
            { "FCStack", K_LIFO, G_NONE, []( Case const& ) { return new FCStackA<cc::FCStack<int>>(); } },
            { "FCStack_vector_elimination", K_LIFO, G_NONE, []( Case const& ) { return new FCStackA<cc::FCStack<int, std::stack<int, std::vector<int>>, fcs_elim>>(); } },
            { "FCDeque", K_DEQUE, G_NONE, []( Case const& ) { return new FCDequeA<cc::FCDeque<int>>(); } },
            { "FCDeque_elimination", K_DEQUE, G_NONE, []( Case const& ) { return new FCDequeA<cc::FCDeque<int, std::deque<int>, fcd_elim>>(); } },
            { "FCPriorityQueue", K_PQ, G_NONE, []( Case const& ) { return new PQA<cc::FCPriorityQueue<int>>( false ); } },
            { "FCPriorityQueue_deque", K_PQ, G_NONE, []( Case const& ) { return new PQA<cc::FCPriorityQueue<int, std::priority_queue<int, std::deque<int>>>>( false ); } },
            { "MSPriorityQueue", K_PQ, G_NONE, []( Case const& c ) { return new PQA<cc::MSPriorityQueue<int>>( true, cap_of( c ) * 2 ); } },
            { "WeakRingBuffer", K_FIFO, G_NONE, []( Case const& c ) { return new RingA( cap_of( c ) * 2 ); } },
        };
        return v;
    }

    enum { OP_PUSH = 0, OP_POP, OP_PUSH_FRONT, OP_POP_BACK, OP_CLEAR, OP_SIZE };

    struct Model {
        Kind kind;
        std::deque<int> d;
        std::multiset<int> pq;
        size_t size() const { return kind == K_PQ ? pq.size() : d.size(); }
    };
}

namespace cdsverif {
    Schema const& harness_schema()
    {
        static Schema s = []() {
            Schema x;
            x.name = "seq_queues";
            for ( auto const& v : variants())
                x.variants.push_back( v.name );
            x.cfg = { { "capsel", 0, 2 } };
            x.ops = { { "push", 10, 2, 3 }, { "pop", 9, 0, 2 }, { "push_front", 3, 2, 0 }, { "pop_back", 3, 0, 0 }, { "clear", 1, 0, 0 }, { "size", 3, 0, 0 } };
            x.sequential = true;
            x.max_ops_quick = 40;
            x.max_ops_thorough = 80;
            x.nontrivial_rule = "the sequence contains a pop on a non-empty container and a pop (or a failed bounded push) on an empty (full) one";
            return x;
        }();
        return s;
    }

    Verdict run_case( Case const& c )
    {
        lib_init();
        case_reset();
        CaseRng::seed( c.seed );
        auto const& vs = variants();
        Variant const& v = vs[size_t( c.variant ) < vs.size() ? size_t( c.variant ) : 0];
        bool hit_nonempty = false, hit_edge = false;
        uint64_t h = 0x99;
        {
            std::unique_ptr<HpSingleton> hp;
            std::unique_ptr<DhpSingleton> dhp;
            if ( v.gc == G_HP )
                hp.reset( new HpSingleton( 8, 2, 17, false ));
            else if ( v.gc == G_DHP )
                dhp.reset( new DhpSingleton( 4 ));
            Attach attach;
            std::unique_ptr<SeqAdapter> ad( v.make( c ));
            Model m;
            m.kind = v.kind;
            long cap = ad->capacity();
            int next = 1;
            auto check_size = [&]( const char* when ) {
                if ( failed())
                    return;
                if ( ad->empty() != ( m.size() == 0 ))
                    fail( std::string( "empty() = " ) + ( ad->empty() ? "true" : "false" ) + " but the reference model holds " + std::to_string( m.size()) + " items (" + when + ")" );
                long sz = ad->size();
                if ( sz >= 0 && size_t( sz ) != m.size())
                    fail( "size() = " + std::to_string( sz ) + " but the reference model holds " + std::to_string( m.size()) + " items (" + when + ")" );
            };
            if ( !c.prog.empty())
                for ( Op const& op : c.prog[0] ) {
                    if ( failed())
                        break;
                    h = hash_mix( h, uint64_t( op.code ) * 131 + uint64_t( op.a ) * 7 + uint64_t( op.b ));
                    switch ( op.code ) {
                    case OP_PUSH:
                    case OP_PUSH_FRONT: {
                        // priority queues get values from a small alphabet x unique low bits so that ordering is exact
                        int val = v.kind == K_PQ ? ( op.a * 1000 + next ) : next;
                        ++next;
                        bool front = op.code == OP_PUSH_FRONT && v.kind == K_DEQUE;
                        bool want = cap < 0 || long( m.size()) < cap;
                        bool got = front ? ad->push_front( val, op.b ) : ad->push( val, op.b );
                        if ( got != want ) {
                            fail( std::string( "push returned " ) + ( got ? "true" : "false" ) + " with " + std::to_string( m.size()) + " items present (capacity " + std::to_string( cap ) + ")" );
                            break;
                        }
                        if ( !want )
                            hit_edge = true;
                        if ( got ) {
                            if ( v.kind == K_PQ )
                                m.pq.insert( val );
                            else if ( front )
                                m.d.push_front( val );
                            else
                                m.d.push_back( val );
                        }
                        break;
                    }
                    case OP_POP:
                    case OP_POP_BACK: {
                        bool back = op.code == OP_POP_BACK && v.kind == K_DEQUE;
                        int got = back ? ad->pop_back( op.b ) : ad->pop( op.b );
                        int want = -1;
                        if ( m.size()) {
                            hit_nonempty = true;
                            if ( v.kind == K_PQ ) {
                                want = *m.pq.rbegin();
                                m.pq.erase( std::prev( m.pq.end()));
                            }
                            else if ( v.kind == K_LIFO || back ) {
                                want = m.d.back();
                                m.d.pop_back();
                            }
                            else {
                                want = m.d.front();
                                m.d.pop_front();
                            }
                        }
                        else
                            hit_edge = true;
                        if ( got != want )
                            fail( "pop returned " + std::to_string( got ) + ", the reference model expects " + std::to_string( want ));
                        break;
                    }
                    case OP_CLEAR:
                        ad->clear();
                        m.d.clear();
                        m.pq.clear();
                        check_size( "after clear" );
                        break;
                    case OP_SIZE:
                        check_size( "size op" );
                        break;
                    }
                }
            check_size( "end" );
            // drain: order must match the model to the end
            while ( !failed() && m.size()) {
                int got = ad->pop( 0 );
                int want;
                if ( v.kind == K_PQ ) {
                    want = *m.pq.rbegin();
                    m.pq.erase( std::prev( m.pq.end()));
                }
                else if ( v.kind == K_LIFO ) {
                    want = m.d.back();
                    m.d.pop_back();
                }
                else {
                    want = m.d.front();
                    m.d.pop_front();
                }
                if ( got != want )
                    fail( "drain pop returned " + std::to_string( got ) + ", the reference model expects " + std::to_string( want ));
            }
            if ( !failed() && ad->pop( 0 ) != -1 )
                fail( "pop on a drained container returned an item" );
        }
        Verdict vd = finish( SchedStats(), hash_mix( h, uint64_t( c.variant )), hit_nonempty && hit_edge );
        return vd;
    }
}
