// C16 concurrent, second TU (compile time): StripedSet/Map over boost::container buckets, intrusive::StripedSet over boost::intrusive
#define LOCKHASH_HARNESS_NAME "lockhash_boost"
#define LOCKHASH_SEQUENTIAL 0
#define LOCKHASH_BOOST_PART
#include "lockhash_body.h"
