// Sequential differential mode of the lists_rcu family (C13/C17/C20 single-threaded contract): every step of one long
// operation sequence is compared with an exact std::map model; keys 0..7. Variants: fam_lists_rcu.h
#include "mapcommon_impl.h"
#include "fam_lists_rcu.h"

using namespace mh;

namespace {
    const MapHarnessConfig kConfig = { "seq_lists_rcu", fam_lists_rcu::kListsRcuVariants, fam_lists_rcu::kListsRcuCount, 7, true, false };
}

namespace cdsverif {
    Schema const& harness_schema()
    {
        static Schema s = make_map_schema( kConfig, {},
            "the sequence contains an operation on a present key, an operation on an absent key and a successful removal; "
            "insert-only (nogc) variants, which have no removal: a successful insertion, a rejected insertion of a present key, "
            "a find/contains hit and a find/contains miss" );
        return s;
    }
    Verdict run_case( Case const& c )
    {
        Verdict v = run_map_case( kConfig, c );
        if ( fam_lists_rcu::is_nogc_variant( c.variant )) {
            // the generic runner's sequential rule needs a removal, which an insert-only list cannot have
            fam_lists_rcu::OpCounters const& k = fam_lists_rcu::counters();
            v.nontrivial = k.ins_ok && k.ins_fail && k.find_hit && k.find_miss;
        }
        return v;
    }
}
