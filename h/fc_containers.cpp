// Flat-combining containers and RWQueue:
//   C06 (part): container::RWQueue, container::FCQueue, intrusive::FCQueue   -> linearizable FIFO
//   C09 (part): container::FCStack, intrusive::FCStack                        -> linearizable LIFO
//   C10       : container::FCDeque (std::deque / boost::container::deque)     -> linearizable deque
//   C11 (part): container::FCPriorityQueue (vector / deque backed)            -> linearizable max-PQ
//
// Thread lifecycle (see kernel.h: acquire_record / m_pThreadRec / tls_cleanup / ~kernel).
// The FC kernel keeps the publication record of every client thread in a
// boost::thread_specific_ptr member. boost stores that value in a per-thread map keyed by the
// ADDRESS of the thread_specific_ptr; ~thread_specific_ptr erases the entry of the destroying
// thread only. A client thread that outlives the container therefore keeps (address -> dangling
// record) in its TLS: a later kernel constructed at the same address would pick the dangling
// record up in acquire_record(), and tls_cleanup() would write to it at thread exit. The kernel has
// no public call that releases the record of the calling thread, so pooled worker threads cannot be
// used. All FC variants run their workers on REAL threads (SchedParams::real_threads): every worker
// exits (its boost TLS destructor -> kernel::tls_cleanup() marks the record `removed`, under the
// token, i.e. thread exit is scheduled like any other step) and is joined before the container is
// destroyed. The main thread constructs the container (it owns the head record), does prefill and
// drain and destroys the container: ~kernel resets main's TLS value and ~thread_specific_ptr erases
// main's entry, so nothing of a case survives in main's TLS either. The drain phase runs with the
// workers' records still in the publication list in state `removed`, which exercises the
// removed-record path of combining_pass()/compact_list().
// RWQueue has no TLS: it runs on the pooled workers.
#include "common.h"

#include <cds/container/rwqueue.h>
#include <cds/container/fcqueue.h>
#include <cds/container/fcstack.h>
#include <cds/container/fcdeque.h>
#include <cds/container/fcpriority_queue.h>
#include <cds/intrusive/fcqueue.h>
#include <cds/intrusive/fcstack.h>
#include <cds/sync/spinlock.h>

#include <boost/container/deque.hpp>
#include <boost/intrusive/list.hpp>
#include <boost/intrusive/slist.hpp>

#include <deque>
#include <list>
#include <mutex>
#include <queue>
#include <stack>
#include <vector>

namespace hv {
    Registry& registry()
    {
        static Registry r;
        return r;
    }
    Graveyard& graveyard()
    {
        static Graveyard g;
        return g;
    }
}

using namespace hv;
namespace cc = cds::container;
namespace ci = cds::intrusive;
namespace fc = cds::algo::flat_combining;

namespace {

    // indexed by the model operation code (rt/lin.h)
    const char* const kOpNames[] = { "push", "pop", "push_front", "push_back", "pop_front", "pop_back" };

    enum Kind { K_QUEUE, K_STACK, K_DEQUE, K_PQ };

    // Only the token holder runs: the library statistics need no atomic counter. A plain
    // counter keeps the statistics from adding scheduling points that mean nothing.
    struct PlainCounter {
        typedef size_t value_type;
        size_t v = 0;
        size_t operator++() { return ++v; }
        size_t operator++( int ) { return v++; }
        size_t operator+=( size_t n ) { return v += n; }
        size_t get() const { return v; }
        operator size_t() const { return v; }
        void reset() { v = 0; }
    };

    struct FcCounters {
        bool fc = false;
        bool elimination = false;
        uint64_t ops = 0, combinings = 0, compact = 0, deact = 0, act = 0, created = 0, deleted = 0;
        uint64_t pwait = 0, pwait_iter = 0, pwakeup = 0, notified = 0, p2c = 0, collided = 0;
    };

    template <typename Stat>
    void read_kernel_stat( Stat const& s, FcCounters& k )
    {
        k.fc = true;
        k.ops = s.m_nOperationCount.get();
        k.combinings = s.m_nCombiningCount.get();
        k.compact = s.m_nCompactPublicationList.get();
        k.deact = s.m_nDeactivatePubRecord.get();
        k.act = s.m_nActivatePubRecord.get();
        k.created = s.m_nPubRecordCreated.get();
        k.deleted = s.m_nPubRecordDeleted.get();
        k.pwait = s.m_nPassiveWaitCall.get();
        k.pwait_iter = s.m_nPassiveWaitIteration.get();
        k.pwakeup = s.m_nPassiveWaitWakeup.get();
        k.notified = s.m_nWakeupByNotifying.get();
        k.p2c = s.m_nPassiveToCombiner.get();
    }

    // ---- traits ---------------------------------------------------------------------------
    typedef fc::wait_strategy::backoff<> ws_backoff;
    typedef fc::wait_strategy::empty ws_empty;
    typedef fc::wait_strategy::single_mutex_single_condvar<> ws_ss;
    typedef fc::wait_strategy::single_mutex_multi_condvar<> ws_sm;
    typedef fc::wait_strategy::multi_mutex_multi_condvar<> ws_mm;

    template <typename Base, typename Stat, typename WS, bool Elim, typename Lock = cds::sync::spin>
    struct fc_traits : Base {
        typedef Stat stat;
        typedef WS wait_strategy;
        typedef Lock lock_type;
        static constexpr const bool enable_elimination = Elim;
    };

    struct rw_mutex_ic : cc::rwqueue::traits {
        typedef std::mutex lock_type;
        typedef cds::atomicity::item_counter item_counter;
    };
    struct rw_spin_ic : cc::rwqueue::traits {
        typedef cds::atomicity::item_counter item_counter;
    };

    // ---- adapters -----------------------------------------------------------------------
    //   bool push( end, value, priority, alt )      end: 0 = back (the only end of queue/stack/pq), 1 = front
    //   bool pop( end, value&, priority&, alt )     alt selects the second overload (move / *_with)
    template <typename Q>
    struct RwAd {
        static constexpr Kind kind = K_QUEUE;
        static constexpr bool real_threads = false;
        static constexpr bool pop_keeps_value = false;      // "dest can be corrupted"
        static const char* collide_class() { return nullptr; }
        Q q;
        RwAd( unsigned, unsigned ) {}
        bool push( int, int v, int, bool alt )
        {
            if ( alt ) {
                int tmp = v;
                return q.enqueue( std::move( tmp ));
            }
            return q.enqueue( v );
        }
        bool pop( int, int& v, int&, bool alt )
        {
            if ( alt )
                return q.dequeue_with( [&v]( int& src ) { v = src; } );
            return q.dequeue( v );
        }
        size_t size() const { return q.size(); }
        bool counted() const { return !std::is_same<typename Q::item_counter, cds::atomicity::empty_item_counter>::value; }
        bool empty() { return q.empty(); }
        void counters( FcCounters& ) {}
        void finish() {}
    };

    template <typename Q>
    struct FcQueueAd {
        static constexpr Kind kind = K_QUEUE;
        static constexpr bool real_threads = true;
        static constexpr bool pop_keeps_value = false;
        static const char* collide_class() { return "collided_FCQueue"; }
        Q q;
        FcQueueAd( unsigned compact, unsigned passes ) : q( compact, passes ) {}
        bool push( int, int v, int, bool alt )
        {
            if ( alt ) {
                int tmp = v;
                return q.enqueue( std::move( tmp ));
            }
            return q.enqueue( v );
        }
        bool pop( int, int& v, int&, bool alt ) { return alt ? q.pop( v ) : q.dequeue( v ); }
        size_t size() const { return q.size(); }
        bool counted() const { return true; }
        bool empty() { return q.empty(); }
        void counters( FcCounters& k )
        {
            read_kernel_stat( q.statistics(), k );
            k.collided = q.statistics().m_nCollided.get();
            k.elimination = Q::c_bEliminationEnabled;
        }
        void finish() {}
    };

    template <typename S>
    struct FcStackAd {
        static constexpr Kind kind = K_STACK;
        static constexpr bool real_threads = true;
        static constexpr bool pop_keeps_value = false;
        static const char* collide_class() { return "collided_FCStack"; }
        S q;
        FcStackAd( unsigned compact, unsigned passes ) : q( compact, passes ) {}
        bool push( int, int v, int, bool alt )
        {
            if ( alt ) {
                int tmp = v;
                return q.push( std::move( tmp ));
            }
            return q.push( v );
        }
        bool pop( int, int& v, int&, bool ) { return q.pop( v ); }
        size_t size() const { return q.size(); }
        bool counted() const { return true; }
        bool empty() { return q.empty(); }
        void counters( FcCounters& k )
        {
            read_kernel_stat( q.statistics(), k );
            k.collided = q.statistics().m_nCollided.get();
            k.elimination = S::c_bEliminationEnabled;
        }
        void finish() {}
    };

    template <typename D>
    struct FcDequeAd {
        static constexpr Kind kind = K_DEQUE;
        static constexpr bool real_threads = true;
        static constexpr bool pop_keeps_value = true;       // "If the deque is empty val is not changed"
        static const char* collide_class() { return "collided_FCDeque"; }
        D q;
        FcDequeAd( unsigned compact, unsigned passes ) : q( compact, passes ) {}
        bool push( int end, int v, int, bool alt )
        {
            if ( alt ) {
                int tmp = v;
                return end ? q.push_front( std::move( tmp )) : q.push_back( std::move( tmp ));
            }
            return end ? q.push_front( v ) : q.push_back( v );
        }
        bool pop( int end, int& v, int&, bool ) { return end ? q.pop_front( v ) : q.pop_back( v ); }
        size_t size() const { return q.size(); }
        bool counted() const { return true; }
        bool empty() { return q.empty(); }
        void counters( FcCounters& k )
        {
            read_kernel_stat( q.statistics(), k );
            k.collided = q.statistics().m_nCollided.get();
            k.elimination = D::c_bEliminationEnabled;
        }
        void finish() {}
    };

    struct Item {
        int prio = -1;
        int id = -1;
    };
    struct ItemLess {
        bool operator()( Item const& a, Item const& b ) const { return a.prio < b.prio; }
    };

    template <typename P>
    struct FcPqAd {
        static constexpr Kind kind = K_PQ;
        static constexpr bool real_threads = true;
        static constexpr bool pop_keeps_value = true;       // "If the queue is empty val is not changed"
        static const char* collide_class() { return nullptr; }
        P q;
        FcPqAd( unsigned compact, unsigned passes ) : q( compact, passes ) {}
        bool push( int, int v, int prio, bool alt )
        {
            Item it;
            it.prio = prio;
            it.id = v;
            if ( alt )
                return q.push( std::move( it ));
            return q.push( it );
        }
        bool pop( int, int& v, int& prio, bool )
        {
            Item it;
            it.prio = prio;
            it.id = v;
            bool ok = q.pop( it );
            prio = it.prio;
            v = it.id;
            return ok;
        }
        size_t size() const { return q.size(); }
        bool counted() const { return true; }
        bool empty() { return q.empty(); }
        void counters( FcCounters& k ) { read_kernel_stat( q.statistics(), k ); }
        void finish() {}
    };

    // intrusive: the client owns the nodes; a node handed back by pop() belongs to the caller again
    template <typename Hook>
    struct INode : Hook {
        int val = 0;
        uint64_t canary = 0xc0ffee;
        bool out = false;       // handed back to a client
    };
    typedef INode<boost::intrusive::list_base_hook<>> LNode;
    typedef INode<boost::intrusive::slist_base_hook<>> SNode;

    template <typename C, typename Node, Kind KindV>
    struct FcIntrAd {
        static constexpr Kind kind = KindV;
        static constexpr bool real_threads = true;
        static constexpr bool pop_keeps_value = false;
        static const char* collide_class() { return KindV == K_QUEUE ? "collided_intrusive_FCQueue" : "collided_intrusive_FCStack"; }
        std::vector<std::unique_ptr<Node>> nodes;       // destroyed after the container
        C q;
        FcIntrAd( unsigned compact, unsigned passes ) : q( compact, passes ) {}
        bool push( int, int v, int, bool )
        {
            Node* n = new Node;
            n->val = v;
            nodes.emplace_back( n );
            return q.push( *n );
        }
        bool pop( int, int& v, int&, bool )
        {
            Node* p = q.pop();
            if ( !p )
                return false;
            if ( p->canary != 0xc0ffee ) {
                fail( "popped intrusive node has a bad canary" );
                return false;
            }
            if ( p->out )
                fail( "intrusive node " + std::to_string( p->val ) + " handed back twice" );
            if ( p->is_linked())
                fail( "popped intrusive node " + std::to_string( p->val ) + " is still linked" );
            p->out = true;
            v = p->val;
            return true;
        }
        size_t size() const { return q.size(); }
        bool counted() const { return true; }
        bool empty() { return q.empty(); }
        void counters( FcCounters& k )
        {
            read_kernel_stat( q.statistics(), k );
            k.collided = q.statistics().m_nCollided.get();
            k.elimination = C::c_bEliminationEnabled;
        }
        // safe-link hooks must be unlinked before the nodes die (only matters after a failure)
        void finish() { q.clear(); }
    };

    template <Kind K> struct ModelOf;
    template <> struct ModelOf<K_QUEUE> { typedef FifoModel type; static const char* name() { return "FIFO queue"; } };
    template <> struct ModelOf<K_STACK> { typedef LifoModel type; static const char* name() { return "LIFO stack"; } };
    template <> struct ModelOf<K_DEQUE> { typedef DequeModel type; static const char* name() { return "deque"; } };
    template <> struct ModelOf<K_PQ> { typedef MaxPQModel type; static const char* name() { return "max priority queue"; } };

    const unsigned kCompact[] = { 1, 2, 1024 };
    const int kSentinel = -7;

    // one operation of a client (thread 0 = main: prefill and drain)
    template <typename Ad>
    bool do_push( Ad& ad, History& hist, int thread, int end, int v, int prio, bool alt )
    {
        size_t e;
        if ( Ad::kind == K_PQ )
            e = hist.begin( thread, Q_ENQ, prio, v );
        else if ( Ad::kind == K_DEQUE )
            e = hist.begin( thread, end ? D_PUSH_FRONT : D_PUSH_BACK, v );
        else
            e = hist.begin( thread, Q_ENQ, v );
        bool ok = ad.push( end, v, prio, alt );
        hist.end( e, ok ? 1 : 0 );
        return ok;
    }

    template <typename Ad>
    bool do_pop( Ad& ad, History& hist, int thread, int end, bool alt )
    {
        size_t e;
        if ( Ad::kind == K_DEQUE )
            e = hist.begin( thread, end ? D_POP_FRONT : D_POP_BACK );
        else
            e = hist.begin( thread, Q_DEQ );
        int v = kSentinel, prio = kSentinel;
        bool ok = ad.pop( end, v, prio, alt );
        if ( !ok ) {
            hist.end( e, -1 );
            if ( Ad::pop_keeps_value && ( v != kSentinel || prio != kSentinel ))
                fail( "failed pop changed its destination" );
        }
        else if ( Ad::kind == K_PQ )
            hist.end( e, prio, v );
        else
            hist.end( e, v );
        return ok;
    }

    template <typename Ad>
    Verdict run_fc( Case const& c )
    {
        lib_init();
        case_reset();
        registry().reset();
        CaseRng::seed( c.seed );
        History hist;
        SchedStats st;
        FcCounters k;
        unsigned passes = unsigned( cfg_at( c, 0, 1 ));
        if ( passes < 1 || passes > 8 )
            passes = 1;
        unsigned compact = kCompact[size_t( cfg_at( c, 1, 0 )) % 3];
        int prefill = cfg_at( c, 2, 0 );
        if ( prefill < 0 || prefill > 4 )
            prefill = 0;
        size_t conc_begin = 0, conc_end = 0;
        {
            SchedParams p = sched_params( c );
            p.real_threads = Ad::real_threads;
            session_begin( p );
            {
                Attach main_attach;
                {
                    Ad ad( compact, passes );       // constructed, used and destroyed by main: see the header comment
                    int next_val = 1;
                    for ( int i = 0; i < prefill; ++i ) {
                        int v = next_val++;
                        do_push( ad, hist, 0, i & 1, v, v % 3, false );
                    }
                    conc_begin = hist.ev.size();
                    std::vector<std::function<void()>> bodies;
                    for ( size_t t = 0; t < c.prog.size(); ++t ) {
                        bodies.push_back( [&, t]() {
                            Attach a;
                            for ( Op const& op : c.prog[t] ) {
                                int code = op.code & 3;
                                if ( Ad::kind != K_DEQUE )
                                    code &= 1;          // queue / stack / pq: 2 -> 0, 3 -> 1
                                int end = code >> 1;
                                bool alt = ( op.b & 1 ) != 0;
                                if (( code & 1 ) == 0 ) {
                                    int v = int( t + 1 ) * 100 + ( next_val++ );
                                    do_push( ad, hist, int( t ) + 1, end, v, op.a % 3, alt );
                                }
                                else
                                    do_pop( ad, hist, int( t ) + 1, end, alt );
                            }
                        } );    // real thread: exits here, its TLS destructor marks its publication record `removed`
                    }
                    run_threads( bodies );
                    conc_end = hist.ev.size();
                    // quiescence: size() and empty() are exact
                    size_t sz = ad.size();
                    bool was_empty = ad.empty();
                    size_t drained = 0;
                    for ( ;; ) {
                        if ( !do_pop( ad, hist, 0, int(( drained + 1 ) & 1 ), false ))
                            break;
                        if ( ++drained > 1000 ) {
                            fail( "drain does not terminate" );
                            break;
                        }
                    }
                    if ( ad.counted()) {
                        if ( sz != drained )
                            fail( "size() at quiescence is " + std::to_string( sz ) + " but " + std::to_string( drained ) + " items were drained" );
                        if ( ad.size() != 0 )
                            fail( "size() is not 0 after the container was drained" );
                    }
                    if ( was_empty != ( drained == 0 ))
                        fail( std::string( "empty() at quiescence returned " ) + ( was_empty ? "true" : "false" ) + " but " + std::to_string( drained ) + " items were drained" );
                    if ( !ad.empty())
                        fail( "empty() is false after the container was drained" );
                    ad.counters( k );
                    ad.finish();
                }
            }
            st = session_end();
        }
        if ( !failed()) {
            typedef typename ModelOf<Ad::kind>::type Model;
            LinChecker<Model> lc( hist.ev );
            if ( !lc.check( Model()))
                fail( std::string( "history is not linearizable to a " ) + ModelOf<Ad::kind>::name() + ": " + history_text( hist.ev, kOpNames ));
            if ( lc.gave_up())
                note_class( "lin_gave_up" );
        }
        // overlap of operations of different worker threads inside the concurrent phase
        unsigned ov = 0;
        for ( size_t i = conc_begin; i < conc_end; ++i )
            for ( size_t j = i + 1; j < conc_end; ++j )
                if ( hist.ev[i].thread != hist.ev[j].thread && hist.ev[i].inv < hist.ev[j].resp && hist.ev[j].inv < hist.ev[i].resp )
                    ++ov;
        if ( ov )
            note_class( "overlap" );
        if ( st.preemptions )
            note_class( "preempted" );
        if ( k.fc ) {
            if ( k.elimination )
                note_class( "elimination_enabled" );
            if ( k.collided ) {
                note_class( "collided" );
                note_class( "collisions_total", k.collided );
                if ( Ad::collide_class())
                    note_class( Ad::collide_class());
            }
            if ( k.ops > k.combinings )
                note_class( "combined_multi" );     // pigeonhole: some combiner invocation served >= 2 operations
            if ( k.pwait )
                note_class( "passive_wait" );
            if ( k.notified )
                note_class( "wakeup_by_notify" );
            if ( k.p2c )
                note_class( "passive_to_combiner" );
            if ( k.pwakeup )
                note_class( "passive_done_wakeup" );
            if ( k.compact )
                note_class( "compacted" );
            if ( k.deact )
                note_class( "pubrec_deactivated" );
            if ( k.act > c.prog.size())
                note_class( "pubrec_republished" );
            if ( k.deleted )
                note_class( "pubrec_freed_by_compact" );  // read before ~kernel: a `removed` record of an exited thread was freed by compact_list()
        }
        return finish( st, hist.hash(), ov > 0 && st.switches > c.prog.size());
    }

    // ---- variant table --------------------------------------------------------------------
    typedef std::queue<int> q_deque;
    typedef std::queue<int, std::list<int>> q_list;
    typedef std::stack<int> s_deque;
    typedef std::stack<int, std::vector<int>> s_vector;
    typedef std::deque<int> d_std;
    typedef boost::container::deque<int> d_boost;
    typedef std::priority_queue<Item, std::vector<Item>, ItemLess> pq_vector;
    typedef std::priority_queue<Item, std::deque<Item>, ItemLess> pq_deque;

    template <typename WS, bool Elim, typename Lock = cds::sync::spin>
    using tq = fc_traits<cc::fcqueue::traits, cc::fcqueue::stat<PlainCounter>, WS, Elim, Lock>;
    template <typename WS, bool Elim>
    using ts = fc_traits<cc::fcstack::traits, cc::fcstack::stat<PlainCounter>, WS, Elim>;
    template <typename WS, bool Elim>
    using td = fc_traits<cc::fcdeque::traits, cc::fcdeque::stat<PlainCounter>, WS, Elim>;
    template <typename WS>
    using tp = fc_traits<cc::fcpqueue::traits, cc::fcpqueue::stat<PlainCounter>, WS, false>;
    template <typename WS, bool Elim>
    using tiq = fc_traits<ci::fcqueue::traits, ci::fcqueue::stat<PlainCounter>, WS, Elim>;
    template <typename WS, bool Elim>
    using tis = fc_traits<ci::fcstack::traits, ci::fcstack::stat<PlainCounter>, WS, Elim>;

    struct Variant {
        const char* name;
        Verdict (*run)( Case const& );
    };

#define FCQ( C, WS, E ) run_fc<FcQueueAd<cc::FCQueue<int, C, tq<WS, E>>>>
#define FCS( C, WS, E ) run_fc<FcStackAd<cc::FCStack<int, C, ts<WS, E>>>>
#define FCD( C, WS, E ) run_fc<FcDequeAd<cc::FCDeque<int, C, td<WS, E>>>>
#define FCP( C, WS ) run_fc<FcPqAd<cc::FCPriorityQueue<Item, C, tp<WS>>>>
#define IFQ( WS, E ) run_fc<FcIntrAd<ci::FCQueue<LNode, boost::intrusive::list<LNode>, tiq<WS, E>>, LNode, K_QUEUE>>
#define IFS( WS, E ) run_fc<FcIntrAd<ci::FCStack<SNode, boost::intrusive::slist<SNode>, tis<WS, E>>, SNode, K_STACK>>

    const Variant kVariants[] = {
        // C06
        { "RWQueue_mutex_ic", run_fc<RwAd<cc::RWQueue<int, rw_mutex_ic>>> },                                   // 0
        { "RWQueue_spin_ic", run_fc<RwAd<cc::RWQueue<int, rw_spin_ic>>> },
        { "RWQueue_spin", run_fc<RwAd<cc::RWQueue<int>>> },
        { "FCQueue_deque_noelim_backoff", FCQ( q_deque, ws_backoff, false ) },                                 // 3
        { "FCQueue_deque_noelim_empty", FCQ( q_deque, ws_empty, false ) },
        { "FCQueue_deque_noelim_ss", FCQ( q_deque, ws_ss, false ) },
        { "FCQueue_deque_noelim_mm", FCQ( q_deque, ws_mm, false ) },
        { "FCQueue_deque_elim_backoff", FCQ( q_deque, ws_backoff, true ) },                                    // 7
        { "FCQueue_deque_elim_empty", FCQ( q_deque, ws_empty, true ) },
        { "FCQueue_deque_elim_ss", FCQ( q_deque, ws_ss, true ) },
        { "FCQueue_deque_elim_mm", FCQ( q_deque, ws_mm, true ) },
        { "FCQueue_list_noelim_backoff", FCQ( q_list, ws_backoff, false ) },                                   // 11
        { "FCQueue_list_noelim_empty", FCQ( q_list, ws_empty, false ) },
        { "FCQueue_list_noelim_ss", FCQ( q_list, ws_ss, false ) },
        { "FCQueue_list_noelim_mm", FCQ( q_list, ws_mm, false ) },
        { "FCQueue_list_elim_backoff", FCQ( q_list, ws_backoff, true ) },                                      // 15
        { "FCQueue_list_elim_empty", FCQ( q_list, ws_empty, true ) },
        { "FCQueue_list_elim_ss", FCQ( q_list, ws_ss, true ) },
        { "FCQueue_list_elim_mm", FCQ( q_list, ws_mm, true ) },
        { "FCQueue_list_elim_sm", FCQ( q_list, ws_sm, true ) },                                                // 19
        { "FCQueue_deque_elim_backoff_stdmutex", run_fc<FcQueueAd<cc::FCQueue<int, q_deque, tq<ws_backoff, true, std::mutex>>>> },
        { "intrusive_FCQueue_noelim_backoff", IFQ( ws_backoff, false ) },                                      // 21
        { "intrusive_FCQueue_noelim_mm", IFQ( ws_mm, false ) },
        { "intrusive_FCQueue_elim_backoff", IFQ( ws_backoff, true ) },
        { "intrusive_FCQueue_elim_ss", IFQ( ws_ss, true ) },
        // C09
        { "FCStack_deque_noelim_backoff", FCS( s_deque, ws_backoff, false ) },                                 // 25
        { "FCStack_deque_elim_backoff", FCS( s_deque, ws_backoff, true ) },
        { "FCStack_deque_elim_empty", FCS( s_deque, ws_empty, true ) },
        { "FCStack_deque_elim_ss", FCS( s_deque, ws_ss, true ) },
        { "FCStack_vector_noelim_mm", FCS( s_vector, ws_mm, false ) },
        { "FCStack_vector_elim_mm", FCS( s_vector, ws_mm, true ) },
        { "FCStack_vector_elim_backoff", FCS( s_vector, ws_backoff, true ) },
        { "intrusive_FCStack_slist_noelim_backoff", IFS( ws_backoff, false ) },                                // 32
        { "intrusive_FCStack_slist_elim_backoff", IFS( ws_backoff, true ) },
        { "intrusive_FCStack_slist_elim_ss", IFS( ws_ss, true ) },
        { "intrusive_FCStack_list_elim_mm", run_fc<FcIntrAd<ci::FCStack<LNode, boost::intrusive::list<LNode>, tis<ws_mm, true>>, LNode, K_STACK>> },
        // C10
        { "FCDeque_std_noelim_backoff", FCD( d_std, ws_backoff, false ) },                                     // 36
        { "FCDeque_std_elim_backoff", FCD( d_std, ws_backoff, true ) },
        { "FCDeque_std_elim_empty", FCD( d_std, ws_empty, true ) },
        { "FCDeque_std_elim_ss", FCD( d_std, ws_ss, true ) },
        { "FCDeque_std_elim_mm", FCD( d_std, ws_mm, true ) },
        { "FCDeque_boost_noelim_mm", FCD( d_boost, ws_mm, false ) },
        { "FCDeque_boost_elim_backoff", FCD( d_boost, ws_backoff, true ) },
        { "FCDeque_boost_elim_sm", FCD( d_boost, ws_sm, true ) },
        // C11
        { "FCPriorityQueue_vector_backoff", FCP( pq_vector, ws_backoff ) },                                    // 44
        { "FCPriorityQueue_vector_empty", FCP( pq_vector, ws_empty ) },
        { "FCPriorityQueue_vector_ss", FCP( pq_vector, ws_ss ) },
        { "FCPriorityQueue_deque_backoff", FCP( pq_deque, ws_backoff ) },
        { "FCPriorityQueue_deque_mm", FCP( pq_deque, ws_mm ) },                                                // 48
    };
    const size_t kNumVariants = sizeof( kVariants ) / sizeof( kVariants[0] );
}

namespace cdsverif {
    Schema const& harness_schema()
    {
        static Schema s = []() {
            Schema x;
            x.name = "fc_containers";
            for ( size_t i = 0; i < kNumVariants; ++i )
                x.variants.push_back( kVariants[i].name );
            // combine_pass: FC kernel nCombinePassCount; compact: index into {1,2,1024} = FC kernel nCompactFactor
            x.cfg = { { "combine_pass", 1, 4 }, { "compact", 0, 2 }, { "prefill", 0, 2 } };
            // union op set; queue / stack / pq read push_front as push and pop_front as pop.
            // a = priority (pq), b = overload selector (0 copy / 1 move, RWQueue pop: dequeue / dequeue_with)
            x.ops = { { "push", 5, 2, 1 }, { "pop", 5, 2, 1 }, { "push_front", 3, 2, 1 }, { "pop_front", 3, 2, 1 } };
            x.max_ops_quick = 5;
            x.max_ops_thorough = 7;
            x.nontrivial_rule = "inside the concurrent phase >=1 pair of operations of different worker threads overlaps in time and the scheduler made more token switches than there are worker threads; "
                                "elimination collisions (classes collided / collided_<container>) and multi-record combiner invocations (class combined_multi) are counted separately";
            return x;
        }();
        return s;
    }

    Verdict run_case( Case const& c )
    {
        size_t v = size_t( c.variant ) < kNumVariants ? size_t( c.variant ) : 0;
        return kVariants[v].run( c );
    }
}
