// C17 (large tables): sequential growth of hash containers with hundreds of keys and big initial
// capacities, so that multi-segment bucket tables / many buckets / deep arrays are reached.
// Oracle: std::set differential after every step (contains for every key ever used, size(),
// iteration count and content).
#include "common.h"

#include <set>
#include <unordered_set>

#include <cds/container/michael_list_hp.h>
#include <cds/container/lazy_list_hp.h>
#include <cds/container/split_list_set.h>
#include <cds/container/feldman_hashset_hp.h>
#include <cds/container/striped_set/std_list.h>
#include <cds/container/striped_set/std_hash_set.h>
#include <cds/container/striped_set.h>

namespace hv {
    Registry& registry()
    {
        static Registry r;
        return r;
    }
    Graveyard& graveyard()
    {
        static Graveyard g;
        return g;
    }
}

using namespace hv;
namespace cc = cds::container;
typedef cds::gc::HP HP;

namespace {
    int g_hash_kind = 0;
    int g_hash_par = 0;

    // generated hash family over keys 0..1023
    inline size_t gen_hash( int k )
    {
        size_t x = size_t( k );
        switch ( g_hash_kind % 6 ) {
        case 0: return x;                                   // identity
        case 1: return x << ( 1 + g_hash_par % 12 );        // low bits zero
        case 2: return x * size_t( 2 * g_hash_par + 1 );    // odd multiplier
        case 3: return x & size_t(( 16 << ( g_hash_par % 5 )) - 1 );   // low-entropy: many keys share a bucket
        case 4: return x >> ( g_hash_par % 3 );             // neighbours collide
        default: return ( x << 52 ) | ( x >> 3 );           // high bits + collisions
        }
    }
    struct Hash {
        size_t operator()( int k ) const { return gen_hash( k ); }
    };
    struct Hash2 {
        size_t operator()( int k ) const { return size_t( k ) * 7 + 3; }
    };
    struct Less {
        bool operator()( int a, int b ) const { return a < b; }
    };
    struct Cmp {
        int operator()( int a, int b ) const { return a < b ? -1 : a > b ? 1 : 0; }
    };

    struct SeqSet {
        virtual ~SeqSet() {}
        virtual bool insert( int k ) = 0;
        virtual bool erase( int k ) = 0;
        virtual bool contains( int k ) = 0;
        virtual size_t size() = 0;
        virtual bool iterate( std::vector<int>& keys ) { (void) keys; return false; }
    };

    template <typename S>
    struct Wrap : SeqSet {
        S s;
        template <typename... A>
        explicit Wrap( A&&... a ) : s( std::forward<A>( a )... ) {}
        bool insert( int k ) override { return s.insert( k ); }
        bool erase( int k ) override { return s.erase( k ); }
        bool contains( int k ) override { return s.contains( k ); }
        size_t size() override { return s.size(); }
    };
    template <typename S>
    struct WrapIter : Wrap<S> {
        template <typename... A>
        explicit WrapIter( A&&... a ) : Wrap<S>( std::forward<A>( a )... ) {}
        bool iterate( std::vector<int>& keys ) override
        {
            size_t guard = 0;
            for ( auto it = this->s.begin(); it != this->s.end(); ++it ) {
                keys.push_back( *it );
                if ( ++guard > 100000 )
                    break;      // a cycle: reported by the caller as a count mismatch
            }
            return true;
        }
    };

    struct sl_michael_dyn : cc::split_list::traits {
        typedef cc::michael_list_tag ordered_list;
        typedef Hash hash;
        typedef cds::atomicity::item_counter item_counter;
        struct ordered_list_traits : cc::michael_list::traits {
            typedef Less less;
        };
    };
    struct sl_lazy_dyn : cc::split_list::traits {
        typedef cc::lazy_list_tag ordered_list;
        typedef Hash hash;
        typedef cds::atomicity::item_counter item_counter;
        struct ordered_list_traits : cc::lazy_list::traits {
            typedef Cmp compare;
        };
    };
    struct sl_michael_static : sl_michael_dyn {
        enum { dynamic_bucket_table = false };
    };
    typedef cc::SplitListSet<HP, int, sl_michael_dyn> SplitMichaelDyn;
    typedef cc::SplitListSet<HP, int, sl_lazy_dyn> SplitLazyDyn;
    typedef cc::SplitListSet<HP, int, sl_michael_static> SplitMichaelStatic;

    struct fh_traits : cc::feldman_hashset::traits {
        struct hash_accessor {
            size_t operator()( int const& k ) const { return size_t( k ) * 0x9E3779B97F4A7C15ull; }      // injective on the key space
        };
        typedef cds::atomicity::item_counter item_counter;
    };
    typedef cc::FeldmanHashSet<HP, int, fh_traits> Feldman;
    struct FeldmanWrap : SeqSet {
        Feldman s;
        FeldmanWrap( size_t h, size_t a ) : s( h, a ) {}
        bool insert( int k ) override { return s.insert( k ); }
        bool erase( int k ) override { return s.erase( fh_traits::hash_accessor()( k )); }
        bool contains( int k ) override { return s.contains( fh_traits::hash_accessor()( k )); }
        size_t size() override { return s.size(); }
        bool iterate( std::vector<int>& keys ) override
        {
            size_t guard = 0;
            for ( auto it = s.begin(); it != s.end(); ++it ) {
                keys.push_back( *it );
                if ( ++guard > 100000 )
                    break;
            }
            return true;
        }
    };

    typedef cc::StripedSet<std::list<int>, cds::opt::hash<Hash>, cds::opt::less<Less>, cds::opt::resizing_policy<cc::striped_set::load_factor_resizing<4>>> StripedList;
    typedef cc::StripedSet<std::unordered_set<int>, cds::opt::hash<Hash>, cds::opt::resizing_policy<cc::striped_set::load_factor_resizing<2>>> StripedUSet;

    struct Variant {
        const char* name;
        bool hp;
        SeqSet* (*make)( Case const& );
    };
    size_t capsel( Case const& c )
    {
        static const size_t caps[] = { 1024, 2048, 4096, 16384 };
        return caps[size_t( cfg_at( c, 2, 0 )) % 4];
    }
    const Variant kVariants[] = {
        { "SplitListSet_michael_dynamic_big", true, []( Case const& c ) -> SeqSet* { return new WrapIter<SplitMichaelDyn>( capsel( c ), size_t( 1 )); } },
        { "SplitListSet_lazy_dynamic_big", true, []( Case const& c ) -> SeqSet* { return new WrapIter<SplitLazyDyn>( capsel( c ), size_t( 1 + cfg_at( c, 3, 0 ) % 2 )); } },
        { "SplitListSet_michael_dynamic_default_ctor", true, []( Case const& ) -> SeqSet* { return new WrapIter<SplitMichaelDyn>(); } },
        { "SplitListSet_michael_static_big", true, []( Case const& c ) -> SeqSet* { return new WrapIter<SplitMichaelStatic>( capsel( c ), size_t( 1 )); } },
        { "FeldmanHashSet_head8_array4", true, []( Case const& c ) -> SeqSet* { return new FeldmanWrap( size_t( 4 + cfg_at( c, 2, 0 ) * 2 ), size_t( 2 + cfg_at( c, 3, 0 ))); } },
        { "StripedSet_std_list_lf4", false, []( Case const& ) -> SeqSet* { return new Wrap<StripedList>(); } },
        { "StripedSet_std_unordered_set_lf2", false, []( Case const& ) -> SeqSet* { return new Wrap<StripedUSet>(); } },
    };
    const size_t kNum = sizeof( kVariants ) / sizeof( kVariants[0] );

    enum { OP_INSERT_RUN = 0, OP_ERASE_RUN, OP_INSERT_ONE, OP_ERASE_ONE, OP_CHECK };
}

namespace cdsverif {
    Schema const& harness_schema()
    {
        static Schema s = []() {
            Schema x;
            x.name = "rehash_big";
            for ( size_t i = 0; i < kNum; ++i )
                x.variants.push_back( kVariants[i].name );
            x.cfg = { { "hash_kind", 0, 5 }, { "hash_par", 0, 15 }, { "capsel", 0, 3 }, { "lf", 0, 3 } };
            // run ops: a = start key 0..1023, b = length selector 0..7 (1..128 keys, stride from the case seed)
            x.ops = { { "insert_run", 8, 1023, 7 }, { "erase_run", 3, 1023, 7 }, { "insert", 3, 1023, 0 }, { "erase", 3, 1023, 0 }, { "check", 1, 0, 0 } };
            x.sequential = true;
            x.max_ops_quick = 16;
            x.max_ops_thorough = 30;
            x.nontrivial_rule = "more than 64 distinct keys were present at some step, at least one erase removed a present key, and every inserted key was re-checked after later growth";
            return x;
        }();
        return s;
    }

    Verdict run_case( Case const& c )
    {
        lib_init();
        case_reset();
        g_hash_kind = cfg_at( c, 0, 0 );
        g_hash_par = cfg_at( c, 1, 0 );
        size_t v = size_t( c.variant ) < kNum ? size_t( c.variant ) : 0;
        std::set<int> model;
        std::set<int> touched;
        size_t peak = 0;
        bool removed = false;
        uint64_t h = 0x77;
        {
            std::unique_ptr<HpSingleton> hp;
            if ( kVariants[v].hp )
                hp.reset( new HpSingleton( 16, 2, 0, false ));
            Attach at;
            std::unique_ptr<SeqSet> s( kVariants[v].make( c ));
            auto full_check = [&]( const char* when ) {
                if ( failed())
                    return;
                for ( int k : touched ) {
                    bool got = s->contains( k );
                    bool want = model.count( k ) != 0;
                    if ( got != want ) {
                        fail( std::string( "contains(" ) + std::to_string( k ) + ") = " + ( got ? "true" : "false" ) + " but the reference model says "
                            + ( want ? "true" : "false" ) + " (" + when + ", " + std::to_string( model.size()) + " keys in the model)" );
                        return;
                    }
                }
                if ( s->size() != model.size()) {
                    fail( "size() = " + std::to_string( s->size()) + " but the reference model holds " + std::to_string( model.size()) + " keys (" + when + ")" );
                    return;
                }
                std::vector<int> keys;
                if ( s->iterate( keys )) {
                    std::set<int> seen( keys.begin(), keys.end());
                    if ( keys.size() != model.size() || seen != model )
                        fail( "iteration visited " + std::to_string( keys.size()) + " elements (" + std::to_string( seen.size()) + " distinct) but the reference model holds "
                            + std::to_string( model.size()) + " keys (" + when + ")" );
                }
            };
            auto one = [&]( bool ins, int k ) {
                touched.insert( k );
                if ( ins ) {
                    bool got = s->insert( k );
                    bool want = model.insert( k ).second;
                    if ( got != want )
                        fail( "insert(" + std::to_string( k ) + ") returned " + ( got ? "true" : "false" ) + ", the reference model expects " + ( want ? "true" : "false" ));
                }
                else {
                    bool got = s->erase( k );
                    bool want = model.erase( k ) != 0;
                    if ( want )
                        removed = true;
                    if ( got != want )
                        fail( "erase(" + std::to_string( k ) + ") returned " + ( got ? "true" : "false" ) + ", the reference model expects " + ( want ? "true" : "false" ));
                }
                if ( model.size() > peak )
                    peak = model.size();
            };
            int stride = 1 + int( c.seed % 3 );
            if ( !c.prog.empty())
                for ( Op const& op : c.prog[0] ) {
                    if ( failed())
                        break;
                    h = hash_mix( h, uint64_t( op.code ) * 131 + uint64_t( op.a ) * 7 + uint64_t( op.b ));
                    switch ( op.code ) {
                    case OP_INSERT_RUN:
                    case OP_ERASE_RUN: {
                        int n = 1 << ( op.b % 8 );
                        for ( int i = 0; i < n && !failed(); ++i )
                            one( op.code == OP_INSERT_RUN, ( op.a + i * stride ) % 1024 );
                        full_check( "after a run" );
                        break;
                    }
                    case OP_INSERT_ONE:
                        one( true, op.a );
                        break;
                    case OP_ERASE_ONE:
                        one( false, op.a );
                        break;
                    default:
                        full_check( "check op" );
                        break;
                    }
                }
            full_check( "end" );
        }
        for ( int x : c.cfg )
            h = hash_mix( h, uint64_t( x ));
        if ( peak > 64 )
            note_class( "more_than_64_keys" );
        if ( peak > 256 )
            note_class( "more_than_256_keys" );
        return finish( SchedStats(), hash_mix( h, uint64_t( c.variant )), peak > 64 && removed );
    }
}
