// Family lists_hp (C13, C18 part): ordered lists over HP and DHP
//   container::MichaelList / LazyList / IterableList            (value sets of mh::Item)
//   container::MichaelKVList / LazyKVList / IterableKVList      (int -> Mapped maps)
//   intrusive::MichaelList / LazyList (base_hook) / IterableList (hook-less)
// Every list type is wrapped into a "probe" class derived from it which, at quiescent points only,
// walks the raw links through the protected members (C18: no marked link / data slot may remain).
#ifndef CDSVERIF_H_FAM_LISTS_HP_H
#define CDSVERIF_H_FAM_LISTS_HP_H

#include "mapcommon.h"
#include "map_adapters.h"

#include <mutex>

#include <cds/intrusive/michael_list_hp.h>
#include <cds/intrusive/michael_list_dhp.h>
#include <cds/intrusive/lazy_list_hp.h>
#include <cds/intrusive/lazy_list_dhp.h>
#include <cds/intrusive/iterable_list_hp.h>
#include <cds/intrusive/iterable_list_dhp.h>
#include <cds/container/michael_list_hp.h>
#include <cds/container/michael_list_dhp.h>
#include <cds/container/lazy_list_hp.h>
#include <cds/container/lazy_list_dhp.h>
#include <cds/container/iterable_list_hp.h>
#include <cds/container/iterable_list_dhp.h>
#include <cds/container/michael_kvlist_hp.h>
#include <cds/container/michael_kvlist_dhp.h>
#include <cds/container/lazy_kvlist_hp.h>
#include <cds/container/lazy_kvlist_dhp.h>
#include <cds/container/iterable_kvlist_hp.h>
#include <cds/container/iterable_kvlist_dhp.h>

namespace fam_lists_hp {
    using namespace mh;
    namespace cc = cds::container;
    namespace ci = cds::intrusive;

    // ---------------------------------------------------------------------------------------
    // C18 probes: derived classes that may read the protected link fields. Only called when no
    // list operation is in progress. The walk is bounded so that a cyclic list is reported, not hung on.
    // ---------------------------------------------------------------------------------------
    static constexpr int kWalkLimit = 4096;

    // MichaelList: a logically deleted node (its m_pNext carries the mark bit) may legally stay linked
    // after erase() returned (the physical-unlink CAS of unlink_node() is allowed to fail); it is removed
    // by the next search() that passes it. The runner performs contains(k) for every key before it calls
    // check_structure(), the last of which passes over every node: afterwards no marked node may be linked.
    template <typename L>
    struct MichaelProbe : L {
        void probe( bool )
        {
            auto p = this->m_pHead.load( std::memory_order_relaxed );
            if ( p.bits())
                fail( "MichaelList: the head pointer carries a deletion mark" );
            int n = 0;
            while ( p.ptr()) {
                auto nx = p.ptr()->m_pNext.load( std::memory_order_relaxed );
                if ( nx.bits()) {
                    fail( "MichaelList: a logically deleted (marked) node is still linked at a quiescent point after a full search pass" );
                    return;
                }
                p = nx;
                if ( ++n > kWalkLimit ) {
                    fail( "MichaelList: the raw link chain does not terminate (cycle)" );
                    return;
                }
            }
        }
    };

    // LazyList: the logical mark and the physical unlink happen inside one critical section (both
    // neighbours locked), hence at quiescence no linked node is marked and the chain ends at the tail.
    template <typename L>
    struct LazyProbe : L {
        void probe( bool )
        {
            auto* tail = &this->m_Tail;
            auto p = this->m_Head.m_pNext.load( std::memory_order_relaxed );
            if ( p.bits())
                fail( "LazyList: the head node is marked" );
            int n = 0;
            while ( p.ptr() != tail ) {
                if ( !p.ptr()) {
                    fail( "LazyList: the raw link chain ends with a null pointer instead of the tail node" );
                    return;
                }
                auto nx = p.ptr()->m_pNext.load( std::memory_order_relaxed );
                if ( nx.bits()) {
                    fail( "LazyList: a logically deleted (marked) node is still linked at a quiescent point" );
                    return;
                }
                p = nx;
                if ( ++n > kWalkLimit ) {
                    fail( "LazyList: the raw link chain does not terminate (cycle)" );
                    return;
                }
            }
        }
    };

    // IterableList: nodes are never unlinked, only their data slot is emptied; link_data() sets the LSB of
    // the data slots of both neighbours temporarily and clears it before it returns: at quiescence no data
    // slot may carry the mark (a leaked mark makes the slot "undeletable"/"unlinkable" for ever).
    template <typename L>
    struct IterableProbe : L {
        void probe( bool )
        {
            auto* p = &this->m_Head;
            if ( p->data.load( std::memory_order_relaxed ).all() != nullptr )
                fail( "IterableList: the dummy head node carries data or a mark" );
            int n = 0;
            for ( ;; ) {
                auto* nx = p->next.load( std::memory_order_relaxed );
                if ( nx == p )
                    break;      // tail: next == self
                if ( !nx ) {
                    fail( "IterableList: the raw link chain ends with a null pointer instead of the tail node" );
                    return;
                }
                if ( nx->data.load( std::memory_order_relaxed ).bits()) {
                    fail( "IterableList: a data slot still carries link_data()'s temporary mark at a quiescent point" );
                    return;
                }
                p = nx;
                if ( ++n > kWalkLimit ) {
                    fail( "IterableList: the raw link chain does not terminate (cycle)" );
                    return;
                }
            }
            if ( p != &this->m_Tail )
                fail( "IterableList: the raw link chain does not end at the list's own tail node" );
        }
    };

    // ---------------------------------------------------------------------------------------
    // value containers
    // ---------------------------------------------------------------------------------------
    // container::MichaelList / LazyList: the standard guarded set API + probe
    template <typename PL>
    struct ValueListAdapter : GuardedSetAdapter<PL> {
        explicit ValueListAdapter( Case const& c ) : GuardedSetAdapter<PL>( c ) {}
        void check_structure( bool had_removals ) override { this->s.probe( had_removals ); }
    };

    // container::IterableList<GC, Item>: update(val, f(Item& val, Item* old), bInsert) / upsert(val, bInsert) REPLACE the stored object
    template <typename PL>
    struct IterableSetAdapter : AdapterBase {
        typedef typename PL::gc GC;
        PL s;
        int hold;

        explicit IterableSetAdapter( Case const& c ) : hold( cfg_at( c, 2, 0 )) {}

        bool supports( int op ) const override { return op != O_UNLINK && op != O_EXTRACT_MIN && op != O_EXTRACT_MAX; }
        bool update_replaces() const override { return true; }

        Res apply( int op, int key, int tag ) override
        {
            Res r;
            switch ( op ) {
            case O_INSERT:
                r.r = s.insert( Item( key, tag )) ? 1 : 0;
                break;
            case O_INSERT_F: {
                int calls = 0;
                r.r = s.insert( Item( key, tag ), [&]( Item& it ) { ++calls; r.key = it.key; } ) ? 1 : 0;
                r.fcalls = calls;
                break;
            }
            case O_UPDATE:
            case O_UPDATE_NOINS: {
                std::pair<bool, bool> p;
                if ( tag & 1 ) {
                    int calls = 0;
                    p = s.update( Item( key, tag ), [&]( Item& val, Item* old ) {
                        ++calls;
                        r.fnew = old ? 0 : 1;
                        r.key = val.key;
                        if ( val.tag != tag )
                            fail( "IterableList::update: the functor's first argument is not the object constructed from the argument" );
                        if ( old ) {
                            r.tag = old->tag;       // old is still protected by the operation's guard
                            if ( old->key != key )
                                fail( "IterableList::update: the replaced item has key " + std::to_string( old->key ) + ", expected " + std::to_string( key ));
                            if ( old->canary != 0xabcdef )
                                fail( "IterableList::update: the replaced item passed to the functor has a bad canary" );
                        }
                    }, op == O_UPDATE );
                    r.fcalls = calls;
                }
                else
                    p = s.upsert( Item( key, tag ), op == O_UPDATE );
                r.r = !p.first ? 0 : p.second ? 2 : 1;
                if ( r.r == 2 )
                    r.tag = tag;
                break;
            }
            case O_EMPLACE:
                r.r = s.emplace( key, tag ) ? 1 : 0;
                break;
            case O_ERASE:
                r.r = s.erase( key ) ? 1 : 0;
                break;
            case O_ERASE_F: {
                int calls = 0;
                r.r = s.erase( key, [&]( Item const& it ) { ++calls; r.tag = it.tag; r.key = it.key; } ) ? 1 : 0;
                r.fcalls = calls;
                break;
            }
            case O_EXTRACT: {
                typename PL::guarded_ptr gp( s.extract( key ));
                if ( gp ) {
                    r.r = 1;
                    r.tag = gp->tag;
                    r.key = gp->key;
                    hold_and_check( &*gp, hold );
                }
                break;
            }
            case O_GET: {
                typename PL::guarded_ptr gp( s.get( key ));
                if ( gp ) {
                    r.r = 1;
                    r.tag = gp->tag;
                    r.key = gp->key;
                    hold_and_check( &*gp, hold );
                }
                break;
            }
            case O_FIND_F: {
                int calls = 0;
                r.r = s.find( key, [&]( Item& it, int const& ) { ++calls; r.tag = it.tag; r.key = it.key; } ) ? 1 : 0;
                r.fcalls = calls;
                break;
            }
            case O_CONTAINS:
                r.r = s.contains( key ) ? 1 : 0;
                break;
            default:
                r.unsupported = true;
                break;
            }
            return r;
        }

        bool has_counter() const override { return !std::is_same<typename PL::item_counter, cds::atomicity::empty_item_counter>::value; }
        size_t size() const override { return s.size(); }
        bool empty() const override { return s.empty(); }
        bool traverse( std::vector<int>& keys ) override
        {
            for ( auto it = s.begin(); it != s.end(); ++it ) {
                if ( it->canary != 0xabcdef )
                    fail( "IterableList: iterator reached an item with a bad canary" );
                keys.push_back( it->key );
            }
            return true;
        }
        void check_structure( bool had_removals ) override { s.probe( had_removals ); }
        void scan() override { GC::scan(); }
    };

    // ---------------------------------------------------------------------------------------
    // key-value lists
    // ---------------------------------------------------------------------------------------
    // insert(key) / update(key, ...) / insert_with(key, ...) default-construct the mapped value inside the library:
    // the default constructor picks up the tag the calling thread announced just before the call.
    inline int& pending_tag()
    {
        static thread_local int t = -7;
        return t;
    }
    struct Mapped {
        int tag;
        uint64_t canary = 0xabcdef;
        Mapped() : tag( pending_tag()) {}
        explicit Mapped( int t ) : tag( t ) {}
    };

    template <typename PL, bool Iterable>
    struct KVListAdapter : AdapterBase {
        typedef typename PL::gc GC;
        typedef typename PL::value_type pair_type;      // std::pair<int const, Mapped>
        PL s;
        int hold;

        explicit KVListAdapter( Case const& c ) : hold( cfg_at( c, 2, 0 )) {}

        bool supports( int op ) const override { return op != O_UNLINK && op != O_EXTRACT_MIN && op != O_EXTRACT_MAX; }
        bool update_replaces() const override { return Iterable; }

        struct Pending {
            explicit Pending( int t ) { pending_tag() = t; }
            ~Pending() { pending_tag() = -7; }
        };

        Res apply( int op, int key, int tag ) override
        {
            Res r;
            Pending pend( tag );
            switch ( op ) {
            case O_INSERT:
                if ( tag & 1 )
                    r.r = s.insert( key ) ? 1 : 0;                  // mapped value default-constructed
                else
                    r.r = s.insert( key, Mapped( tag )) ? 1 : 0;
                break;
            case O_INSERT_F: {
                int calls = 0;
                r.r = s.insert_with( key, [&]( pair_type& p ) {
                    ++calls;
                    r.key = p.first;
                    p.second.tag = tag;     // same value the default constructor stored: concurrent readers never see an intermediate tag
                } ) ? 1 : 0;
                r.fcalls = calls;
                break;
            }
            case O_UPDATE:
            case O_UPDATE_NOINS:
                r = do_update( op, key, tag, std::integral_constant<bool, Iterable>());
                break;
            case O_EMPLACE:
                r.r = s.emplace( key, tag ) ? 1 : 0;
                break;
            case O_ERASE:
                r.r = s.erase( key ) ? 1 : 0;
                break;
            case O_ERASE_F: {
                int calls = 0;
                r.r = s.erase( key, [&]( pair_type& p ) { ++calls; r.tag = p.second.tag; r.key = p.first; } ) ? 1 : 0;
                r.fcalls = calls;
                break;
            }
            case O_EXTRACT: {
                typename PL::guarded_ptr gp( s.extract( key ));
                if ( gp ) {
                    r.r = 1;
                    r.tag = gp->second.tag;
                    r.key = gp->first;
                    hold_and_check( &gp->second, hold );
                }
                break;
            }
            case O_GET: {
                typename PL::guarded_ptr gp( s.get( key ));
                if ( gp ) {
                    r.r = 1;
                    r.tag = gp->second.tag;
                    r.key = gp->first;
                    hold_and_check( &gp->second, hold );
                }
                break;
            }
            case O_FIND_F: {
                int calls = 0;
                r.r = s.find( key, [&]( pair_type& p ) { ++calls; r.tag = p.second.tag; r.key = p.first; } ) ? 1 : 0;
                r.fcalls = calls;
                break;
            }
            case O_CONTAINS:
                r.r = s.contains( key ) ? 1 : 0;
                break;
            default:
                r.unsupported = true;
                break;
            }
            return r;
        }

        // Michael/Lazy: update(key, f(bool bNew, pair&), bAllowInsert): the existing item stays
        Res do_update( int op, int key, int tag, std::false_type )
        {
            Res r;
            int calls = 0;
            std::pair<bool, bool> p = s.update( key, [&]( bool bNew, pair_type& item ) {
                ++calls;
                r.fnew = bNew ? 1 : 0;
                r.key = item.first;
                if ( bNew )
                    item.second.tag = tag;
                else
                    r.tag = item.second.tag;
            }, op == O_UPDATE );
            r.fcalls = calls;
            r.r = !p.first ? 0 : p.second ? 2 : 1;
            if ( r.r == 2 )
                r.tag = tag;
            return r;
        }
        // Iterable: update(key, f(pair& val, pair* old), bAllowInsert) / upsert(key, val, bInsert): the stored pair is replaced
        Res do_update( int op, int key, int tag, std::true_type )
        {
            Res r;
            std::pair<bool, bool> p;
            if ( tag & 1 ) {
                int calls = 0;
                p = s.update( key, [&]( pair_type& val, pair_type* old ) {
                    ++calls;
                    r.fnew = old ? 0 : 1;
                    r.key = val.first;
                    val.second.tag = tag;
                    if ( old ) {
                        r.tag = old->second.tag;
                        if ( old->first != key )
                            fail( "IterableKVList::update: the replaced item has key " + std::to_string( old->first ) + ", expected " + std::to_string( key ));
                        if ( old->second.canary != 0xabcdef )
                            fail( "IterableKVList::update: the replaced item passed to the functor has a bad canary" );
                    }
                }, op == O_UPDATE );
                r.fcalls = calls;
            }
            else
                p = s.upsert( key, Mapped( tag ), op == O_UPDATE );
            r.r = !p.first ? 0 : p.second ? 2 : 1;
            if ( r.r == 2 )
                r.tag = tag;
            return r;
        }

        bool has_counter() const override { return !std::is_same<typename PL::item_counter, cds::atomicity::empty_item_counter>::value; }
        size_t size() const override { return s.size(); }
        bool empty() const override { return s.empty(); }
        bool traverse( std::vector<int>& keys ) override
        {
            for ( auto it = s.begin(); it != s.end(); ++it ) {
                if ( it->second.canary != 0xabcdef )
                    fail( "KV list: iterator reached an item with a bad canary" );
                keys.push_back( it->first );
            }
            return true;
        }
        void check_structure( bool had_removals ) override { s.probe( had_removals ); }
        void scan() override { GC::scan(); }
    };

    // ---------------------------------------------------------------------------------------
    // intrusive lists
    // ---------------------------------------------------------------------------------------
    struct NodePayload {
        int key = 0;
        int tag = 0;
        int id = -1;
        uint64_t canary = 0xabcdef;
    };
    template <typename GC>
    struct MNode : ci::michael_list::node<GC>, NodePayload {};
    template <typename GC, typename Lock = cds::sync::spin>
    struct LNode : ci::lazy_list::node<GC, Lock>, NodePayload {};
    struct INode : NodePayload {};
    // the libcds hooks have a member type named `tag`: always reach the payload through its own base class
    inline NodePayload& pl( NodePayload& n ) { return n; }
    inline NodePayload const& pl( NodePayload const& n ) { return n; }

    struct KeyOf {
        static int k( int v ) { return v; }
        static int k( NodePayload const& n ) { return n.key; }
    };
    struct NodeLess {
        template <typename A, typename B>
        bool operator()( A const& a, B const& b ) const { return KeyOf::k( a ) < KeyOf::k( b ); }
    };
    struct NodeCmp {
        template <typename A, typename B>
        int operator()( A const& a, B const& b ) const
        {
            int x = KeyOf::k( a ), y = KeyOf::k( b );
            return x < y ? -1 : x > y ? 1 : 0;
        }
    };
    // The SMR calls the disposer when no guard protects the item any more: account it, then really free it
    // (clients read items only through guarded_ptr / inside functors, any later access is an ASan report)
    struct NodeDisposer {
        template <typename N>
        void operator()( N* p ) const
        {
            NodePayload& d = *p;
            if ( d.canary != 0xabcdef )
                fail( "disposer called for an item with a bad canary (already disposed?)" );
            registry().on_dispose( d.id, "list item" );
            d.canary = 0xdead;
            delete p;
        }
    };

    template <typename PL, typename Node, bool Iterable>
    struct IntrusiveListAdapter : AdapterBase {
        typedef typename PL::gc GC;
        PL s;
        int hold;

        explicit IntrusiveListAdapter( Case const& c ) : hold( cfg_at( c, 2, 0 )) {}

        bool supports( int op ) const override { return op != O_EMPLACE && op != O_EXTRACT_MIN && op != O_EXTRACT_MAX; }
        bool update_replaces() const override { return Iterable; }

        static Node* make_node( int key, int tag )
        {
            Node* n = new Node;
            pl( *n ).key = key;
            pl( *n ).tag = tag;
            pl( *n ).id = registry().add();
            return n;
        }
        // the node was never linked (failed insertion / update of an existing key on a non-replacing list)
        static void discard( Node* n )
        {
            registry().drop( pl( *n ).id );
            pl( *n ).canary = 0xdead;
            delete n;
        }

        Res apply( int op, int key, int tag ) override
        {
            Res r;
            switch ( op ) {
            case O_INSERT: {
                Node* n = make_node( key, tag );
                r.r = s.insert( *n ) ? 1 : 0;
                if ( !r.r )
                    discard( n );
                break;
            }
            case O_INSERT_F: {
                Node* n = make_node( key, tag );
                int calls = 0;
                r.r = s.insert( *n, [&]( Node& it ) {
                    ++calls;
                    r.key = pl( it ).key;
                    if ( &it != n )
                        fail( "intrusive insert(val, f): the functor received another object than val" );
                } ) ? 1 : 0;
                r.fcalls = calls;
                if ( !r.r )
                    discard( n );
                break;
            }
            case O_UPDATE:
            case O_UPDATE_NOINS:
                r = do_update( op, key, tag, std::integral_constant<bool, Iterable>());
                break;
            case O_ERASE:
                r.r = s.erase( key ) ? 1 : 0;
                break;
            case O_ERASE_F: {
                int calls = 0;
                r.r = s.erase( key, [&]( Node const& it ) { ++calls; r.tag = pl( it ).tag; r.key = pl( it ).key; } ) ? 1 : 0;
                r.fcalls = calls;
                break;
            }
            case O_EXTRACT: {
                typename PL::guarded_ptr gp( s.extract( key ));
                if ( gp ) {
                    r.r = 1;
                    r.tag = pl( *gp ).tag;
                    r.key = pl( *gp ).key;
                    hold_and_check( static_cast<NodePayload const*>( &*gp ), hold );
                }
                break;
            }
            case O_GET: {
                typename PL::guarded_ptr gp( s.get( key ));
                if ( gp ) {
                    r.r = 1;
                    r.tag = pl( *gp ).tag;
                    r.key = pl( *gp ).key;
                    hold_and_check( static_cast<NodePayload const*>( &*gp ), hold );
                }
                break;
            }
            case O_FIND_F: {
                int calls = 0;
                r.r = s.find( key, [&]( Node& it, int const& ) { ++calls; r.tag = pl( it ).tag; r.key = pl( it ).key; } ) ? 1 : 0;
                r.fcalls = calls;
                break;
            }
            case O_CONTAINS:
                r.r = s.contains( key ) ? 1 : 0;
                break;
            case O_UNLINK: {
                // find the object, then ask the list to unlink exactly that object while it is still guarded
                typename PL::guarded_ptr gp( s.get( key ));
                if ( !gp ) {
                    r.r = 2;
                    break;
                }
                r.tag = pl( *gp ).tag;
                r.key = pl( *gp ).key;
                if ( pl( *gp ).key != key )
                    fail( "get returned an item with key " + std::to_string( pl( *gp ).key ) + " for key " + std::to_string( key ));
                hold_and_check( static_cast<NodePayload const*>( &*gp ), hold );
                r.r = s.unlink( *gp ) ? 1 : 0;
                hold_and_check( static_cast<NodePayload const*>( &*gp ), hold ? 1 : 0 );
                break;
            }
            default:
                r.unsupported = true;
                break;
            }
            return r;
        }

        // Michael/Lazy: update(val, f(bool bNew, Node& item, Node& val), bAllowInsert): an existing item stays, val is not linked
        Res do_update( int op, int key, int tag, std::false_type )
        {
            Res r;
            Node* n = make_node( key, tag );
            int calls = 0;
            std::pair<bool, bool> p = s.update( *n, [&]( bool bNew, Node& item, Node& val ) {
                ++calls;
                r.fnew = bNew ? 1 : 0;
                r.key = pl( item ).key;
                r.tag = pl( item ).tag;
                if ( &val != n )
                    fail( "intrusive update: the functor's val argument is not the object passed to update()" );
                if ( bNew != ( &item == n ))
                    fail( "intrusive update: bNew disagrees with the identity of the item passed to the functor" );
            }, op == O_UPDATE );
            r.fcalls = calls;
            r.r = !p.first ? 0 : p.second ? 2 : 1;
            if ( r.r == 2 )
                r.tag = tag;
            else
                discard( n );
            return r;
        }
        // Iterable: update(val, f(Node& val, Node* old), bInsert) / upsert(val, bInsert): val replaces the item found, which is retired
        Res do_update( int op, int key, int tag, std::true_type )
        {
            Res r;
            Node* n = make_node( key, tag );
            std::pair<bool, bool> p;
            if ( tag & 1 ) {
                int calls = 0;
                p = s.update( *n, [&]( Node& val, Node* old ) {
                    ++calls;
                    r.fnew = old ? 0 : 1;
                    r.key = pl( val ).key;
                    if ( &val != n )
                        fail( "intrusive IterableList::update: the functor's val argument is not the object passed to update()" );
                    if ( old ) {
                        r.tag = pl( *old ).tag;
                        if ( old == n )
                            fail( "intrusive IterableList::update: old == val" );
                        if ( pl( *old ).key != key )
                            fail( "intrusive IterableList::update: the replaced item has key " + std::to_string( pl( *old ).key ) + ", expected " + std::to_string( key ));
                        if ( pl( *old ).canary != 0xabcdef )
                            fail( "intrusive IterableList::update: the replaced item passed to the functor has a bad canary" );
                    }
                }, op == O_UPDATE );
                r.fcalls = calls;
            }
            else
                p = s.upsert( *n, op == O_UPDATE );
            r.r = !p.first ? 0 : p.second ? 2 : 1;
            if ( r.r == 2 )
                r.tag = tag;
            if ( r.r == 0 )
                discard( n );
            return r;
        }

        bool has_counter() const override { return !std::is_same<typename PL::item_counter, cds::atomicity::empty_item_counter>::value; }
        size_t size() const override { return s.size(); }
        bool empty() const override { return s.empty(); }
        bool traverse( std::vector<int>& keys ) override
        {
            for ( auto it = s.begin(); it != s.end(); ++it ) {
                if ( pl( *it ).canary != 0xabcdef )
                    fail( "intrusive list: iterator reached an item with a bad canary" );
                keys.push_back( pl( *it ).key );
            }
            return true;
        }
        void check_structure( bool had_removals ) override { s.probe( had_removals ); }
        void scan() override { GC::scan(); }
    };

    // ---------------------------------------------------------------------------------------
    // traits
    // ---------------------------------------------------------------------------------------
    typedef cds::atomicity::item_counter ic_t;
    typedef cds::backoff::yield yield_t;

    // container value / KV lists (the KV lists compare plain int keys: ItemLess/ItemCmp have (int,int) overloads)
    struct ml_less_ic : cc::michael_list::traits { typedef ItemLess less; typedef ic_t item_counter; };
    struct ml_cmp : cc::michael_list::traits { typedef ItemCmp compare; };
    struct ml_cmp_yield : cc::michael_list::traits { typedef ItemCmp compare; typedef yield_t back_off; };
    struct ml_less_ic_yield : cc::michael_list::traits { typedef ItemLess less; typedef ic_t item_counter; typedef yield_t back_off; };
    struct ll_less_ic : cc::lazy_list::traits { typedef ItemLess less; typedef ic_t item_counter; };
    struct ll_cmp : cc::lazy_list::traits { typedef ItemCmp compare; };
    struct ll_cmp_yield : cc::lazy_list::traits { typedef ItemCmp compare; typedef yield_t back_off; };
    struct ll_less_ic_mutex : cc::lazy_list::traits { typedef ItemLess less; typedef ic_t item_counter; typedef std::mutex lock_type; };
    struct il_less_ic : cc::iterable_list::traits { typedef ItemLess less; typedef ic_t item_counter; };
    struct il_cmp : cc::iterable_list::traits { typedef ItemCmp compare; };
    struct il_cmp_yield : cc::iterable_list::traits { typedef ItemCmp compare; typedef yield_t back_off; };
    struct il_less_ic_yield : cc::iterable_list::traits { typedef ItemLess less; typedef ic_t item_counter; typedef yield_t back_off; };

    // intrusive
    template <typename GC> struct iml_less_ic : ci::michael_list::traits {
        typedef ci::michael_list::base_hook<cds::opt::gc<GC>> hook;
        typedef NodeLess less; typedef NodeDisposer disposer; typedef ic_t item_counter;
    };
    template <typename GC> struct iml_cmp : ci::michael_list::traits {
        typedef ci::michael_list::base_hook<cds::opt::gc<GC>> hook;
        typedef NodeCmp compare; typedef NodeDisposer disposer;
    };
    template <typename GC> struct iml_cmp_yield : iml_cmp<GC> { typedef yield_t back_off; };
    template <typename GC> struct ill_less_ic : ci::lazy_list::traits {
        typedef ci::lazy_list::base_hook<cds::opt::gc<GC>> hook;
        typedef NodeLess less; typedef NodeDisposer disposer; typedef ic_t item_counter;
    };
    template <typename GC> struct ill_cmp : ci::lazy_list::traits {
        typedef ci::lazy_list::base_hook<cds::opt::gc<GC>> hook;
        typedef NodeCmp compare; typedef NodeDisposer disposer;
    };
    template <typename GC> struct ill_cmp_mutex : ci::lazy_list::traits {
        typedef ci::lazy_list::base_hook<cds::opt::gc<GC>, cds::opt::lock_type<std::mutex>> hook;
        typedef NodeCmp compare; typedef NodeDisposer disposer;
    };
    struct iil_less_ic : ci::iterable_list::traits { typedef NodeLess less; typedef NodeDisposer disposer; typedef ic_t item_counter; };
    struct iil_cmp : ci::iterable_list::traits { typedef NodeCmp compare; typedef NodeDisposer disposer; };
    struct iil_cmp_yield : iil_cmp { typedef yield_t back_off; };

    // ---------------------------------------------------------------------------------------
    // variant table
    // ---------------------------------------------------------------------------------------
    template <typename Adapter>
    AdapterBase* mk( Case const& c ) { return new Adapter( c ); }

#define LHP_VAL( NAME, GC, PROBE, LIST ) \
    { NAME, gc_kind<GC>::value, LIST::c_nHazardPtrCount, &mk<ValueListAdapter<PROBE<LIST>>>, true }
#define LHP_ITV( NAME, GC, LIST ) \
    { NAME, gc_kind<GC>::value, LIST::c_nHazardPtrCount, &mk<IterableSetAdapter<IterableProbe<LIST>>>, true }
#define LHP_KV( NAME, GC, PROBE, LIST, ITER ) \
    { NAME, gc_kind<GC>::value, LIST::c_nHazardPtrCount, &mk<KVListAdapter<PROBE<LIST>, ITER>>, true }
    // intrusive: +1 hazard pointer for the guarded_ptr held across unlink()
#define LHP_INT( NAME, GC, PROBE, LIST, NODE, ITER ) \
    { NAME, gc_kind<GC>::value, LIST::c_nHazardPtrCount + 1, &mk<IntrusiveListAdapter<PROBE<LIST>, NODE, ITER>>, true }

    typedef cc::MichaelList<HP, Item, ml_less_ic> ML_HP_less_ic;
    typedef cc::MichaelList<DHP, Item, ml_cmp> ML_DHP_cmp;
    typedef cc::MichaelList<HP, Item, ml_cmp_yield> ML_HP_cmp_yield;
    typedef cc::MichaelList<DHP, Item, ml_less_ic_yield> ML_DHP_less_ic_yield;
    typedef cc::LazyList<HP, Item, ll_less_ic> LL_HP_less_ic;
    typedef cc::LazyList<DHP, Item, ll_cmp> LL_DHP_cmp;
    typedef cc::LazyList<HP, Item, ll_cmp_yield> LL_HP_cmp_yield;
    typedef cc::LazyList<DHP, Item, ll_less_ic_mutex> LL_DHP_less_ic_mutex;
    typedef cc::IterableList<HP, Item, il_less_ic> IL_HP_less_ic;
    typedef cc::IterableList<DHP, Item, il_cmp> IL_DHP_cmp;
    typedef cc::IterableList<HP, Item, il_cmp_yield> IL_HP_cmp_yield;
    typedef cc::IterableList<DHP, Item, il_less_ic_yield> IL_DHP_less_ic_yield;

    typedef cc::MichaelKVList<HP, int, Mapped, ml_less_ic> MKV_HP_less_ic;
    typedef cc::MichaelKVList<DHP, int, Mapped, ml_cmp> MKV_DHP_cmp;
    typedef cc::LazyKVList<HP, int, Mapped, ll_cmp> LKV_HP_cmp;
    typedef cc::LazyKVList<DHP, int, Mapped, ll_less_ic> LKV_DHP_less_ic;
    typedef cc::IterableKVList<HP, int, Mapped, il_less_ic> IKV_HP_less_ic;
    typedef cc::IterableKVList<DHP, int, Mapped, il_cmp> IKV_DHP_cmp;
    typedef cc::IterableKVList<HP, int, Mapped, il_cmp_yield> IKV_HP_cmp_yield;
    typedef cc::IterableKVList<DHP, int, Mapped, il_less_ic> IKV_DHP_less_ic;

    typedef ci::MichaelList<HP, MNode<HP>, iml_less_ic<HP>> IML_HP_less_ic;
    typedef ci::MichaelList<DHP, MNode<DHP>, iml_cmp<DHP>> IML_DHP_cmp;
    typedef ci::MichaelList<HP, MNode<HP>, iml_cmp_yield<HP>> IML_HP_cmp_yield;
    typedef ci::MichaelList<DHP, MNode<DHP>, iml_less_ic<DHP>> IML_DHP_less_ic;
    typedef ci::LazyList<HP, LNode<HP>, ill_less_ic<HP>> ILL_HP_less_ic;
    typedef ci::LazyList<DHP, LNode<DHP>, ill_cmp<DHP>> ILL_DHP_cmp;
    typedef LNode<HP, std::mutex> LNodeHpMutex;
    typedef ci::LazyList<HP, LNodeHpMutex, ill_cmp_mutex<HP>> ILL_HP_cmp_mutex;
    typedef ci::LazyList<DHP, LNode<DHP>, ill_less_ic<DHP>> ILL_DHP_less_ic;
    typedef ci::IterableList<HP, INode, iil_less_ic> IIL_HP_less_ic;
    typedef ci::IterableList<DHP, INode, iil_cmp> IIL_DHP_cmp;
    typedef ci::IterableList<HP, INode, iil_cmp_yield> IIL_HP_cmp_yield;
    typedef ci::IterableList<DHP, INode, iil_less_ic> IIL_DHP_less_ic;

    static const MapVariant kListsHpVariants[] = {
        // container value lists (0..11)
        LHP_VAL( "MichaelList_HP_less_ic", HP, MichaelProbe, ML_HP_less_ic ),
        LHP_VAL( "MichaelList_DHP_cmp", DHP, MichaelProbe, ML_DHP_cmp ),
        LHP_VAL( "MichaelList_HP_cmp_yield", HP, MichaelProbe, ML_HP_cmp_yield ),
        LHP_VAL( "MichaelList_DHP_less_ic_yield", DHP, MichaelProbe, ML_DHP_less_ic_yield ),
        LHP_VAL( "LazyList_HP_less_ic", HP, LazyProbe, LL_HP_less_ic ),
        LHP_VAL( "LazyList_DHP_cmp", DHP, LazyProbe, LL_DHP_cmp ),
        LHP_VAL( "LazyList_HP_cmp_yield", HP, LazyProbe, LL_HP_cmp_yield ),
        LHP_VAL( "LazyList_DHP_less_ic_mutex", DHP, LazyProbe, LL_DHP_less_ic_mutex ),
        LHP_ITV( "IterableList_HP_less_ic", HP, IL_HP_less_ic ),
        LHP_ITV( "IterableList_DHP_cmp", DHP, IL_DHP_cmp ),
        LHP_ITV( "IterableList_HP_cmp_yield", HP, IL_HP_cmp_yield ),
        LHP_ITV( "IterableList_DHP_less_ic_yield", DHP, IL_DHP_less_ic_yield ),
        // key-value lists (12..19)
        LHP_KV( "MichaelKVList_HP_less_ic", HP, MichaelProbe, MKV_HP_less_ic, false ),
        LHP_KV( "MichaelKVList_DHP_cmp", DHP, MichaelProbe, MKV_DHP_cmp, false ),
        LHP_KV( "LazyKVList_HP_cmp", HP, LazyProbe, LKV_HP_cmp, false ),
        LHP_KV( "LazyKVList_DHP_less_ic", DHP, LazyProbe, LKV_DHP_less_ic, false ),
        LHP_KV( "IterableKVList_HP_less_ic", HP, IterableProbe, IKV_HP_less_ic, true ),
        LHP_KV( "IterableKVList_DHP_cmp", DHP, IterableProbe, IKV_DHP_cmp, true ),
        LHP_KV( "IterableKVList_HP_cmp_yield", HP, IterableProbe, IKV_HP_cmp_yield, true ),
        LHP_KV( "IterableKVList_DHP_less_ic", DHP, IterableProbe, IKV_DHP_less_ic, true ),
        // intrusive lists (20..31)
        LHP_INT( "IntrusiveMichaelList_HP_less_ic", HP, MichaelProbe, IML_HP_less_ic, MNode<HP>, false ),
        LHP_INT( "IntrusiveMichaelList_DHP_cmp", DHP, MichaelProbe, IML_DHP_cmp, MNode<DHP>, false ),
        LHP_INT( "IntrusiveMichaelList_HP_cmp_yield", HP, MichaelProbe, IML_HP_cmp_yield, MNode<HP>, false ),
        LHP_INT( "IntrusiveMichaelList_DHP_less_ic", DHP, MichaelProbe, IML_DHP_less_ic, MNode<DHP>, false ),
        LHP_INT( "IntrusiveLazyList_HP_less_ic", HP, LazyProbe, ILL_HP_less_ic, LNode<HP>, false ),
        LHP_INT( "IntrusiveLazyList_DHP_cmp", DHP, LazyProbe, ILL_DHP_cmp, LNode<DHP>, false ),
        LHP_INT( "IntrusiveLazyList_HP_cmp_mutex", HP, LazyProbe, ILL_HP_cmp_mutex, LNodeHpMutex, false ),
        LHP_INT( "IntrusiveLazyList_DHP_less_ic", DHP, LazyProbe, ILL_DHP_less_ic, LNode<DHP>, false ),
        LHP_INT( "IntrusiveIterableList_HP_less_ic", HP, IterableProbe, IIL_HP_less_ic, INode, true ),
        LHP_INT( "IntrusiveIterableList_DHP_cmp", DHP, IterableProbe, IIL_DHP_cmp, INode, true ),
        LHP_INT( "IntrusiveIterableList_HP_cmp_yield", HP, IterableProbe, IIL_HP_cmp_yield, INode, true ),
        LHP_INT( "IntrusiveIterableList_DHP_less_ic", DHP, IterableProbe, IIL_DHP_less_ic, INode, true ),
    };
    static const size_t kListsHpCount = sizeof( kListsHpVariants ) / sizeof( kListsHpVariants[0] );

#undef LHP_VAL
#undef LHP_ITV
#undef LHP_KV
#undef LHP_INT

    static const char* const kListsHpRule =
        "two operations of different threads on the same key overlapped, at least one of them a successful update, and a pre-emptive or yielding switch occurred";
} // namespace fam_lists_hp

#endif
