// C14 part a (sequential differential): MichaelHashSet / MichaelHashMap against an exact std::map model
#include "mapcommon_impl.h"
#include "fam_hashsets_a.h"

using namespace mh;

namespace {
    const MapHarnessConfig kConfig = { "seq_hashsets_a", fam_hashsets::kHashsetsAVariants, fam_hashsets::kHashsetsACount, 7, true, false };
}

namespace cdsverif {
    Schema const& harness_schema()
    {
        static Schema s = make_map_schema( kConfig, fam_hashsets::extra_cfg(),
            "an operation hit a present key, an operation hit an absent key and a removal succeeded" );
        return s;
    }
    Verdict run_case( Case const& c ) { return run_map_case( kConfig, c ); }
}
