// Family `skiplist` (C15, skip-list part; C18 structure checks): cds::container::SkipListSet / SkipListMap over HP, DHP,
// the user-space RCU flavours and the insert-only cds::gc::nogc specialisation.
//
// Tower heights are a generated input: the random_level_generator trait is replaced by CaseLevels<6>, driven by the
// extra cfg "levels" (0 = every tower has height 1, 1 = geometric heights from hv::CaseRng, 2 = every tower has the
// maximal height, 3 = alternating minimal / maximal). Upper bound 6: the lists start with m_nHeight = c_nMinHeight = 5
// and find_fastpath() indexes the head tower at level m_nHeight-1, which asserts level < c_nMaxHeight, so 5 is the
// smallest bound the (assert-enabled) code accepts; 6 additionally exercises increase_height().
//
// C18: traversal = begin()..end() (RCU: under the lock), strictly increasing. probe_check() additionally walks every
// level of the towers through a class derived from the container (HP/DHP: the head is reached through the protected
// find_position() with an "always greater" comparator since m_Head is private; RCU/nogc: m_Head is protected): at a
// quiescent point no next pointer reachable from the head is marked, every node linked at level l has height > l,
// keys are strictly increasing on every level and level l is a subsequence of level l-1; nogc: get_min()/get_max()
// agree with level 0.
#ifndef CDSVERIF_H_FAM_SKIPLIST_H
#define CDSVERIF_H_FAM_SKIPLIST_H

#include "fam_ordered.h"

#include <cds/container/skip_list_set_hp.h>
#include <cds/container/skip_list_set_dhp.h>
#include <cds/container/skip_list_set_rcu.h>
#include <cds/container/skip_list_set_nogc.h>
#include <cds/container/skip_list_map_hp.h>
#include <cds/container/skip_list_map_dhp.h>
#include <cds/container/skip_list_map_rcu.h>
#include <cds/container/skip_list_map_nogc.h>

namespace fam_skiplist {
    using namespace fam_ordered;

    // ---- case-driven level generator -----------------------------------------------------------------
    struct LevelCtl {
        int mode = 1;
        unsigned flip = 0;
        unsigned histogram[8] = { 0 };
    };
    inline LevelCtl& level_ctl()
    {
        static LevelCtl c;
        return c;
    }
    template <unsigned MaxHeight>
    struct CaseLevels {
        static unsigned int const c_nUpperBound = MaxHeight;
        unsigned int operator()()
        {
            LevelCtl& c = level_ctl();
            unsigned int lvl = 0;
            switch ( c.mode ) {
            case 0:
                lvl = 0;
                break;
            case 2:
                lvl = MaxHeight - 1;
                break;
            case 3:
                lvl = ( c.flip++ & 1 ) ? MaxHeight - 1 : 0;
                break;
            default: {
                // xorshift-like geometric distribution: P(level >= k) = 2^-k, capped
                uint32_t x = hv::CaseRng::next();
                while (( x & 1 ) && lvl + 1 < MaxHeight ) {
                    ++lvl;
                    x >>= 1;
                }
                break;
            }
            }
            return lvl;
        }
    };
    constexpr unsigned kMaxHeight = 6;

    template <int TR>
    struct sl_traits : cc::skip_list::traits {
        typedef typename tr_sel<TR>::less_type less;
        typedef typename tr_sel<TR>::compare_type compare;
        typedef typename tr_sel<TR>::item_counter item_counter;
        typedef typename tr_sel<TR>::back_off back_off;
        typedef typename tr_sel<TR>::memory_model memory_model;
        typedef typename std::conditional<TR == TR_CMP_IC, cc::skip_list::stat<>, cc::skip_list::empty_stat>::type stat;
        typedef CaseLevels<kMaxHeight> random_level_generator;
    };

    // ---- level walk ------------------------------------------------------------------------------------
    // head: intrusive node; KeyFn: key of an intrusive node
    template <typename N, typename KeyFn>
    inline void check_levels( N* head, KeyFn key_fn )
    {
        std::vector<N*> below;
        for ( unsigned l = 0; l < kMaxHeight; ++l ) {
            std::vector<N*> cur;
            auto raw = head->next( l ).load( atomics::memory_order_acquire );
            if ( pp_bits( raw )) {
                fail( "skip list: the head tower carries a mark at level " + std::to_string( l ));
                return;
            }
            N* p = pp_ptr( raw );
            while ( p ) {
                if ( p->height() <= l ) {
                    fail( "skip list: node with key " + std::to_string( key_fn( p )) + " of height " + std::to_string( p->height()) + " is linked at level " + std::to_string( l ));
                    return;
                }
                if ( !cur.empty() && key_fn( cur.back()) >= key_fn( p )) {
                    fail( "skip list: level " + std::to_string( l ) + " is not strictly increasing at a quiescent point: " + std::to_string( key_fn( cur.back())) + " then "
                        + std::to_string( key_fn( p )));
                    return;
                }
                cur.push_back( p );
                if ( cur.size() > 64 ) {
                    fail( "skip list: level " + std::to_string( l ) + " has more nodes than keys exist (cycle?)" );
                    return;
                }
                auto nx = p->next( l ).load( atomics::memory_order_acquire );
                if ( pp_bits( nx )) {
                    fail( "skip list: node with key " + std::to_string( key_fn( p )) + " is still linked at level " + std::to_string( l )
                        + " with a marked next pointer at a quiescent point" );
                    return;
                }
                p = pp_ptr( nx );
            }
            if ( l > 0 ) {
                size_t j = 0;
                for ( N* q : cur ) {
                    while ( j < below.size() && below[j] != q )
                        ++j;
                    if ( j == below.size()) {
                        fail( "skip list: node with key " + std::to_string( key_fn( q )) + " is linked at level " + std::to_string( l ) + " but level "
                            + std::to_string( l - 1 ) + " does not contain it (in order)" );
                        return;
                    }
                    ++j;
                }
            }
            below.swap( cur );
        }
        note_class( "level_walks" );
    }

    // ---- probes ------------------------------------------------------------------------------------------
    template <typename Base>
    struct GuardedProbe : Base {
        bool probe_traverse( std::vector<int>& keys )
        {
            for ( auto it = this->begin(); it != this->end(); ++it )
                keys.push_back( key_of( *it ));
            return true;
        }
        void probe_check( bool )
        {
            typedef typename Base::node_type cnode;
            typename GuardedProbe::position pos;
            // every node compares greater: the search stops at the head on every level
            this->find_position( 0, pos, AlwaysGreater(), false );
            auto* head = pos.pPrev[0];
            typedef typename std::remove_pointer<decltype( head )>::type inode;
            for ( unsigned l = 0; l < kMaxHeight; ++l )
                if ( pos.pPrev[l] != head ) {
                    fail( "skip list: find_position() with a minimal key did not stop at the head" );
                    return;
                }
            check_levels( head, []( inode* p ) { return key_of( static_cast<cnode*>( p )->m_Value ); } );
        }
    };

    template <typename Base>
    struct RcuProbe : Base {
        bool probe_traverse( std::vector<int>& keys )
        {
            typename Base::rcu_lock l;
            for ( auto it = this->begin(); it != this->end(); ++it )
                keys.push_back( key_of( *it ));
            return true;
        }
        void probe_check( bool )
        {
            typedef typename Base::node_type cnode;
            typename Base::rcu_lock l;
            auto* head = this->m_Head.head();
            typedef typename std::remove_pointer<decltype( head )>::type inode;
            check_levels( head, []( inode* p ) { return key_of( static_cast<cnode*>( p )->m_Value ); } );
        }
    };

    template <typename Base>
    struct NogcProbe : Base {
        bool probe_traverse( std::vector<int>& keys )
        {
            for ( auto it = this->begin(); it != this->end(); ++it )
                keys.push_back( key_of( *it ));
            return true;
        }
        void probe_check( bool )
        {
            typedef typename Base::node_type cnode;
            auto* head = this->m_Head.head();
            typedef typename std::remove_pointer<decltype( head )>::type inode;
            check_levels( head, []( inode* p ) { return key_of( static_cast<cnode*>( p )->m_Value ); } );
            std::vector<int> keys;
            probe_traverse( keys );
            auto* mn = this->get_min();
            auto* mx = this->get_max();
            if ( keys.empty()) {
                if ( mn || mx )
                    fail( "skip list (nogc): get_min()/get_max() return an item although the list is empty" );
            }
            else if ( !mn || !mx || key_of( *mn ) != keys.front() || key_of( *mx ) != keys.back())
                fail( "skip list (nogc): get_min()/get_max() disagree with the first/last item of the list" );
        }
    };

    // ---- nogc adapters (insert-only) --------------------------------------------------------------------
    template <typename C, bool IsMap>
    struct NogcAdapter : AdapterBase {
        C s;
        explicit NogcAdapter( Case const& ) {}
        bool supports( int op ) const override
        {
            switch ( op ) {
            case O_INSERT: case O_UPDATE: case O_UPDATE_NOINS: case O_EMPLACE: case O_FIND_F: case O_CONTAINS:
                return true;
            case O_INSERT_F:
                return IsMap;
            default:
                return false;
            }
        }
        template <typename It>
        void seen( Res& r, It it )
        {
            r.r = 1;
            observe( r, *it );
        }
        template <bool M>
        typename std::enable_if<!M>::type modify( Res& r, int op, int key, int tag )
        {
            switch ( op ) {
            case O_INSERT:
                r.r = s.insert( Item( key, tag )) != s.end() ? 1 : 0;
                break;
            case O_EMPLACE:
                r.r = s.emplace( key, tag ) != s.end() ? 1 : 0;
                break;
            default: {      // update
                auto p = s.update( Item( key, tag ), op == O_UPDATE );
                if ( p.first == s.end())
                    r.r = 0;
                else {
                    observe( r, *p.first );
                    r.r = p.second ? 2 : 1;
                }
                break;
            }
            }
        }
        template <bool M>
        typename std::enable_if<M>::type modify( Res& r, int op, int key, int tag )
        {
            switch ( op ) {
            case O_INSERT:
                r.r = ( tag % 3 == 0 ? s.insert( key ) : s.insert( key, Mapped( tag ))) != s.end() ? 1 : 0;
                break;
            case O_INSERT_F: {
                int calls = 0;
                r.r = s.insert_with( key, [&]( Pair& p ) { ++calls; p.second.tag = tag; r.key = p.first; } ) != s.end() ? 1 : 0;
                r.fcalls = calls;
                break;
            }
            case O_EMPLACE:
                r.r = s.emplace( key, tag ) != s.end() ? 1 : 0;
                break;
            default: {      // update(key): a new item gets a default mapped value, the caller fills it in afterwards
                auto p = s.update( key, op == O_UPDATE );
                if ( p.first == s.end())
                    r.r = 0;
                else {
                    if ( p.second )
                        p.first->second.tag = tag;
                    observe( r, *p.first );
                    r.r = p.second ? 2 : 1;
                }
                break;
            }
            }
        }
        Res apply( int op, int key, int tag ) override
        {
            Res r;
            switch ( op ) {
            case O_INSERT: case O_INSERT_F: case O_EMPLACE: case O_UPDATE: case O_UPDATE_NOINS:
                modify<IsMap>( r, op, key, tag );
                if ( r.r == 2 )
                    r.tag = tag;
                break;
            case O_FIND_F: {
                auto it = s.contains( key );
                if ( it != s.end())
                    seen( r, it );
                break;
            }
            case O_CONTAINS:
                r.r = s.contains( key ) != s.end() ? 1 : 0;
                break;
            default:
                r.unsupported = true;
                break;
            }
            return r;
        }
        bool has_counter() const override { return counted<C>(); }
        size_t size() const override { return s.size(); }
        bool empty() const override { return s.empty(); }
        bool traverse( std::vector<int>& keys ) override { return s.probe_traverse( keys ); }
        void check_structure( bool had_removals ) override { s.probe_check( had_removals ); }
    };

    // ---- variant table -----------------------------------------------------------------------------------
    template <typename A>
    AdapterBase* mk( Case const& c )
    {
        LevelCtl& lc = level_ctl();
        lc.mode = cfg_at( c, 3, 1 );
        lc.flip = 0;
        return new A( c );
    }

    template <typename GC, int TR> using SetOf = cc::SkipListSet<GC, Item, sl_traits<TR>>;
    template <typename GC, int TR> using MapOf = cc::SkipListMap<GC, int, Mapped, sl_traits<TR>>;

    template <typename GC, int TR> using GSet = GuardedAdapter<GuardedProbe<SetOf<GC, TR>>, SetApi>;
    template <typename GC, int TR> using GMap = GuardedAdapter<GuardedProbe<MapOf<GC, TR>>, MapApi>;
    template <typename GC, int TR> using RSet = RcuAdapter<RcuProbe<SetOf<GC, TR>>, SetApi, true>;
    template <typename GC, int TR> using RMap = RcuAdapter<RcuProbe<MapOf<GC, TR>>, MapApi, true>;
    template <int TR> using NSet = NogcAdapter<NogcProbe<SetOf<NOGC, TR>>, false>;
    template <int TR> using NMap = NogcAdapter<NogcProbe<MapOf<NOGC, TR>>, true>;

    constexpr size_t kHz = SetOf<HP, TR_CMP>::c_nHazardPtrCount;

#define SLV( NAME, GCK, ... ) { NAME, GCK, kHz, &mk<__VA_ARGS__>, true }
    static const MapVariant kSkiplistVariants[] = {
        SLV( "SkipListSet_HP_less_ic", GC_HP, GSet<HP, TR_LESS_IC> ),
        SLV( "SkipListSet_DHP_cmp", GC_DHP, GSet<DHP, TR_CMP> ),
        SLV( "SkipListSet_HP_cmp_ic_stat_seqcst", GC_HP, GSet<HP, TR_CMP_IC> ),
        SLV( "SkipListSet_GPI_cmp", GC_GPI, RSet<RCU_GPI, TR_CMP> ),
        SLV( "SkipListSet_GPB_less_ic", GC_GPB, RSet<RCU_GPB, TR_LESS_IC> ),
        SLV( "SkipListSet_GPT_cmp_ic_stat_seqcst", GC_GPT, RSet<RCU_GPT, TR_CMP_IC> ),
        SLV( "SkipListSet_SHB_less", GC_SHB, RSet<RCU_SHB, TR_LESS> ),
        SLV( "SkipListSet_nogc_less_ic", GC_NOGC, NSet<TR_LESS_IC> ),
        SLV( "SkipListMap_HP_cmp", GC_HP, GMap<HP, TR_CMP> ),
        SLV( "SkipListMap_DHP_less_ic", GC_DHP, GMap<DHP, TR_LESS_IC> ),
        SLV( "SkipListMap_GPB_cmp", GC_GPB, RMap<RCU_GPB, TR_CMP> ),
        SLV( "SkipListMap_GPI_less_ic", GC_GPI, RMap<RCU_GPI, TR_LESS_IC> ),
        SLV( "SkipListMap_GPT_less", GC_GPT, RMap<RCU_GPT, TR_LESS> ),
        SLV( "SkipListMap_nogc_cmp", GC_NOGC, NMap<TR_CMP> ),
    };
#undef SLV
    static const size_t kSkiplistCount = sizeof( kSkiplistVariants ) / sizeof( kSkiplistVariants[0] );

    static const char* const kSkiplistRule =
        "two operations of different threads on the same key (or one of them an extract_min/extract_max) overlapped, at least one of them a successful "
        "update, and a pre-emptive or yielding switch occurred; sequential mode: an op on a present key, an op on an absent key and a successful removal "
        "(the insert-only nogc variants therefore never count as non-trivial in sequential mode)";
} // namespace fam_skiplist

#endif
