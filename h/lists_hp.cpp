// C13 (+ C18 part): MichaelList / LazyList / IterableList over HP and DHP - value, key-value and intrusive
// variants - are linearizable sets/maps (concurrent harness on top of the generic map runner)
#include "mapcommon_impl.h"
#include "fam_lists_hp.h"

using namespace mh;

namespace {
    const MapHarnessConfig kConfig = { "lists_hp", fam_lists_hp::kListsHpVariants, fam_lists_hp::kListsHpCount, 3, /*sequential*/ false, /*check_minmax*/ false };
}

namespace cdsverif {
    Schema const& harness_schema()
    {
        static Schema s = make_map_schema( kConfig, {}, fam_lists_hp::kListsHpRule );
        return s;
    }
    Verdict run_case( Case const& c ) { return run_map_case( kConfig, c ); }
}
