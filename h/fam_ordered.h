// Shared parts of the C15 families `skiplist` (fam_skiplist.h) and `trees` (fam_trees.h): payloads, the uniform
// adapters for the three access protocols (guarded_ptr / RCU / nogc) and small helpers.
//
// Protocols followed (from the doxygen of every container used; identical for SkipListSet/Map and EllenBinTreeSet/Map):
//   HP/DHP : extract/get/extract_min/extract_max return a guarded_ptr that is dereferenced (with scheduling points)
//            and released inside the adapter.
//   RCU    : insert / update / emplace / erase / extract / extract_min / extract_max - "RCU should NOT be locked";
//            find / contains lock RCU internally; get() must be called under the RCU lock and its result (skip list:
//            raw_ptr object, Ellen tree: plain pointer) is dereferenced inside the lock only; a raw_ptr is move-assigned
//            inside the lock (operator= asserts is_locked()) and release()d outside; an exempt_ptr is dereferenced and
//            release()d outside the lock (release() = retire_ptr, asserts !is_locked()); iterators only under the lock;
//            scan() = RCU::synchronize() outside any lock.
//   nogc   : insert-only; insert/emplace/update/contains return iterators which stay valid for the container's life.
#ifndef CDSVERIF_H_FAM_ORDERED_H
#define CDSVERIF_H_FAM_ORDERED_H

#include "mapcommon.h"

#include <type_traits>
#include <cds/details/marked_ptr.h>

namespace fam_ordered {
    using namespace mh;
    namespace cc = cds::container;
    namespace ci = cds::intrusive;
    typedef cds::gc::nogc NOGC;

    // ---- payloads --------------------------------------------------------------------------------
    // maps: key int, mapped {tag, canary}. tag -1 = "not initialised": insert(key) default-constructs the mapped value,
    // insert(key,val)/insert_with()/update() of the skip-list maps fill it in AFTER the node became reachable
    // (documented: the functor is called after the item is linked). A reader that sees -1 reports "tag not observable".
    struct Mapped {
        int tag = -1;
        uint64_t canary = 0xabcdef;
        Mapped() {}
        explicit Mapped( int t ) : tag( t ) {}
    };
    typedef std::pair<int const, Mapped> Pair;

    inline int key_of( Item const& i ) { return i.key; }
    inline int tag_of( Item const& i ) { return i.tag; }
    inline uint64_t canary_of( Item const& i ) { return i.canary; }
    inline int key_of( Pair const& p ) { return p.first; }
    inline int tag_of( Pair const& p ) { return p.second.tag; }
    inline uint64_t canary_of( Pair const& p ) { return p.second.canary; }
    inline void hold_item( Item const* p, int hold ) { hold_and_check( p, hold ); }
    inline void hold_item( Pair const* p, int hold ) { hold_and_check( &p->second, hold ); }

    template <typename V>
    inline void observe( Res& r, V const& v )
    {
        if ( canary_of( v ) != 0xabcdef )
            fail( "the container handed an item with a bad canary to the client (already disposed?)" );
        r.tag = tag_of( v );
        r.key = key_of( v );
    }

    struct IntCmp {
        int operator()( int a, int b ) const { return a < b ? -1 : a > b ? 1 : 0; }
    };

    // traits rotation shared by all container kinds
    enum { TR_LESS_IC = 0, TR_CMP = 1, TR_CMP_IC = 2, TR_LESS = 3 };
    template <int TR> struct tr_sel {
        static constexpr bool less = ( TR == TR_LESS_IC || TR == TR_LESS );
        static constexpr bool ic = ( TR == TR_LESS_IC || TR == TR_CMP_IC );
        typedef typename std::conditional<less, ItemLess, cds::opt::none>::type less_type;
        typedef typename std::conditional<less, cds::opt::none, ItemCmp>::type compare_type;
        typedef typename std::conditional<ic, cds::atomicity::item_counter, cds::atomicity::empty_item_counter>::type item_counter;
        typedef typename std::conditional<TR == TR_CMP, cds::backoff::yield, typename std::conditional<TR == TR_LESS, cds::backoff::empty, cds::backoff::Default>::type>::type back_off;
        typedef typename std::conditional<TR == TR_CMP_IC, cds::opt::v::sequential_consistent, cds::opt::v::relaxed_ordering>::type memory_model;
    };

    template <typename C>
    constexpr bool counted()
    {
        return !std::is_same<typename C::item_counter, cds::atomicity::empty_item_counter>::value;
    }

    // ---- how the uniform insertion ops map to the set API and to the map API ------------------------
    struct SetApi {
        template <typename S> static bool insert( S& s, int k, int t ) { return s.insert( Item( k, t )); }
        template <typename S, typename F> static bool insert_f( S& s, int k, int t, F f ) { return s.insert( Item( k, t ), f ); }
        template <typename S, typename F> static std::pair<bool, bool> update( S& s, int k, int t, F f, bool ins ) { return s.update( Item( k, t ), f, ins ); }
        template <typename S> static bool emplace( S& s, int k, int t ) { return s.emplace( k, t ); }
    };
    struct MapApi {
        // every third insertion uses insert(key): the mapped value keeps the "unknown" tag for its whole life
        template <typename S> static bool insert( S& s, int k, int t ) { return t % 3 == 0 ? s.insert( k ) : s.insert( k, Mapped( t )); }
        template <typename S, typename F> static bool insert_f( S& s, int k, int t, F f )
        {
            return s.insert_with( k, [&]( Pair& p ) { p.second.tag = t; f( p ); } );
        }
        template <typename S, typename F> static std::pair<bool, bool> update( S& s, int k, int t, F f, bool ins )
        {
            return s.update( k, [&]( bool bNew, Pair& p ) { if ( bNew ) p.second.tag = t; f( bNew, p ); }, ins );
        }
        template <typename S> static bool emplace( S& s, int k, int t ) { return s.emplace( k, t ); }
    };

    // ---- operations common to the guarded and the RCU adapter -----------------------------------------
    template <typename C, typename Api>
    struct CommonOps : AdapterBase {
        C s;
        int hold;
        explicit CommonOps( Case const& c ) : hold( cfg_at( c, 2, 0 )) {}

        bool common( Res& r, int op, int key, int tag )
        {
            switch ( op ) {
            case O_INSERT:
                r.r = Api::insert( s, key, tag ) ? 1 : 0;
                return true;
            case O_INSERT_F: {
                int calls = 0;
                r.r = Api::insert_f( s, key, tag, [&]( auto& it ) { ++calls; r.key = key_of( it ); } ) ? 1 : 0;
                r.fcalls = calls;
                return true;
            }
            case O_UPDATE:
            case O_UPDATE_NOINS: {
                int calls = 0;
                std::pair<bool, bool> p = Api::update( s, key, tag, [&]( bool bNew, auto& it, auto const&... ) {
                    ++calls;
                    r.fnew = bNew ? 1 : 0;
                    observe( r, it );
                }, op == O_UPDATE );
                r.fcalls = calls;
                r.r = !p.first ? 0 : p.second ? 2 : 1;
                if ( r.r == 2 )
                    r.tag = tag;
                return true;
            }
            case O_EMPLACE:
                r.r = Api::emplace( s, key, tag ) ? 1 : 0;
                return true;
            case O_ERASE:
                r.r = s.erase( key ) ? 1 : 0;
                return true;
            case O_ERASE_F: {
                int calls = 0;
                r.r = s.erase( key, [&]( auto& it ) { ++calls; observe( r, it ); } ) ? 1 : 0;
                r.fcalls = calls;
                return true;
            }
            case O_FIND_F: {
                int calls = 0;
                r.r = s.find( key, [&]( auto& it, auto const&... ) { ++calls; observe( r, it ); } ) ? 1 : 0;
                r.fcalls = calls;
                return true;
            }
            case O_CONTAINS:
                r.r = s.contains( key ) ? 1 : 0;
                return true;
            default:
                return false;
            }
        }

        bool supports( int op ) const override { return op != O_UNLINK; }
        bool has_counter() const override { return counted<C>(); }
        size_t size() const override { return s.size(); }
        bool empty() const override { return s.empty(); }
        bool traverse( std::vector<int>& keys ) override { return s.probe_traverse( keys ); }
        void check_structure( bool had_removals ) override { s.probe_check( had_removals ); }
    };

    // HP / DHP containers (C is a probe class derived from the container, see fam_skiplist.h / fam_trees.h)
    template <typename C, typename Api>
    struct GuardedAdapter : CommonOps<C, Api> {
        typedef CommonOps<C, Api> base;
        using base::s;
        using base::hold;
        explicit GuardedAdapter( Case const& c ) : base( c ) {}

        void take( Res& r, typename C::guarded_ptr& gp )
        {
            if ( gp ) {
                r.r = 1;
                observe( r, *gp );
                hold_item( &*gp, hold );
            }
        }
        Res apply( int op, int key, int tag ) override
        {
            Res r;
            if ( base::common( r, op, key, tag ))
                return r;
            switch ( op ) {
            case O_EXTRACT: {
                typename C::guarded_ptr gp( s.extract( key ));
                take( r, gp );
                break;
            }
            case O_GET: {
                typename C::guarded_ptr gp( s.get( key ));
                take( r, gp );
                break;
            }
            case O_EXTRACT_MIN: {
                typename C::guarded_ptr gp( s.extract_min());
                take( r, gp );
                break;
            }
            case O_EXTRACT_MAX: {
                typename C::guarded_ptr gp( s.extract_max());
                take( r, gp );
                break;
            }
            default:
                r.unsupported = true;
                break;
            }
            return r;
        }
        void scan() override { C::gc::scan(); }
    };

    // RCU containers. RawPtr: get() returns a raw_ptr object (skip list) instead of a plain pointer (Ellen tree)
    template <typename C, typename Api, bool RawPtr>
    struct RcuAdapter : CommonOps<C, Api> {
        typedef CommonOps<C, Api> base;
        using base::s;
        using base::hold;
        explicit RcuAdapter( Case const& c ) : base( c ) {}

        void take( Res& r, typename C::exempt_ptr& ep )
        {
            if ( ep ) {
                r.r = 1;
                observe( r, *ep );
                hold_item( &*ep, hold );
            }
            ep.release();       // outside the RCU lock
        }
        template <bool Raw>
        typename std::enable_if<Raw>::type do_get( Res& r, int key )
        {
            typename C::raw_ptr rp;
            {
                typename C::rcu_lock l;
                rp = s.get( key );
                if ( rp ) {
                    r.r = 1;
                    observe( r, *rp );
                    hold_item( &*rp, hold );
                }
            }
            rp.release();
        }
        template <bool Raw>
        typename std::enable_if<!Raw>::type do_get( Res& r, int key )
        {
            typename C::rcu_lock l;
            auto* p = s.get( key );
            if ( p ) {
                r.r = 1;
                observe( r, *p );
                hold_item( p, hold );
            }
        }
        Res apply( int op, int key, int tag ) override
        {
            Res r;
            if ( base::common( r, op, key, tag ))
                return r;
            switch ( op ) {
            case O_EXTRACT: {
                typename C::exempt_ptr ep( s.extract( key ));
                take( r, ep );
                break;
            }
            case O_GET:
                do_get<RawPtr>( r, key );
                break;
            case O_EXTRACT_MIN: {
                typename C::exempt_ptr ep( s.extract_min());
                take( r, ep );
                break;
            }
            case O_EXTRACT_MAX: {
                typename C::exempt_ptr ep( s.extract_max());
                take( r, ep );
                break;
            }
            default:
                r.unsupported = true;
                break;
            }
            return r;
        }
        void scan() override { C::gc::synchronize(); }
    };

    // ---- helpers for the structure probes -----------------------------------------------------------
    template <typename T, int B> inline T* pp_ptr( cds::details::marked_ptr<T, B> p ) { return p.ptr(); }
    template <typename T, int B> inline unsigned pp_bits( cds::details::marked_ptr<T, B> p ) { return unsigned( p.bits()); }
    template <typename T> inline T* pp_ptr( T* p ) { return p; }
    template <typename T> inline unsigned pp_bits( T* ) { return 0; }

    struct AlwaysGreater {
        template <typename A, typename B> int operator()( A const&, B const& ) const { return 1; }
    };
} // namespace fam_ordered

#endif
