// Body of the C16 harnesses over the family lockhash (fam_lockhash.h). Include exactly once per TU after defining
//   LOCKHASH_HARNESS_NAME   "lockhash" / "lockhash_boost" / "seq_lockhash" / "seq_lockhash_boost"
//   LOCKHASH_SEQUENTIAL     0: concurrent linearizability harness (keys 0..3), 1: sequential differential mode (keys 0..7)
//   LOCKHASH_BOOST_PART     defined: Striped over boost::container / boost::intrusive buckets; else Cuckoo + Striped over std
// C16: every concurrent history on Cuckoo / Striped sets and maps is linearizable to a sequential set/map while other
// threads trigger table resizes. Tiny initial tables, probe sets and resize thresholds so that resizes interleave with
// every operation (cfg init / probe / thr / hash, see decode_params_c16).
#ifndef CDSVERIF_H_LOCKHASH_BODY_H
#define CDSVERIF_H_LOCKHASH_BODY_H
#include "mapcommon_impl.h"
#ifdef LOCKHASH_BOOST_PART
#   define LOCKHASH_NO_CUCKOO
#   define LOCKHASH_NO_STRIPED_STD
#else
#   define LOCKHASH_NO_STRIPED_BOOST
#   define LOCKHASH_NO_STRIPED_INTRUSIVE
#endif
#include "fam_lockhash.h"

using namespace mh;

namespace fam_lockhash {
    #ifndef LOCKHASH_MAX_KEY
#   define LOCKHASH_MAX_KEY ( LOCKHASH_SEQUENTIAL ? 7 : 3 )
#endif
    // more than 4 keys: only tuples with a low-bit bijection (cannot run into the open CuckooSet::resize() finding)
    Params decode_params( Case const& c, ContKind kind ) { return decode_params_c16( c, kind, LOCKHASH_MAX_KEY <= 3 ); }
}

namespace {
    const MapVariant kVariants[] = {
        LOCKHASH_CUCKOO_VARIANTS
        LOCKHASH_STRIPED_VARIANTS
    };
    const MapHarnessConfig kConfig = { LOCKHASH_HARNESS_NAME, kVariants, sizeof( kVariants ) / sizeof( kVariants[0] ), LOCKHASH_MAX_KEY,
        LOCKHASH_SEQUENTIAL != 0, false };
}

namespace cdsverif {
    Schema const& harness_schema()
    {
        static Schema s = make_map_schema( kConfig,
            { { "init", 0, 3 }, { "probe", 0, 1 }, { "thr", 0, 1 }, { "hash", 0, 7 } },
            LOCKHASH_SEQUENTIAL
            ? "sequential: the program hit a present key, an absent key and removed an element (class counter resized = table doublings)"
            : "two operations of different threads on the same key overlapped, at least one of them a successful update, and a pre-emptive or yielding switch occurred "
              "(class counters resized_in_concurrent_phase / cases_resized_in_concurrent_phase report table doublings between the first worker operation and the end)" );
        return s;
    }
    Verdict run_case( Case const& c )
    {
        fam_lockhash::oversize() = false;
        return run_map_case( kConfig, c );
    }
}
#endif
