// C14 part c: FeldmanHashSet / FeldmanHashMap variants (HP, DHP, RCU; no nogc specialisation exists).
// Hash types: uint16_t / uint32_t (number_splitter), uint8_t and a 2-byte struct (generic split_bitstring, memcmp).
// head_bits / array_bits from cfg "cap" at or near their minimums (4 / 2) so that colliding prefixes expand deeply.
#ifndef CDSVERIF_H_FAM_HASHSETS_C_H
#define CDSVERIF_H_FAM_HASHSETS_C_H

#include "fam_hashsets.h"

#include <cds/container/feldman_hashset_hp.h>
#include <cds/container/feldman_hashset_dhp.h>
#include <cds/container/feldman_hashset_rcu.h>
#include <cds/container/feldman_hashmap_hp.h>
#include <cds/container/feldman_hashmap_dhp.h>
#include <cds/container/feldman_hashmap_rcu.h>

namespace fam_hashsets {
    namespace cc = cds::container;

    template <typename H, bool Stat>
    struct c_set_traits : cc::feldman_hashset::traits {
        typedef FAccessor<H> hash_accessor;
        typedef typename std::conditional<Stat, cc::feldman_hashset::stat<>, cc::feldman_hashset::empty_stat>::type stat;
    };
    template <typename H>
    struct c_set_traits_less : c_set_traits<H, true> {
        typedef std::less<H> less;
    };
    struct c_u16_cmp {
        int operator()( uint16_t a, uint16_t b ) const { return a < b ? -1 : a > b ? 1 : 0; }
    };
    struct c_set_traits_cmp : c_set_traits<uint16_t, true> {
        typedef c_u16_cmp compare;
        typedef cds::backoff::empty back_off;
    };

    template <typename H, bool Stat>
    struct c_map_traits : cc::feldman_hashmap::traits {
        typedef FMapHash<H> hash;
        typedef typename std::conditional<Stat, cc::feldman_hashmap::stat<>, cc::feldman_hashmap::empty_stat>::type stat;
    };

    typedef cc::FeldmanHashSet<HP, FItem<uint8_t>, c_set_traits<uint8_t, true>> CS_HP_u8;
    typedef cc::FeldmanHashSet<HP, FItem<uint16_t>, c_set_traits_cmp> CS_HP_u16;
    typedef cc::FeldmanHashSet<DHP, FItem<uint8_t>, c_set_traits_less<uint8_t>> CS_DHP_u8;
    typedef cc::FeldmanHashSet<DHP, FItem<uint16_t>, c_set_traits<uint16_t, false>> CS_DHP_u16;
    typedef cc::FeldmanHashSet<HP, FItem<Bytes2>, c_set_traits<Bytes2, true>> CS_HP_b2;
    typedef cc::FeldmanHashSet<RCU_GPB, FItem<uint8_t>, c_set_traits<uint8_t, true>> CS_GPB_u8;
    typedef cc::FeldmanHashSet<RCU_GPI, FItem<uint16_t>, c_set_traits_cmp> CS_GPI_u16;
    typedef cc::FeldmanHashSet<RCU_GPT, FItem<Bytes2>, c_set_traits<Bytes2, true>> CS_GPT_b2;
    typedef cc::FeldmanHashSet<RCU_SHB, FItem<uint16_t>, c_set_traits<uint16_t, true>> CS_SHB_u16;

    typedef cc::FeldmanHashMap<HP, int, MVal, c_map_traits<uint16_t, true>> CM_HP_u16;
    typedef cc::FeldmanHashMap<DHP, int, MVal, c_map_traits<uint32_t, true>> CM_DHP_u32;
    typedef cc::FeldmanHashMap<RCU_GPB, int, MVal, c_map_traits<uint16_t, true>> CM_GPB_u16;
    typedef cc::FeldmanHashMap<RCU_GPT, int, MVal, c_map_traits<uint8_t, false>> CM_GPT_u8;

#define C_G( NAME, GCK, T, ... ) { NAME, GCK, T::c_nHazardPtrCount + 3, &mk_feldman<__VA_ARGS__>, false }
#define C_N( NAME, GCK, ... ) { NAME, GCK, 0, &mk_feldman<__VA_ARGS__>, false }
    static const MapVariant kHashsetsCVariants[] = {
        C_G( "FeldmanSet_HP_hash8_stat", GC_HP, CS_HP_u8, FSetG<CS_HP_u8, uint8_t> ),
        C_G( "FeldmanSet_HP_hash16_cmp_stat", GC_HP, CS_HP_u16, FSetG<CS_HP_u16, uint16_t> ),
        C_G( "FeldmanSet_DHP_hash8_less_stat", GC_DHP, CS_DHP_u8, FSetG<CS_DHP_u8, uint8_t> ),
        C_G( "FeldmanSet_DHP_hash16", GC_DHP, CS_DHP_u16, FSetG<CS_DHP_u16, uint16_t> ),
        C_G( "FeldmanSet_HP_bytes2_stat", GC_HP, CS_HP_b2, FSetG<CS_HP_b2, Bytes2> ),
        C_N( "FeldmanSet_GPB_hash8_stat", GC_GPB, FSetR<CS_GPB_u8, uint8_t> ),
        C_N( "FeldmanSet_GPI_hash16_cmp_stat", GC_GPI, FSetR<CS_GPI_u16, uint16_t> ),
        C_N( "FeldmanSet_GPT_bytes2_stat", GC_GPT, FSetR<CS_GPT_b2, Bytes2> ),
        C_N( "FeldmanSet_SHB_hash16_stat", GC_SHB, FSetR<CS_SHB_u16, uint16_t> ),
        C_G( "FeldmanMap_HP_hash16_stat", GC_HP, CM_HP_u16, FMapAd<CM_HP_u16, false> ),
        C_G( "FeldmanMap_DHP_hash32_stat", GC_DHP, CM_DHP_u32, FMapAd<CM_DHP_u32, false> ),
        C_N( "FeldmanMap_GPB_hash16_stat", GC_GPB, FMapAd<CM_GPB_u16, true> ),
        C_N( "FeldmanMap_GPT_hash8", GC_GPT, FMapAd<CM_GPT_u8, true> ),
    };
#undef C_G
#undef C_N
    static const size_t kHashsetsCCount = sizeof( kHashsetsCVariants ) / sizeof( kHashsetsCVariants[0] );
} // namespace fam_hashsets

#endif
