// C21: cds::intrusive::FreeList / TaggedFreeList / CachedFreeList behave as a concurrent bag:
// a node obtained by get() is not returned by another get() until it has been put() back, and
// at quiescence every node that was put and not taken out can be obtained again.
#include "common.h"

#include <dlfcn.h>
#include <pthread.h>
#include <cds/intrusive/free_list.h>
#include <cds/intrusive/free_list_tagged.h>
#include <cds/intrusive/free_list_cached.h>

namespace hv {
    Registry& registry()
    {
        static Registry r;
        return r;
    }
    Graveyard& graveyard()
    {
        static Graveyard g;
        return g;
    }
}

using namespace hv;
namespace ci = cds::intrusive;

// TaggedFreeList asserts m_Head.is_lock_free() ("your platform must support double-width CAS").
// With clang + libstdc++ the 16-byte std::atomic operations are routed to libatomic, which
// performs them with cmpxchg16b on a CPU that has it (the build uses -mcx16) but whose
// __atomic_is_lock_free() conservatively answers "no" for 16 bytes. The precondition of the
// class is about the platform, so the query is answered here from CPUID (cx16) instead; the
// definition in the executable takes precedence over the one in libatomic.so.
// (the name is a compiler builtin, hence the definition through an asm label)
extern "C" bool cdsverif_atomic_is_lock_free( size_t size, const volatile void* ptr ) noexcept __asm__( "__atomic_is_lock_free" );
extern "C" bool cdsverif_atomic_is_lock_free( size_t size, const volatile void* ptr ) noexcept
{
    switch ( size ) {
    case 1: case 2: case 4: case 8:
        return true;
    case 16: {
        unsigned a = 1, b = 0, cx = 0, d = 0;
        __asm__( "cpuid" : "+a"( a ), "=b"( b ), "=c"( cx ), "=d"( d ));
        return ( cx & ( 1u << 13 )) != 0 && ( reinterpret_cast<uintptr_t>( const_cast<const void*>( ptr )) & 15 ) == 0;
    }
    default:
        return false;
    }
}

// CachedFreeList picks its cache slot from std::hash<std::thread::id>(this_thread::get_id()).
// With libstdc++ that is a byte hash of the pthread_t, i.e. of an address: the slot of a pooled
// worker would be fixed for the life of the process (so whether two workers share a slot would
// never vary inside a campaign) and would differ from process to process (so replays would not
// be reproducible). The value of std::hash for a thread id is unspecified and the free list must
// be correct for any assignment, so the assignment is made a generated input instead: while a
// case runs, the hash of the CALLING thread's own id is a function of its harness id and
// cfg "slots"; every other use of the byte hash is forwarded to libstdc++ unchanged.
namespace {
    thread_local int tl_me = 0;         // harness id of the calling thread: 0 main, 1..T workers
    int g_slot_mode = -1;               // -1: override off
    size_t slot_of( int me )
    {
        switch ( g_slot_mode ) {
        case 0: return 0;                       // everybody shares one slot
        case 1: return size_t( me );            // distinct slots (mod cache size)
        case 2: return size_t( me ) / 2;        // main+w1, w2+w3, w4
        default: return size_t( me ) % 2;       // main+w2+w4, w1+w3
        }
    }
}
namespace std {
    size_t _Hash_bytes( const void* ptr, size_t len, size_t seed )
    {
        typedef size_t (*fn_t)( const void*, size_t, size_t );
        static fn_t real = reinterpret_cast<fn_t>( dlsym( RTLD_NEXT, "_ZSt11_Hash_bytesPKvmm" ));
        if ( g_slot_mode >= 0 && len == sizeof( pthread_t )) {
            pthread_t v;
            memcpy( &v, ptr, sizeof( v ));
            if ( pthread_equal( v, pthread_self()))
                return 0xabcdef00u + slot_of( tl_me );      // CachedFreeList masks with CacheSize-1 (<= 15)
        }
        return real( ptr, len, seed );
    }
}

namespace {

    enum { OWNER_LIST = -1, OWNER_MAIN = 0 };      // otherwise: worker id 1..T
    enum { OP_GET = 0, OP_PUT = 1 };
    const uint64_t kCanary = 0xf4ee1157c0ffeeull;
    const uint64_t kNever = ~uint64_t( 0 );

    // Type-stable node: allocated once per case, in default state before its first put(),
    // never re-initialised and never freed while the free list exists.
    template <typename FL>
    struct TNode : FL::node {
        int id = -1;
        int holder = OWNER_LIST;    // payload stamp: who holds the node (OWNER_LIST while it is in the list)
        uint64_t canary = kCanary;
    };

    // FreeList keeps a "should be on the free list" flag in the node when put() found a
    // concurrent getter still holding a reference: the getter completes the put later.
    // (A node parked in a CachedFreeList slot never carries the flag, so the probe is also valid
    // for the cached wrapper over FreeList.)
    template <typename Base>
    struct deferred_probe {
        template <typename N>
        static bool deferred( N* ) { return false; }
    };
    template <>
    struct deferred_probe<ci::FreeList> {
        static bool deferred( ci::FreeList::node* p )
        {
            return ( p->m_freeListRefs.load( atomics::memory_order_relaxed ) & 0x80000000u ) != 0;
        }
    };

    template <typename FL, typename Base>
    Verdict run_fl( Case const& c )
    {
        typedef TNode<FL> node_t;
        lib_init();
        case_reset();
        registry().reset();
        CaseRng::seed( c.seed );

        const size_t T = c.prog.size();
        const int N = cfg_at( c, 0, 3 );
        const int prehold = cfg_at( c, 1, 0 );
        struct SlotMode {
            explicit SlotMode( int m ) { g_slot_mode = m; }
            ~SlotMode() { g_slot_mode = -1; }
        } slot_mode( cfg_at( c, 2, 1 ));
        if ( std::hash<std::thread::id>()( std::this_thread::get_id()) != 0xabcdef00u + slot_of( 0 ))
            note_class( "slot_override_inactive" );     // slots are address dependent then (replays of cached variants may differ)

        std::vector<std::unique_ptr<node_t>> nodes;
        for ( int i = 0; i < N; ++i ) {
            nodes.emplace_back( new node_t );
            nodes.back()->id = i;
        }
        auto index_of = [&]( typename FL::node* p ) -> int {
            for ( int i = 0; i < N; ++i )
                if ( static_cast<typename FL::node*>( nodes[size_t( i )].get()) == p )
                    return i;
            return -1;
        };

        // oracle state (plain data: only one thread runs at a time)
        std::vector<int> owner( size_t( N ), OWNER_MAIN );
        std::vector<std::vector<int>> held( T + 1 );
        std::vector<uint64_t> put_begin( size_t( N ), 0 ), put_end( size_t( N ), 0 );
        std::vector<int> put_thread( size_t( N ), OWNER_MAIN );
        uint64_t hh = 0x21;
        unsigned overlaps = 0, deferred = 0, gets_ok = 0, gets_null = 0, puts = 0;

        auto check_held = [&]( int me ) {
            for ( int i : held[size_t( me )] ) {
                node_t* n = nodes[size_t( i )].get();
                if ( n->holder != me || owner[size_t( i )] != me )
                    fail( "node #" + std::to_string( i ) + " held by thread " + std::to_string( me ) + " was taken over by " + std::to_string( n->holder ) + " (handed out twice)" );
                if ( n->canary != kCanary )
                    fail( "node #" + std::to_string( i ) + " payload damaged while held" );
            }
        };

        FL* fl = new FL;    // leaked on failure: its destructor asserts emptiness
        SchedStats st;
        session_begin( sched_params( c ));
        {
            Attach main_attach;

            auto do_put = [&]( int me, int i ) {
                node_t* n = nodes[size_t( i )].get();
                n->holder = OWNER_LIST;
                owner[size_t( i )] = OWNER_LIST;
                put_thread[size_t( i )] = me;
                put_begin[size_t( i )] = tick();
                put_end[size_t( i )] = kNever;
                fl->put( n );
                // only the in-flight put of this thread may be closed here: the node may already be out again
                if ( put_thread[size_t( i )] == me && put_end[size_t( i )] == kNever )
                    put_end[size_t( i )] = tick();
                ++puts;
                hh = hash_mix( hh, uint64_t( me ) * 1000 + 100 + uint64_t( i ));
            };
            // returns the node index, -1 for nullptr, -2 for a protocol violation
            auto do_get = [&]( int me ) -> int {
                uint64_t gb = tick();
                typename FL::node* p = fl->get();
                if ( !p ) {
                    ++gets_null;
                    hh = hash_mix( hh, uint64_t( me ) * 1000 + 99 );
                    return -1;
                }
                int i = index_of( p );
                if ( i < 0 ) {
                    fail( "get() returned a pointer that is not one of the nodes" );
                    return -2;
                }
                node_t* n = nodes[size_t( i )].get();
                hh = hash_mix( hh, uint64_t( me ) * 1000 + uint64_t( i ));
                if ( owner[size_t( i )] != OWNER_LIST || n->holder != OWNER_LIST ) {
                    fail( "node #" + std::to_string( i ) + " handed out twice: get() of thread " + std::to_string( me ) + " returned it while thread " + std::to_string( owner[size_t( i )] ) + " holds it" );
                    return -2;
                }
                if ( n->canary != kCanary )
                    fail( "node #" + std::to_string( i ) + " payload damaged in the list" );
                if ( put_thread[size_t( i )] != OWNER_MAIN && put_thread[size_t( i )] != me && gb < put_end[size_t( i )] )
                    ++overlaps;
                owner[size_t( i )] = me;
                n->holder = me;
                held[size_t( me )].push_back( i );
                ++gets_ok;
                return i;
            };

            // initial state: the first prehold*T nodes are handed to the workers round-robin
            // (never put: they are in default state), the rest is put by main
            for ( int i = 0; i < N; ++i ) {
                if ( T > 0 && i < prehold * int( T )) {
                    int t = i % int( T ) + 1;
                    owner[size_t( i )] = t;
                    nodes[size_t( i )]->holder = t;
                    held[size_t( t )].push_back( i );
                }
                else
                    do_put( OWNER_MAIN, i );
            }

            std::vector<std::function<void()>> bodies;
            for ( size_t t = 0; t < T; ++t ) {
                bodies.push_back( [&, t]() {
                    Attach a;
                    const int me = int( t ) + 1;
                    tl_me = me;
                    for ( Op const& op : c.prog[t] ) {
                        if ( failed())
                            break;
                        auto& h = held[size_t( me )];
                        if ( op.code == OP_PUT && !h.empty()) {
                            for ( int k = 0; k < op.b; ++k ) {
                                cdsverif::point();
                                check_held( me );
                            }
                            size_t k = size_t( op.a ) % h.size();
                            int i = h[k];
                            h.erase( h.begin() + long( k ));
                            do_put( me, i );
                            if ( deferred_probe<Base>::deferred( nodes[size_t( i )].get()))
                                ++deferred;
                        }
                        else {
                            int i = do_get( me );
                            if ( i >= 0 )
                                for ( int k = 0; k < op.b; ++k ) {
                                    cdsverif::point();
                                    check_held( me );
                                }
                        }
                    }
                    check_held( me );
                    tl_me = 0;
                } );
            }
            run_threads( bodies );

            // quiescent: exactly the nodes owned by the list come out, each once.
            // CachedFreeList::get() scans every cache slot after the underlying list, so a
            // single-threaded drain through get() reaches all of them.
            if ( !failed()) {
                for ( size_t t = 1; t <= T; ++t )
                    check_held( int( t ));
                for ( int guard = 0; guard <= N + 1 && !failed(); ++guard ) {
                    typename FL::node* p = fl->get();
                    if ( !p )
                        break;
                    int i = index_of( p );
                    if ( i < 0 )
                        fail( "drain: get() returned a pointer that is not one of the nodes" );
                    else if ( owner[size_t( i )] != OWNER_LIST || nodes[size_t( i )]->holder != OWNER_LIST )
                        fail( "drain: node #" + std::to_string( i ) + " returned by get() at quiescence although "
                            + ( owner[size_t( i )] == OWNER_MAIN ? std::string( "it was already drained (duplicate)" ) : "thread " + std::to_string( owner[size_t( i )] ) + " holds it" ));
                    else {
                        owner[size_t( i )] = OWNER_MAIN;
                        nodes[size_t( i )]->holder = OWNER_MAIN;
                    }
                }
            }
            if ( !failed()) {
                for ( int i = 0; i < N; ++i )
                    if ( owner[size_t( i )] == OWNER_LIST ) {
                        fail( "node #" + std::to_string( i ) + " lost: it was put back (last by thread " + std::to_string( put_thread[size_t( i )] ) + ") but get() returns nullptr at quiescence" );
                        break;
                    }
            }
            if ( !failed() && !fl->empty())
                fail( "empty() is false after get() returned nullptr at quiescence" );
            if ( !failed()) {
                int left = 0;
                fl->clear( [&left]( typename FL::node* ) { ++left; } );
                if ( left )
                    fail( "clear() found " + std::to_string( left ) + " node(s) after the list was drained" );
            }
            if ( !failed())
                delete fl;
        }
        st = session_end();

        if ( overlaps )
            note_class( "get_put_overlap" );
        if ( deferred )
            note_class( "deferred_put" );
        if ( gets_null )
            note_class( "get_null" );
        if ( st.preemptions )
            note_class( "preempted" );
        hh = hash_mix( hh, ( uint64_t( gets_ok ) << 32 ) | puts );
        return finish( st, hh, ( overlaps || deferred ) && st.preemptions > 0 );
    }

    typedef ci::FreeList FL;
    typedef ci::TaggedFreeList TFL;

    struct Variant {
        const char* name;
        Verdict (*run)( Case const& );
    };
    const Variant kVariants[] = {
        { "FreeList", run_fl<FL, FL> },
        { "TaggedFreeList", run_fl<TFL, TFL> },
        { "CachedFreeList_FreeList_16", run_fl<ci::CachedFreeList<FL>, FL> },
        { "CachedFreeList_FreeList_4", run_fl<ci::CachedFreeList<FL, 4>, FL> },
        { "CachedFreeList_Tagged_16", run_fl<ci::CachedFreeList<TFL>, TFL> },
        { "CachedFreeList_Tagged_4_pad16", run_fl<ci::CachedFreeList<TFL, 4, 16>, TFL> },
    };
    const size_t kNumVariants = sizeof( kVariants ) / sizeof( kVariants[0] );
}

namespace cdsverif {
    Schema const& harness_schema()
    {
        static Schema s = []() {
            Schema x;
            x.name = "freelist";
            for ( size_t i = 0; i < kNumVariants; ++i )
                x.variants.push_back( kVariants[i].name );
            x.cfg = { { "nodes", 2, 6 }, { "prehold", 0, 2 }, { "slots", 0, 3 } };
            // get: b = points while holding; put: a = index into the held set, b = points before
            x.ops = { { "get", 5, 0, 2 }, { "put", 5, 7, 2 } };
            x.min_threads = 2;
            x.max_threads_quick = 3;
            x.max_threads_thorough = 4;
            x.max_ops_quick = 5;
            x.max_ops_thorough = 7;
            x.nontrivial_rule = "a get() returned a node whose put() by a different worker was still in progress when the get() started "
                "(overlapping get/put of the same node), or a FreeList put() was observed deferred to a getter holding a reference "
                "(should-be-on-freelist flag set after put returned); and at least one pre-emption happened";
            return x;
        }();
        return s;
    }

    Verdict run_case( Case const& c )
    {
        size_t v = size_t( c.variant ) < kNumVariants ? size_t( c.variant ) : 0;
        return kVariants[v].run( c );
    }
}
