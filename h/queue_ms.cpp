// C06: MSQueue / MoirQueue / BasketQueue / OptimisticQueue, container and intrusive,
// HP and DHP, item counter on/off, relaxed / seq_cst memory model.
#include "common.h"

#include <cds/container/msqueue.h>
#include <cds/container/moir_queue.h>
#include <cds/container/basket_queue.h>
#include <cds/container/optimistic_queue.h>
#include <cds/intrusive/msqueue.h>
#include <cds/intrusive/moir_queue.h>
#include <cds/intrusive/basket_queue.h>
#include <cds/intrusive/optimistic_queue.h>

namespace hv {
    Registry& registry()
    {
        static Registry r;
        return r;
    }
    Graveyard& graveyard()
    {
        static Graveyard g;
        return g;
    }
}

using namespace hv;
namespace cc = cds::container;
namespace ci = cds::intrusive;

namespace {

    const char* const kOpNames[] = { "enq", "deq" };

    // ---- container adapters -----------------------------------------------------------
    template <typename Q>
    struct ValQ {
        Q q;
        bool enq( int v ) { return q.enqueue( v ); }
        int deq()
        {
            int v = -1;
            return q.dequeue( v ) ? v : -1;
        }
        bool counted_size( size_t& n ) const
        {
            n = q.size();
            return !std::is_same<typename Q::item_counter, cds::atomicity::empty_item_counter>::value;
        }
        bool empty() { return q.empty(); }
        void post_check() {}
    };

    // ---- intrusive adapters -------------------------------------------------------------
    struct disposer_base {
        template <typename T>
        void operator()( T* p ) const
        {
            registry().on_dispose( p->id, "queue node" );
            // a dequeued item is returned unguarded (see the warning at MSQueue::dequeue), so its
            // payload must stay readable; only the link part is poisoned
            graveyard().bury( p, static_cast<void*>( p ), offsetof( T, id ));
        }
    };

    template <typename Q, typename Node>
    struct IntrQ {
        Q q;
        bool enq( int v )
        {
            Node* n = new Node;
            n->id = registry().add();
            n->val = v;
            n->canary = 0xc0ffee;
            bool ok = q.enqueue( *n );
            if ( !ok ) {
                registry().drop( n->id );
                delete n;
            }
            return ok;
        }
        int deq()
        {
            Node* p = q.dequeue();
            if ( !p )
                return -1;
            cdsverif::point();
            if ( p->canary != 0xc0ffee )
                fail( "dequeued intrusive node has a bad canary" );
            return p->val;
        }
        bool counted_size( size_t& n ) const
        {
            n = q.size();
            return !std::is_same<typename Q::item_counter, cds::atomicity::empty_item_counter>::value;
        }
        bool empty() { return q.empty(); }
        void post_check() {}
    };

    template <typename GC>
    struct MsNode : ci::msqueue::node<GC> {
        int id;
        int val;
        uint64_t canary;
    };
    template <typename GC>
    struct BkNode : ci::basket_queue::node<GC> {
        int id;
        int val;
        uint64_t canary;
    };
    template <typename GC>
    struct OptNode : ci::optimistic_queue::node<GC> {
        int id;
        int val;
        uint64_t canary;
    };

    struct Gcs {
        std::unique_ptr<HpSingleton> hp;
        std::unique_ptr<DhpSingleton> dhp;
    };

    template <typename GC>
    void make_gc( Gcs& g, Case const& c );
    template <>
    void make_gc<cds::gc::HP>( Gcs& g, Case const& c )
    {
        // small retired arrays so that scans happen inside short programs
        size_t threads = c.prog.size() + 2;
        size_t hz = 8;
        g.hp.reset( new HpSingleton( hz, threads, hz * threads + size_t( cfg_at( c, 1, 1 )), false ));
    }
    template <>
    void make_gc<cds::gc::DHP>( Gcs& g, Case const& c )
    {
        (void) c;
        g.dhp.reset( new DhpSingleton( 4 ));
    }

    template <typename GC, typename Adapter>
    Verdict run_queue( Case const& c )
    {
        lib_init();
        case_reset();
        registry().reset();
        CaseRng::seed( c.seed );
        History hist;
        SchedStats st;
        bool counted_ok = true;
        {
            Gcs gcs;
            make_gc<GC>( gcs, c );
            session_begin( sched_params( c ));
            {
                Attach main_attach;
                {
                    Adapter ad;
                    int next_val = 1;
                    int prefill = cfg_at( c, 0, 0 );
                    for ( int i = 0; i < prefill; ++i ) {
                        size_t e = hist.begin( 0, Q_ENQ, next_val );
                        hist.end( e, ad.enq( next_val ) ? 1 : 0 );
                        ++next_val;
                    }
                    std::vector<std::function<void()>> bodies;
                    for ( size_t t = 0; t < c.prog.size(); ++t ) {
                        bodies.push_back( [&, t]() {
                            Attach a;
                            for ( Op const& op : c.prog[t] ) {
                                if ( op.code == 0 ) {
                                    int v = int( t + 1 ) * 100 + ( next_val++ );
                                    size_t e = hist.begin( int( t ) + 1, Q_ENQ, v );
                                    bool ok = ad.enq( v );
                                    hist.end( e, ok ? 1 : 0 );
                                }
                                else if ( op.code == 1 ) {
                                    size_t e = hist.begin( int( t ) + 1, Q_DEQ );
                                    int v = ad.deq();
                                    hist.end( e, v );
                                }
                                else {
                                    // force a reclamation pass of this thread's retired objects
                                    GC::scan();
                                    note_class( "scan_op" );
                                }
                            }
                        } );
                    }
                    run_threads( bodies );
                    // quiescent: size must agree with the model when a real counter is configured
                    size_t sz = 0;
                    bool counted = ad.counted_size( sz );
                    // drain
                    size_t drained = 0;
                    for ( ;; ) {
                        size_t e = hist.begin( 0, Q_DEQ );
                        int v = ad.deq();
                        hist.end( e, v );
                        if ( v < 0 )
                            break;
                        ++drained;
                        if ( drained > 1000 ) {
                            fail( "drain does not terminate" );
                            break;
                        }
                    }
                    if ( counted && sz != drained )
                        counted_ok = false;
                    if ( !ad.empty())
                        fail( "empty() is false after the queue was drained" );
                }
            }
            st = session_end();
        } // singletons destroyed: every retired node must have been disposed by now
        graveyard().release();
        if ( !counted_ok )
            fail( "size() at quiescence differs from the number of items drained" );
        if ( !failed()) {
            LinChecker<FifoModel> lc( hist.ev );
            if ( !lc.check( FifoModel()))
                fail( "history is not linearizable to a FIFO queue: " + history_text( hist.ev, kOpNames ));
            if ( lc.gave_up())
                note_class( "lin_gave_up" );
        }
        if ( !failed()) {
            // intrusive variants: every node that went through the queue was disposed exactly once
            for ( size_t i = 0; i < registry().recs.size(); ++i )
                if ( registry().recs[i].disposed != ( registry().recs[i].dropped ? 0 : 1 )) {
                    fail( "intrusive node #" + std::to_string( i ) + " disposed " + std::to_string( registry().recs[i].disposed ) + " times after SMR destruction" );
                    break;
                }
        }
        unsigned ov = hist.overlaps();
        if ( ov )
            note_class( "overlap" );
        if ( st.preemptions )
            note_class( "preempted" );
        return finish( st, hist.hash(), ov > 0 && st.switches > c.prog.size());
    }

    // ---- variant table ----------------------------------------------------------------------
    typedef cds::gc::HP HP;
    typedef cds::gc::DHP DHP;

    struct ms_ic : cc::msqueue::traits { typedef cds::atomicity::item_counter item_counter; };
    struct ms_sc : cc::msqueue::traits { typedef cds::opt::v::sequential_consistent memory_model; typedef cds::atomicity::item_counter item_counter; };
    struct bk_ic : cc::basket_queue::traits { typedef cds::atomicity::item_counter item_counter; };
    struct bk_sc : cc::basket_queue::traits { typedef cds::opt::v::sequential_consistent memory_model; };
    struct op_ic : cc::optimistic_queue::traits { typedef cds::atomicity::item_counter item_counter; };
    struct op_sc : cc::optimistic_queue::traits { typedef cds::opt::v::sequential_consistent memory_model; };

    template <typename GC>
    struct ims_traits : ci::msqueue::traits {
        typedef ci::msqueue::base_hook<cds::opt::gc<GC>> hook;
        typedef disposer_base disposer;
        typedef cds::atomicity::item_counter item_counter;
    };
    template <typename GC>
    struct ibk_traits : ci::basket_queue::traits {
        typedef ci::basket_queue::base_hook<cds::opt::gc<GC>> hook;
        typedef disposer_base disposer;
    };
    template <typename GC>
    struct iop_traits : ci::optimistic_queue::traits {
        typedef ci::optimistic_queue::base_hook<cds::opt::gc<GC>> hook;
        typedef disposer_base disposer;
        typedef cds::atomicity::item_counter item_counter;
    };

    struct Variant {
        const char* name;
        Verdict (*run)( Case const& );
    };

#define VQ( GC, ... ) run_queue<GC, ValQ<__VA_ARGS__>>
    const Variant kVariants[] = {
        { "MSQueue_HP", VQ( HP, cc::MSQueue<HP, int> ) },
        { "MSQueue_DHP", VQ( DHP, cc::MSQueue<DHP, int> ) },
        { "MSQueue_HP_ic", run_queue<HP, ValQ<cc::MSQueue<HP, int, ms_ic>>> },
        { "MSQueue_DHP_seqcst_ic", run_queue<DHP, ValQ<cc::MSQueue<DHP, int, ms_sc>>> },
        { "MoirQueue_HP", VQ( HP, cc::MoirQueue<HP, int> ) },
        { "MoirQueue_DHP_ic", run_queue<DHP, ValQ<cc::MoirQueue<DHP, int, ms_ic>>> },
        { "BasketQueue_HP", VQ( HP, cc::BasketQueue<HP, int> ) },
        { "BasketQueue_DHP", VQ( DHP, cc::BasketQueue<DHP, int> ) },
        { "BasketQueue_HP_ic", run_queue<HP, ValQ<cc::BasketQueue<HP, int, bk_ic>>> },
        { "BasketQueue_DHP_seqcst", run_queue<DHP, ValQ<cc::BasketQueue<DHP, int, bk_sc>>> },
        { "OptimisticQueue_HP", VQ( HP, cc::OptimisticQueue<HP, int> ) },
        { "OptimisticQueue_DHP", VQ( DHP, cc::OptimisticQueue<DHP, int> ) },
        { "OptimisticQueue_HP_ic", run_queue<HP, ValQ<cc::OptimisticQueue<HP, int, op_ic>>> },
        { "OptimisticQueue_DHP_seqcst", run_queue<DHP, ValQ<cc::OptimisticQueue<DHP, int, op_sc>>> },
        { "intrusive_MSQueue_HP", run_queue<HP, IntrQ<ci::MSQueue<HP, MsNode<HP>, ims_traits<HP>>, MsNode<HP>>> },
        { "intrusive_MSQueue_DHP", run_queue<DHP, IntrQ<ci::MSQueue<DHP, MsNode<DHP>, ims_traits<DHP>>, MsNode<DHP>>> },
        { "intrusive_MoirQueue_HP", run_queue<HP, IntrQ<ci::MoirQueue<HP, MsNode<HP>, ims_traits<HP>>, MsNode<HP>>> },
        { "intrusive_MoirQueue_DHP", run_queue<DHP, IntrQ<ci::MoirQueue<DHP, MsNode<DHP>, ims_traits<DHP>>, MsNode<DHP>>> },
        { "intrusive_BasketQueue_HP", run_queue<HP, IntrQ<ci::BasketQueue<HP, BkNode<HP>, ibk_traits<HP>>, BkNode<HP>>> },
        { "intrusive_BasketQueue_DHP", run_queue<DHP, IntrQ<ci::BasketQueue<DHP, BkNode<DHP>, ibk_traits<DHP>>, BkNode<DHP>>> },
        { "intrusive_OptimisticQueue_HP", run_queue<HP, IntrQ<ci::OptimisticQueue<HP, OptNode<HP>, iop_traits<HP>>, OptNode<HP>>> },
        { "intrusive_OptimisticQueue_DHP", run_queue<DHP, IntrQ<ci::OptimisticQueue<DHP, OptNode<DHP>, iop_traits<DHP>>, OptNode<DHP>>> },
    };
    const size_t kNumVariants = sizeof( kVariants ) / sizeof( kVariants[0] );
}

namespace cdsverif {
    Schema const& harness_schema()
    {
        static Schema s = []() {
            Schema x;
            x.name = "queue_ms";
            for ( size_t i = 0; i < kNumVariants; ++i )
                x.variants.push_back( kVariants[i].name );
            x.cfg = { { "prefill", 0, 3 }, { "retired_extra", 1, 6 } };
            x.ops = { { "enq", 5, 0, 0 }, { "deq", 5, 0, 0 }, { "scan", 2, 0, 0 } };
            x.max_ops_quick = 5;
            x.max_ops_thorough = 7;
            x.nontrivial_rule = "history has >=1 pair of overlapping operations of different threads and at least one token switch beyond thread start";
            return x;
        }();
        return s;
    }

    Verdict run_case( Case const& c )
    {
        size_t v = size_t( c.variant ) < kNumVariants ? size_t( c.variant ) : 0;
        return kVariants[v].run( c );
    }
}
