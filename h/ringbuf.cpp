// C12: cds::container::WeakRingBuffer<T> and WeakRingBuffer<void> are exact single-producer /
// single-consumer FIFOs: the consumer sees the producer's input exactly once, in order, with exact
// sizes and bytes; an operation may fail only if it could not succeed under ANY linearization.
// Thread 0 of a case is the producer, thread 1 the consumer.
//
// NOTE (library finding, debug builds only): front() asserts `cback_ - front < capacity()`, which is
// false when the ring is completely full and the previous consumer call was a front() that was not
// followed by pop_front() (front() refreshes the cached back but does not advance front). The same
// assertion is at the top of pop()/dequeue_with(). The harness therefore follows a front() that may
// have observed a completely full ring with pop_front() (see `must_pop`).
#include "common.h"

#include <deque>

#include <cds/container/weak_ringbuffer.h>

namespace hv {
    Registry& registry()
    {
        static Registry r;
        return r;
    }
    Graveyard& graveyard()
    {
        static Graveyard g;
        return g;
    }
}

using namespace hv;
namespace cc = cds::container;

namespace {

    enum { R_PUSH = 0, R_POP = 1, R_FRONT = 2, R_QUERY = 3 };
    const int kProducer = 1, kConsumer = 2;     // thread ids in the history

    inline uint32_t mix( uint32_t s ) { return ( s * 2654435761u ) ^ 0x5bd1e995u; }

    // ---- element types of the typed ring ------------------------------------------------------
    struct Item {
        uint32_t seq;
        uint32_t chk;
        Item() = default;
        explicit Item( uint32_t s ) : seq( s ), chk( mix( s )) {}
        bool good( uint32_t s ) const { return seq == s && chk == mix( s ); }
    };

    // non-trivial element: the ring constructs it with placement new in a free cell, value_cleaner
    // destroys it when it is popped, the destructor of the ring destroys what is left
    struct TItem {
        static constexpr uint32_t kMagic = 0x17e4a11fu;
        static int live;
        static int bad;
        uint32_t seq;
        uint32_t chk;
        uint32_t magic;
        TItem() : seq( 0 ), chk( 0 ), magic( kMagic ) { ++live; }
        // copying is client code that runs inside the ring operation: make it a scheduling point
        explicit TItem( uint32_t s ) : magic( kMagic )
        {
            cdsverif::point();
            seq = s;
            chk = mix( s );
            ++live;
        }
        TItem( TItem const& o ) : magic( kMagic )
        {
            cdsverif::point();
            seq = o.seq;
            chk = o.chk;
            if ( o.magic != kMagic )
                ++bad;
            ++live;
        }
        TItem& operator=( TItem const& o )
        {
            cdsverif::point();
            if ( o.magic != kMagic || magic != kMagic )
                ++bad;
            seq = o.seq;
            chk = o.chk;
            return *this;
        }
        ~TItem()
        {
            if ( magic != kMagic )
                ++bad;
            magic = 0;
            --live;
        }
        bool good( uint32_t s ) const { return magic == kMagic && seq == s && chk == mix( s ); }
    };
    int TItem::live = 0;
    int TItem::bad = 0;

    template <typename T> struct life { static void reset() {} static void check() {} };
    template <> struct life<TItem> {
        static void reset()
        {
            TItem::live = 0;
            TItem::bad = 0;
        }
        static void check()
        {
            if ( TItem::bad )
                fail( "element life cycle: " + std::to_string( TItem::bad ) + " operations on an element that was not alive (destroyed twice / never constructed)" );
            if ( TItem::live != 0 )
                fail( "element life cycle: construction / destruction count differs by " + std::to_string( TItem::live ));
        }
    };

    std::string u( uint64_t v ) { return std::to_string( v ); }

    // =============================================================================================
    // typed ring
    // =============================================================================================
    template <typename RB, typename T>
    struct TypedRun {
        Case const& c;
        RB rb;
        size_t cap;
        History hist;
        uint64_t published = 0;     // elements of completed pushes (exact value of back_ between producer calls)
        uint64_t consumed = 0;      // elements of completed pops (exact value of front_ between consumer calls)
        size_t push_inflight = 0;   // count of the push being executed
        size_t pop_inflight = 0;    // count of the pop being executed
        bool concurrent = false;
        bool wrapped = false;
        unsigned push_fail = 0, pop_fail = 0, n_batch = 0, n_peek = 0;

        TypedRun( Case const& cs, size_t request ) : c( cs ), rb( request ), cap( rb.capacity()) {}

        // ---- producer ------------------------------------------------------------------------
        bool push_n( size_t count, int how, bool batch )
        {
            uint64_t c_lb = consumed;
            uint32_t first = uint32_t( published + 1 );
            push_inflight = count;
            size_t e = hist.begin( kProducer, R_PUSH, int64_t( count ), how );
            bool ok;
            if ( !batch ) {
                switch ( how % 5 ) {
                case 0: {
                    T x( first );
                    ok = rb.push( x );
                    break;
                }
                case 1:
                    ok = rb.enqueue( T( first ));
                    break;
                case 2:
                    ok = rb.emplace( first );
                    break;
                case 3:
                    ok = rb.enqueue_with( [first]( T& dest ) {
                        cdsverif::point();      // the copy functor is client code
                        new ( &dest ) T( first );
                    } );
                    break;
                default:
                    ok = rb.push_with( [first]( T& dest ) {
                        cdsverif::point();
                        new ( &dest ) T( first );
                    } );
                    break;
                }
            }
            else {
                ++n_batch;
                std::vector<uint32_t> seqs( count );
                for ( size_t i = 0; i < count; ++i )
                    seqs[i] = first + uint32_t( i );
                switch ( how % 3 ) {
                case 0: {
                    std::vector<T> arr;
                    arr.reserve( count );
                    for ( size_t i = 0; i < count; ++i )
                        arr.emplace_back( seqs[i] );
                    ok = rb.push( arr.data(), count );
                    break;
                }
                case 1:
                    ok = rb.push( seqs.data(), count );
                    break;
                default:
                    ok = rb.push( seqs.data(), count, []( T& dest, uint32_t const& src ) {
                        cdsverif::point();
                        new ( &dest ) T( src );
                    } );
                    break;
                }
            }
            uint64_t c_ub = consumed + pop_inflight;
            push_inflight = 0;
            hist.end( e, ok ? 1 : 0 );
            if ( ok ) {
                if ( published + count > c_ub + cap )
                    fail( "push of " + u( count ) + " succeeded although at most " + u( c_ub + cap - published ) + " cells could be free (published " + u( published ) +
                          ", consumed incl. in-flight pop " + u( c_ub ) + ", capacity " + u( cap ) + ")" );
                uint64_t last = published + count - 1;
                if ( concurrent && last / cap >= 1 && ( published == 0 || last / cap > ( published - 1 ) / cap ))
                    wrapped = true;
                published += count;
            }
            else {
                ++push_fail;
                if ( int64_t( cap ) - int64_t( published - c_lb ) >= int64_t( count ))
                    fail( "push of " + u( count ) + " failed although " + u( cap - ( published - c_lb )) + " cells were free when it was invoked (published " +
                          u( published ) + ", consumed " + u( c_lb ) + ", capacity " + u( cap ) + ")" );
            }
            return ok;
        }

        // ---- consumer ------------------------------------------------------------------------
        void check_elem( T const& x, uint64_t idx, const char* what )
        {
            if ( !x.good( uint32_t( idx + 1 )))
                fail( std::string( what ) + ": element #" + u( idx + 1 ) + " expected, got seq " + u( x.seq ) + ( x.chk == mix( x.seq ) ? "" : " (corrupted)" ));
        }

        bool pop_n( int th, size_t count, int how, bool batch )
        {
            uint64_t p_lb = published;
            pop_inflight = count;
            size_t e = hist.begin( th, R_POP, int64_t( count ), how );
            bool ok;
            std::vector<T> got;
            std::vector<uint32_t> gseq;
            if ( !batch ) {
                got.emplace_back( 0u );
                switch ( how % 4 ) {
                case 0:
                    ok = rb.pop( got[0] );
                    break;
                case 1:
                    ok = rb.dequeue( got[0] );
                    break;
                case 2:
                    ok = rb.dequeue_with( [&got]( T& src ) {
                        cdsverif::point();
                        got[0] = src;
                    } );
                    break;
                default:
                    ok = rb.pop_with( [&got]( T& src ) {
                        cdsverif::point();
                        got[0] = src;
                    } );
                    break;
                }
            }
            else {
                ++n_batch;
                if ( how % 2 == 0 ) {
                    for ( size_t i = 0; i < count; ++i )
                        got.emplace_back( 0u );
                    ok = rb.pop( got.data(), count );
                }
                else {
                    gseq.assign( count, 0 );
                    ok = rb.pop( gseq.data(), count, []( uint32_t& dest, T& src ) {
                        cdsverif::point();
                        dest = src.good( src.seq ) ? src.seq : 0xffffffffu;
                    } );
                }
            }
            uint64_t p_ub = published + push_inflight;
            pop_inflight = 0;
            hist.end( e, ok ? 1 : 0 );
            if ( ok ) {
                if ( consumed + count > p_ub )
                    fail( "pop of " + u( count ) + " succeeded although only " + u( p_ub - consumed ) + " elements were pushed (incl. a push in flight)" );
                for ( size_t i = 0; i < count; ++i ) {
                    if ( !gseq.empty()) {
                        if ( gseq[i] != uint32_t( consumed + i + 1 ))
                            fail( "batch pop: element #" + u( consumed + i + 1 ) + " expected, got seq " + u( gseq[i] ));
                    }
                    else
                        check_elem( got[i], consumed + i, batch ? "batch pop" : "pop" );
                }
                consumed += count;
            }
            else {
                ++pop_fail;
                if ( p_lb - consumed >= count )
                    fail( "pop of " + u( count ) + " failed although " + u( p_lb - consumed ) + " elements had been pushed completely when it was invoked" );
            }
            return ok;
        }

        // front() [+ pop_front()]
        void front_pair( int th, bool peek_only )
        {
            uint64_t p_lb = published;
            size_t e = hist.begin( th, R_FRONT, peek_only ? 1 : 0 );
            T* p = rb.front();
            uint64_t p_ub = published + push_inflight;
            hist.end( e, p ? 1 : 0 );
            if ( !p ) {
                ++pop_fail;
                if ( p_lb > consumed )
                    fail( "front() returned nullptr although " + u( p_lb - consumed ) + " elements had been pushed completely when it was invoked" );
                return;
            }
            if ( consumed >= p_ub ) {
                fail( "front() returned an element although nothing was pushed" );
                return;
            }
            check_elem( *p, consumed, "front()" );
            // see the note at the top of the file
            bool must_pop = p_ub - consumed >= cap;
            if ( peek_only && !must_pop ) {
                ++n_peek;
                return;
            }
            cdsverif::point();
            // the front element belongs to the consumer until it is popped
            check_elem( *p, consumed, "front() element re-read before pop_front()" );
            pop_inflight = 1;
            size_t d = hist.begin( th, R_POP, 1, 9 );
            bool ok = rb.pop_front();
            pop_inflight = 0;
            hist.end( d, ok ? 1 : 0 );
            if ( !ok )
                fail( "pop_front() failed right after front() returned an element" );
            else
                ++consumed;
        }

        void query( int th, int which )
        {
            bool producer = th == kProducer;
            uint64_t c_lb = consumed, p_lb = published;
            size_t e = hist.begin( th, R_QUERY, which );
            size_t sz = 0;
            bool flag = false;
            if ( which == 0 )
                sz = rb.size();
            else if ( which == 1 )
                flag = rb.empty();
            else
                flag = rb.full();
            uint64_t c_ub = consumed + pop_inflight, p_ub = published + push_inflight;
            hist.end( e, which == 0 ? int64_t( sz ) : ( flag ? 1 : 0 ));
            // the caller's own index is exact, the other one lies between its bounds
            int64_t lo, hi;
            if ( producer ) {
                lo = int64_t( published ) - int64_t( c_ub );
                hi = int64_t( published ) - int64_t( c_lb );
            }
            else {
                lo = int64_t( p_lb ) - int64_t( consumed );
                hi = int64_t( p_ub ) - int64_t( consumed );
            }
            if ( lo < 0 )
                lo = 0;
            if ( hi > int64_t( cap ))
                hi = int64_t( cap );
            std::string range = " (possible sizes " + std::to_string( lo ) + ".." + std::to_string( hi ) + ")";
            if ( which == 0 ) {
                if ( int64_t( sz ) < lo || int64_t( sz ) > hi )
                    fail( "size() returned " + u( sz ) + range );
            }
            else if ( which == 1 ) {
                if ( flag ? lo > 0 : hi <= 0 )
                    fail( std::string( "empty() returned " ) + ( flag ? "true" : "false" ) + range );
            }
            else {
                if ( flag ? hi < int64_t( cap ) : lo >= int64_t( cap ))
                    fail( std::string( "full() returned " ) + ( flag ? "true" : "false" ) + range );
            }
        }

        void producer_body()
        {
            Attach a;
            if ( c.prog.empty())
                return;
            for ( Op const& op : c.prog[0] ) {
                switch ( op.code ) {
                case 0:
                    push_n( 1, op.a, false );
                    break;
                case 1:
                    push_n( 1 + size_t( op.a ) % ( cap - 1 ), op.b, true );
                    break;
                case 2: {
                    // a batch that crosses the end of the buffer
                    size_t n = cap - size_t( published % cap ) + size_t( op.a & 1 );
                    if ( n > cap - 1 )
                        n = cap - 1;
                    push_n( n, op.b, true );
                    break;
                }
                default:
                    query( kProducer, op.a % 3 );
                    break;
                }
            }
        }
        void consumer_body()
        {
            Attach a;
            if ( c.prog.size() < 2 )
                return;
            for ( Op const& op : c.prog[1] ) {
                switch ( op.code ) {
                case 0:
                    pop_n( kConsumer, 1, op.a, false );
                    break;
                case 1:
                    pop_n( kConsumer, 1 + size_t( op.a ) % ( cap - 1 ), op.b, true );
                    break;
                case 2:
                    front_pair( kConsumer, ( op.b & 3 ) == 1 );
                    break;
                default:
                    query( kConsumer, op.a % 3 );
                    break;
                }
            }
        }

        void run()
        {
            // sequential prefix: moves the indices to an arbitrary position / lap
            int prefix = cfg_at( c, 2, 0 );
            for ( int i = 0; i < prefix && !failed(); ++i ) {
                if ( !push_n( 1, i, false ))
                    fail( "sequential prefix: push failed on an empty ring" );
                if (( i & 3 ) == 3 )
                    front_pair( 0, false );
                else if ( !pop_n( 0, 1, i, false ))
                    fail( "sequential prefix: pop failed on a non-empty ring" );
            }
            size_t first_ev = hist.ev.size();
            concurrent = true;
            std::vector<std::function<void()>> bodies;
            bodies.push_back( [this]() { producer_body(); } );
            bodies.push_back( [this]() { consumer_body(); } );
            run_threads( bodies );
            concurrent = false;
            // quiescence: what is left comes out, in order
            if ( !failed()) {
                size_t left = size_t( published - consumed );
                if ( rb.size() != left )
                    fail( "size() at quiescence is " + u( rb.size()) + ", " + u( left ) + " elements were pushed and not popped" );
                if ( rb.empty() != ( left == 0 ))
                    fail( "empty() at quiescence is wrong" );
                if ( rb.full() != ( left >= cap ))
                    fail( "full() at quiescence is wrong" );
                for ( size_t i = 0; i < left + 2 && !failed(); ++i ) {
                    if (( i & 1 ) && published > consumed )
                        front_pair( 0, false );
                    else if ( !pop_n( 0, 1, int( i ), false ))
                        break;
                }
                if ( !failed() && consumed != published )
                    fail( "drain stopped after " + u( consumed ) + " of " + u( published ) + " elements" );
                if ( !failed() && ( !rb.empty() || rb.size() != 0 || rb.front() != nullptr ))
                    fail( "ring is not empty after everything was popped" );
            }
            // leave something behind for the destructor of the ring (element life cycle)
            if ( !failed() && ( c.seed & 1 ))
                push_n( 1, 0, false );
            std::vector<Ev> part( hist.ev.begin() + long( first_ev ), hist.ev.end());
            hist.ev.swap( part );
        }
    };

    template <typename RB, typename T>
    Verdict run_typed_req( Case const& c, size_t request )
    {
        lib_init();
        case_reset();
        registry().reset();
        CaseRng::seed( c.seed );
        life<T>::reset();
        SchedStats st;
        uint64_t hh = 0;
        unsigned ov = 0;
        bool wrapped = false;
        {
            session_begin( sched_params( c ));
            {
                Attach main_attach;
                {
                    TypedRun<RB, T> r( c, request );
                    r.run();
                    hh = r.hist.hash();
                    ov = r.hist.overlaps();
                    wrapped = r.wrapped;
                    if ( r.push_fail )
                        note_class( "push_fail", r.push_fail );
                    if ( r.pop_fail )
                        note_class( "pop_fail", r.pop_fail );
                    if ( r.n_batch )
                        note_class( "batch", r.n_batch );
                    if ( r.n_peek )
                        note_class( "peek", r.n_peek );
                }
            }
            st = session_end();
        }
        life<T>::check();
        if ( wrapped )
            note_class( "wrapped" );
        if ( ov )
            note_class( "overlap" );
        if ( st.preemptions )
            note_class( "preempted" );
        return finish( st, hh, wrapped && st.preemptions > 0 );
    }

    const size_t kTypedCaps[] = { 2, 3, 4, 5, 6, 7, 8, 9, 16 };

    template <typename RB, typename T>
    Verdict run_typed( Case const& c )
    {
        int i = cfg_at( c, 0, 0 );
        if ( i < 0 || i > 8 )
            i = 0;
        return run_typed_req<RB, T>( c, kTypedCaps[i] );
    }

    // =============================================================================================
    // WeakRingBuffer<void>
    // =============================================================================================
    inline uint8_t pattern( uint64_t rec, size_t i ) { return uint8_t( rec * 31 + i * 7 + 3 ); }
    inline size_t real_size( size_t size ) { return (( size + 7 ) & ~size_t( 7 )) + 8; }

    template <typename RB>
    struct VoidRun {
        struct Rec {
            size_t size;
            uint8_t* ptr;           // nullptr: not known yet (one-call push in flight)
            uint64_t abs_start;     // value of back_ where the record starts (after the unused tail, if any)
            uint64_t abs_end;
            bool push_started;
            bool push_done;
            bool seen;
        };
        Case const& c;
        RB rb;
        size_t cap;
        History hist;
        std::vector<Rec> recs;      // every record whose push was attempted and not rejected
        uint64_t back_b = 0;        // exact value of back_ between producer calls
        uint64_t back_ub = 0;       // upper bound of back_ (includes the push in flight)
        size_t cons_idx = 0;        // first record that is not popped
        uint64_t front_lb = 0;      // front_ is at least this
        bool pop_inflight = false;
        uint8_t* base = nullptr;    // start of the ring storage, derived from the first record
        bool concurrent = false;
        bool wrapped = false;
        unsigned push_fail = 0, front_fail = 0, n_tail = 0, n_peek = 0;

        VoidRun( Case const& cs, size_t request ) : c( cs ), rb( request ), cap( rb.capacity()) {}

        // would `real` bytes fit if front_ == front?
        bool fits( uint64_t front, uint64_t back, size_t real ) const
        {
            if ( front + cap < back )
                front = back - cap;     // front_ is never more than `capacity` behind back_
            uint64_t free_bytes = front + cap - back;
            size_t tail = cap - size_t( back % cap );
            if ( real <= tail )
                return free_bytes >= real;
            return free_bytes >= tail && free_bytes - tail >= real;
        }
        // upper bound of front_ while record #n is being reserved
        bool front_upper( size_t n, uint64_t back_inv, uint64_t& ub ) const
        {
            if ( cons_idx > n )
                return false;
            if ( cons_idx == n ) {
                if ( pop_inflight )
                    return false;
                ub = back_inv;
                return true;
            }
            ub = pop_inflight ? recs[cons_idx].abs_end : recs[cons_idx].abs_start;
            return true;
        }

        // ---- producer ------------------------------------------------------------------------
        bool produce( size_t size, bool one_call )
        {
            size_t real = real_size( size );
            uint64_t rec_no = recs.size() + 1;
            uint64_t f_lb = front_lb;
            uint64_t back_inv = back_b;
            size_t tail = cap - size_t( back_b % cap );
            Rec r;
            r.size = size;
            r.ptr = nullptr;
            r.abs_start = real <= tail ? back_b : back_b + tail;
            r.abs_end = r.abs_start + real;
            r.push_started = one_call;
            r.push_done = false;
            r.seen = false;
            size_t n = recs.size();
            recs.push_back( r );
            back_ub = r.abs_end;
            size_t e = hist.begin( kProducer, R_PUSH, int64_t( size ), one_call ? 1 : 0 );
            bool ok;
            uint8_t* p = nullptr;
            if ( one_call ) {
                std::vector<uint8_t> data( size );
                for ( size_t i = 0; i < size; ++i )
                    data[i] = pattern( rec_no, i );
                ok = rb.push_back( data.data(), size );
            }
            else {
                p = static_cast<uint8_t*>( rb.back( size ));
                ok = p != nullptr;
            }
            uint64_t f_ub = 0;
            bool have_ub = front_upper( n, back_inv, f_ub );
            if ( !ok ) {
                hist.end( e, 0 );
                ++push_fail;
                if ( recs[n].seen )
                    fail( "the consumer saw record #" + u( rec_no ) + " although its push was rejected" );
                recs.pop_back();
                back_ub = back_b;
                if ( fits( f_lb, back_inv, real ))
                    fail( "reserving " + u( size ) + " (" + u( real ) + ") bytes failed although they fitted when the call was invoked (back " + u( back_inv ) +
                          ", front >= " + u( f_lb ) + ", capacity " + u( cap ) + ")" );
                return false;
            }
            if ( have_ub && !fits( f_ub, back_inv, real ))
                fail( "reserving " + u( size ) + " (" + u( real ) + ") bytes succeeded although they cannot fit (back " + u( back_inv ) + ", front <= " + u( f_ub ) +
                      ", capacity " + u( cap ) + ")" );
            if ( real > tail ) {
                ++n_tail;
                if ( concurrent )
                    wrapped = true;
            }
            else if ( concurrent && r.abs_start >= cap && r.abs_start % cap == 0 )
                wrapped = true;
            if ( !one_call ) {
                back_b = r.abs_start;       // an unused tail is published by back() itself
                recs[n].ptr = p;
                check_place( recs[n], rec_no );
                cdsverif::point();
                for ( size_t i = 0; i < size; ++i )
                    p[i] = pattern( rec_no, i );
                cdsverif::point();
                recs[n].push_started = true;
                rb.push_back();
            }
            back_b = r.abs_end;
            back_ub = back_b;
            recs[n].push_done = true;
            hist.end( e, 1 );
            return true;
        }

        void check_place( Rec const& r, uint64_t rec_no )
        {
            if ( reinterpret_cast<uintptr_t>( r.ptr ) & 7 )
                fail( "buffer of record #" + u( rec_no ) + " is not aligned" );
            uint8_t* expect_base = r.ptr - 8 - size_t( r.abs_start % cap );
            if ( !base )
                base = expect_base;
            else if ( base != expect_base )
                fail( "buffer of record #" + u( rec_no ) + " is at offset " + std::to_string( r.ptr - base ) + " of the ring, expected " + u( r.abs_start % cap + 8 ));
        }

        // ---- consumer ------------------------------------------------------------------------
        bool verify( uint8_t const* p, size_t size, size_t idx, const char* what )
        {
            Rec& r = recs[idx];
            if ( size != r.size ) {
                fail( std::string( what ) + ": record #" + u( idx + 1 ) + " has size " + u( size ) + ", pushed with size " + u( r.size ));
                return false;
            }
            if ( r.ptr && r.ptr != p ) {
                fail( std::string( what ) + ": record #" + u( idx + 1 ) + " is not where the producer wrote it" );
                return false;
            }
            if ( !r.ptr ) {
                r.ptr = const_cast<uint8_t*>( p );
                check_place( r, idx + 1 );
            }
            for ( size_t i = 0; i < size; ++i )
                if ( p[i] != pattern( idx + 1, i )) {
                    fail( std::string( what ) + ": byte " + u( i ) + " of record #" + u( idx + 1 ) + " (size " + u( size ) + ") is corrupted" );
                    return false;
                }
            return true;
        }

        void consume( int th, bool peek_only )
        {
            bool avail_inv = cons_idx < recs.size() && recs[cons_idx].push_done;
            size_t e = hist.begin( th, R_FRONT, peek_only ? 1 : 0 );
            std::pair<void*, size_t> f = rb.front();
            uint64_t b_ub = back_ub;
            hist.end( e, f.first ? int64_t( f.second ) : -1 );
            if ( !f.first ) {
                ++front_fail;
                if ( avail_inv )
                    fail( "front() returned nullptr although record #" + u( cons_idx + 1 ) + " had been pushed completely when it was invoked" );
                return;
            }
            if ( cons_idx >= recs.size() || !recs[cons_idx].push_started ) {
                fail( "front() returned a record of size " + u( f.second ) + " although no pushed record is pending" );
                return;
            }
            size_t idx = cons_idx;
            recs[idx].seen = true;
            uint8_t* p = static_cast<uint8_t*>( f.first );
            if ( !verify( p, f.second, idx, "front()" ))
                return;
            // front() has skipped the unused tail (if any)
            if ( front_lb < recs[idx].abs_start )
                front_lb = recs[idx].abs_start;
            // see the note at the top of the file
            bool must_pop = b_ub - front_lb >= cap;
            if ( peek_only && !must_pop ) {
                ++n_peek;
                return;
            }
            cdsverif::point();
            if ( !verify( p, f.second, idx, "record re-read before pop_front()" ))
                return;
            pop_inflight = true;
            size_t d = hist.begin( th, R_POP, int64_t( f.second ));
            bool ok = rb.pop_front();
            pop_inflight = false;
            hist.end( d, ok ? 1 : 0 );
            if ( !ok ) {
                fail( "pop_front() failed right after front() returned a record" );
                return;
            }
            front_lb = recs[idx].abs_end;
            ++cons_idx;
        }

        void query( int th, int which )
        {
            bool producer = th == kProducer;
            bool avail_inv = cons_idx < recs.size() && recs[cons_idx].push_done;
            uint64_t f_lb = front_lb;
            size_t e = hist.begin( th, R_QUERY, which );
            if ( which == 0 ) {
                size_t sz = rb.size();
                hist.end( e, int64_t( sz ));
                if ( sz > cap )
                    fail( "size() returned " + u( sz ) + " > capacity" );
                if ( producer && sz > back_b - f_lb )
                    fail( "size() returned " + u( sz ) + " bytes although at most " + u( back_b - f_lb ) + " bytes are in the ring" );
                if ( !producer && avail_inv && sz < recs[cons_idx].abs_end - recs[cons_idx].abs_start )
                    fail( "size() returned " + u( sz ) + " bytes, less than the completely pushed record #" + u( cons_idx + 1 ));
            }
            else if ( which == 1 ) {
                bool em = rb.empty();
                hist.end( e, em ? 1 : 0 );
                if ( em && !producer && avail_inv )
                    fail( "empty() returned true although record #" + u( cons_idx + 1 ) + " had been pushed completely" );
                if ( !em && producer && back_b == f_lb )
                    fail( "empty() returned false although everything pushed was popped" );
            }
            else {
                bool fu = rb.full();
                hist.end( e, fu ? 1 : 0 );
                if ( fu && producer && back_b - f_lb < cap )
                    fail( "full() returned true although at most " + u( back_b - f_lb ) + " of " + u( cap ) + " bytes are in use" );
            }
        }

        size_t pick_size( Op const& op, bool biased ) const
        {
            size_t max_real = cap - 8;          // the library requires real_size < capacity
            size_t real;
            size_t tail = cap - size_t( back_b % cap );
            if ( biased && tail + 8 <= max_real ) {
                // does not fit into the rest of the buffer: forces the unused-tail marker
                real = tail + 8 * ( 1 + size_t( op.a ) % 2 );
                if ( real > max_real )
                    real = max_real;
            }
            else if ( op.b & 8 )
                real = 16 + 8 * ( size_t( op.a ) % 3 );
            else
                real = 16 + 8 * ( size_t( op.a ) % (( max_real - 16 ) / 8 + 1 ));
            if ( real > max_real )
                real = max_real;
            return real - 8 - size_t( op.b & 7 );
        }

        void producer_body()
        {
            Attach a;
            if ( c.prog.empty())
                return;
            for ( Op const& op : c.prog[0] ) {
                switch ( op.code ) {
                case 0:
                    produce( pick_size( op, false ), true );
                    break;
                case 1:
                    produce( pick_size( op, false ), false );
                    break;
                case 2:
                    produce( pick_size( op, true ), ( op.b & 16 ) != 0 );
                    break;
                default:
                    query( kProducer, op.a % 3 );
                    break;
                }
            }
        }
        void consumer_body()
        {
            Attach a;
            if ( c.prog.size() < 2 )
                return;
            for ( Op const& op : c.prog[1] ) {
                if ( op.code == 3 )
                    query( kConsumer, op.a % 3 );
                else
                    consume( kConsumer, op.code == 2 && ( op.b & 1 ));
            }
        }

        void run()
        {
            // sequential prefix: moves the indices to an arbitrary position
            int prefix = cfg_at( c, 2, 0 );
            for ( int i = 0; i < prefix && !failed(); ++i ) {
                Op op;
                op.a = i * 5 + int( c.seed % 7 );
                op.b = i * 3 + 8;
                // a record may legitimately not fit even into an empty ring (tail + record > capacity):
                // produce() judges the rejection itself
                if ( produce( pick_size( op, false ), ( i & 1 ) != 0 )) {
                    consume( 0, false );
                    if ( cons_idx != recs.size())
                        fail( "sequential prefix: record was not consumed" );
                }
            }
            size_t first_ev = hist.ev.size();
            concurrent = true;
            std::vector<std::function<void()>> bodies;
            bodies.push_back( [this]() { producer_body(); } );
            bodies.push_back( [this]() { consumer_body(); } );
            run_threads( bodies );
            concurrent = false;
            if ( !failed()) {
                size_t guard = recs.size() + 2;
                while ( cons_idx < recs.size() && !failed() && guard-- )
                    consume( 0, false );
                if ( !failed() && cons_idx != recs.size())
                    fail( "drain stopped at record #" + u( cons_idx + 1 ) + " of " + u( recs.size()));
                if ( !failed() && rb.front().first != nullptr )
                    fail( "front() returns a record after everything was popped" );
                if ( !failed() && ( !rb.empty() || rb.size() != 0 ))
                    fail( "ring is not empty after everything was popped (size() " + u( rb.size()) + ")" );
            }
            std::vector<Ev> part( hist.ev.begin() + long( first_ev ), hist.ev.end());
            hist.ev.swap( part );
        }
    };

    template <typename RB>
    Verdict run_void( Case const& c )
    {
        lib_init();
        case_reset();
        registry().reset();
        CaseRng::seed( c.seed );
        SchedStats st;
        uint64_t hh = 0;
        unsigned ov = 0;
        bool wrapped = false;
        size_t request = 32 + 8 * size_t( cfg_at( c, 1, 0 ));
        {
            session_begin( sched_params( c ));
            {
                Attach main_attach;
                {
                    VoidRun<RB> r( c, request );
                    r.run();
                    hh = r.hist.hash();
                    ov = r.hist.overlaps();
                    wrapped = r.wrapped;
                    if ( r.push_fail )
                        note_class( "push_fail", r.push_fail );
                    if ( r.front_fail )
                        note_class( "pop_fail", r.front_fail );
                    if ( r.n_tail )
                        note_class( "unused_tail", r.n_tail );
                    if ( r.n_peek )
                        note_class( "peek", r.n_peek );
                }
            }
            st = session_end();
        }
        if ( wrapped )
            note_class( "wrapped" );
        if ( ov )
            note_class( "overlap" );
        if ( st.preemptions )
            note_class( "preempted" );
        return finish( st, hh, wrapped && st.preemptions > 0 );
    }

    // ---- variant table ------------------------------------------------------------------------
    template <typename Buffer, bool SeqCst = false>
    struct rtraits : cc::weak_ringbuffer::traits {
        typedef Buffer buffer;
        typedef typename std::conditional<SeqCst, cds::opt::v::sequential_consistent, cds::opt::v::relaxed_ordering>::type memory_model;
    };
    typedef CDS_DEFAULT_ALLOCATOR dalloc;
    typedef cds::opt::v::uninitialized_dynamic_buffer<void*, dalloc, false> udyn_any;
    typedef cds::opt::v::initialized_dynamic_buffer<void*, dalloc, false> idyn_any;
    typedef cds::opt::v::initialized_dynamic_buffer<void*, dalloc, true> idyn_exp2;

    struct Variant {
        const char* name;
        Verdict (*run)( Case const& );
    };

    const Variant kVariants[] = {
        { "typed_dynamic_exp2", run_typed<cc::WeakRingBuffer<Item>, Item> },
        { "typed_dynamic_anycap", run_typed<cc::WeakRingBuffer<Item, rtraits<udyn_any>>, Item> },
        { "typed_dynamic_init_anycap", run_typed<cc::WeakRingBuffer<Item, rtraits<idyn_any>>, Item> },
        { "typed_dynamic_init_exp2_seqcst", run_typed<cc::WeakRingBuffer<Item, rtraits<idyn_exp2, true>>, Item> },
        { "typed_static5_anycap", run_typed<cc::WeakRingBuffer<Item, rtraits<cds::opt::v::uninitialized_static_buffer<void*, 5, false>>>, Item> },
        { "typed_static8_exp2", run_typed<cc::WeakRingBuffer<Item, rtraits<cds::opt::v::uninitialized_static_buffer<void*, 8, true>>>, Item> },
        { "typed_static3_init_anycap", run_typed<cc::WeakRingBuffer<Item, rtraits<cds::opt::v::initialized_static_buffer<void*, 3, false>>>, Item> },
        { "tracked_dynamic_anycap", run_typed<cc::WeakRingBuffer<TItem, rtraits<udyn_any>>, TItem> },
        { "tracked_dynamic_exp2", run_typed<cc::WeakRingBuffer<TItem>, TItem> },
        { "void_dynamic_exp2", run_void<cc::WeakRingBuffer<void>> },
        { "void_dynamic_anycap", run_void<cc::WeakRingBuffer<void, rtraits<udyn_any>>> },
        { "void_dynamic_init_anycap_seqcst", run_void<cc::WeakRingBuffer<void, rtraits<idyn_any, true>>> },
        { "void_static96_anycap", run_void<cc::WeakRingBuffer<void, rtraits<cds::opt::v::uninitialized_static_buffer<void*, 96, false>>>> },
        { "void_static64_exp2", run_void<cc::WeakRingBuffer<void, rtraits<cds::opt::v::uninitialized_static_buffer<void*, 64, true>>>> },
    };
    const size_t kNumVariants = sizeof( kVariants ) / sizeof( kVariants[0] );
}

namespace cdsverif {
    Schema const& harness_schema()
    {
        static Schema s = []() {
            Schema x;
            x.name = "ringbuf";
            for ( size_t i = 0; i < kNumVariants; ++i )
                x.variants.push_back( kVariants[i].name );
            // typed ring: capacity {2..9,16}[typed_capacity]; <void>: capacity 32 + 8*void_capacity bytes
            // (*_exp2 variants round up to a power of two, static variants have a fixed capacity)
            x.cfg = { { "typed_capacity", 0, 8 }, { "void_capacity", 0, 12 }, { "prefix", 0, 12 } };
            // thread 0 (producer): single = push one element (overload a) / push_back(data,size) | batch = push(arr, 1 + a mod (cap-1)) /
            //   back(size)+push_back() | pair = batch crossing the end of the buffer / record that does not fit into the tail | query
            // thread 1 (consumer): single = pop one (overload a) | batch = pop(arr,n) | pair = front()+pop_front() (b: front() only) |
            //   query = size()/empty()/full(). <void> consumer: every non-query op is front()+pop_front().
            x.ops = { { "single", 5, 15, 31 }, { "batch", 4, 15, 31 }, { "pair", 5, 15, 31 }, { "query", 1, 2, 0 } };
            x.min_threads = 2;
            x.max_threads_quick = 2;
            x.max_threads_thorough = 2;
            x.max_ops_quick = 8;
            x.max_ops_thorough = 12;
            x.nontrivial_rule = "during the concurrent part the producer wrapped around the end of the buffer at least once (typed: wrote the first cell of a new lap; <void>: started a new lap or wrote an unused-tail marker) and there was >=1 pre-emptive token switch";
            return x;
        }();
        return s;
    }

    Verdict run_case( Case const& c )
    {
        size_t v = size_t( c.variant ) < kNumVariants ? size_t( c.variant ) : 0;
        return kVariants[v].run( c );
    }
}
