// C23: flat-combining kernel (cds/algo/flat_combining/kernel.h, wait_strategy.h, defs.h).
//
// A minimal FC "container" owns a kernel; requests carry an id, fc_apply()/fc_process()
// account every execution.  Oracles:
//   * every published request is executed exactly once, by a thread that holds the global
//     combiner lock, never concurrently with another execution / exclusive section;
//   * combine()/batch_combine() returns only after the execution; the requester then sees
//     the response written by the combiner;
//   * publication records: allocated/freed through a tracking allocator (double delete,
//     unknown pointer, leak after ~kernel); memory is really freed so that ASan reports any
//     later access by the kernel.
// Worker threads are REAL threads (SchedParams::real_threads) and may create further
// short-lived threads, so thread exit (boost::thread_specific_ptr cleanup -> tls_cleanup ->
// record state `removed`) is interleaved with combining and list compaction.
//
// Lifecycle: the kernel is constructed and destroyed by the main thread inside the session and
// outlives every client thread (all workers and children have really exited before it goes).
// Threads created by bodies are NOT joined by their parents (a parent waits for the child's TLS
// cleanup flag instead): pthread_t values are recycled after a join and the runtime's interposed
// pthread_join looks threads up by handle, so the main thread joins all of them after the schedule
// has drained.
//
// FCK_TRACE=1 prints the event history of a case to stderr (use with --replay).
#include "common.h"

#include <cds/algo/flat_combining/kernel.h>
#include <cds/sync/spinlock.h>
#include <boost/thread/tss.hpp>

#include <deque>
#include <map>
#include <mutex>
#include <thread>

namespace hv {
    Registry& registry()
    {
        static Registry r;
        return r;
    }
    Graveyard& graveyard()
    {
        static Graveyard g;
        return g;
    }
}

using namespace hv;
namespace fc = cds::algo::flat_combining;

namespace {

    // ---- per-case state (only the token holder runs: no synchronisation needed) -------------
    struct ReqInfo {
        int owner = 0;
        unsigned op = 0;
        void* rec = nullptr;
        int executed = 0;
        bool returned = false;
        bool batch = false;
        int exec_by = -1;
        uint64_t pub = 0, exec = 0, ret = 0;
    };
    struct ThrInfo {
        bool has_rec = false;       // the thread owns a publication record of the kernel
        bool published = false;     // its record was inserted into the publication list at least once
        bool exited = false;        // TLS cleanup (kernel::tls_cleanup + exit mark) has run
        uint64_t exit_stamp = 0;
    };

    enum { EV_PUB = 1, EV_EXEC, EV_RET, EV_EXIT, EV_COMPACT, EV_FREE, EV_DEACT, EV_ACT, EV_EXCL, EV_P2C, EV_LOCK, EV_UNLOCK, EV_PASSES, EV_NEWREC, EV_ZOMBIE };
    const char* const kEvNames[] = { "?", "publish-request", "execute", "combine-returned", "tls-cleanup(thread exit)", "compact_list-done", "free-record",
        "deactivate-record", "activate-record(list insert)", "exclusive-body", "passive-to-combiner", "lock", "unlock", "combining-passes-done", "create-record", "FREED-WHILE-STILL-LINKED" };

    // FCK_TRACE=1: print the event history to stderr while the case runs (for --replay)
    bool trace_on()
    {
        static int on = -1;
        if ( on < 0 ) {
            const char* e = getenv( "FCK_TRACE" );
            on = ( e && *e && *e != '0' ) ? 1 : 0;
        }
        return on == 1;
    }

    struct CaseState {
        std::deque<ReqInfo> req;
        std::deque<ThrInfo> thr;
        // mutual exclusion
        int lock_holder = -1;
        int inside = 0;
        // current lock hold
        unsigned served_in_hold = 0;
        bool after_passes = false;          // onCombining() seen in this hold: the combiner is in / before compact_list
        unsigned compact_in_hold = 0;
        unsigned pend_hold = 0;             // foreign record state changes during this hold
        unsigned pend_window = 0;           // ... of which after the combining passes (compaction window)
        // counters
        uint64_t compactions = 0, deactivated = 0, activated = 0, created = 0, deleted = 0;
        uint64_t republished = 0, passive_to_combiner = 0, passive_wait = 0, excl = 0;
        uint64_t combine_multi = 0, holds = 0, batch_served = 0, apply_served = 0, fc_process_calls = 0;
        uint64_t exit_locked = 0, republish_locked = 0;
        uint64_t change_in_compacting_hold = 0, change_in_compaction_window = 0;
        uint64_t freed_by_compaction = 0, freed_while_linked = 0;
        bool in_dtor = false;
        uint64_t last_pub = 0;
        std::vector<uint32_t> log;
        // threads created by worker bodies. They are joined by the main thread after the schedule
        // has drained (see run_fc); a body "joins" a child by waiting for its exit flag.
        std::deque<std::thread> kids;

        void ev( int kind, int tid, int x )
        {
            log.push_back(( uint32_t( kind ) << 24 ) ^ ( uint32_t( tid & 0xff ) << 16 ) ^ uint32_t( x & 0xffff ));
            if ( trace_on())
                fprintf( stderr, "[fck] pt=%-5llu thread %d: %s %d\n", (unsigned long long) cdsverif::points_now(), tid, kEvNames[kind], x );
        }
        int new_thread()
        {
            thr.emplace_back();
            return int( thr.size()) - 1;
        }
    };
    CaseState* g_cs = nullptr;
    thread_local int t_tid = 0;     // logical thread id: 0 main, 1..T workers, then children in spawn order

    // a record of another thread changed state (owner exit or re-publication) right now
    void foreign_state_change( CaseState& s, bool exit )
    {
        if ( s.lock_holder != -1 && s.lock_holder != t_tid ) {
            ++( exit ? s.exit_locked : s.republish_locked );
            ++s.pend_hold;
            if ( s.after_passes )
                ++s.pend_window;
        }
    }

    // ---- global lock wrapper: delegates to the real lock, tracks the holder -------------------
    template <typename L>
    struct TrackedLock {
        L l_;
        void acquired()
        {
            CaseState* s = g_cs;
            if ( !s )
                return;
            if ( s->lock_holder != -1 )
                fail( "global FC lock acquired by thread " + std::to_string( t_tid ) + " while held by thread " + std::to_string( s->lock_holder ));
            s->lock_holder = t_tid;
            s->served_in_hold = 0;
            s->after_passes = false;
            s->compact_in_hold = 0;
            s->pend_hold = s->pend_window = 0;
            ++s->holds;
            s->ev( EV_LOCK, t_tid, 0 );
        }
        void released()
        {
            CaseState* s = g_cs;
            if ( !s )
                return;
            if ( s->lock_holder != t_tid )
                fail( "global FC lock released by thread " + std::to_string( t_tid ) + " but held by " + std::to_string( s->lock_holder ));
            if ( s->served_in_hold >= 2 )
                ++s->combine_multi;
            if ( s->compact_in_hold ) {
                s->change_in_compacting_hold += s->pend_hold;
                s->change_in_compaction_window += s->pend_window;
            }
            s->lock_holder = -1;
            s->ev( EV_UNLOCK, t_tid, 0 );
        }
        void lock()
        {
            l_.lock();
            acquired();
        }
        bool try_lock()
        {
            if ( !l_.try_lock())
                return false;
            acquired();
            return true;
        }
        void unlock()
        {
            released();
            l_.unlock();
        }
    };

    void check_walk_over_freed();   // defined behind the tracking allocator

    // ---- statistics policy with plain counters (no extra scheduling points) + event hooks -----
    struct HookStat {
        void onOperation() {}
        void onCombining()
        {
            if ( g_cs ) {
                g_cs->after_passes = true;
                g_cs->ev( EV_PASSES, t_tid, 0 );
                check_walk_over_freed();
            }
        }
        void onCompactPublicationList()
        {
            if ( CaseState* s = g_cs ) {
                ++s->compactions;
                ++s->compact_in_hold;
                s->ev( EV_COMPACT, t_tid, 0 );
            }
        }
        void onDeactivatePubRecord()
        {
            if ( CaseState* s = g_cs ) {
                ++s->deactivated;
                s->ev( EV_DEACT, t_tid, 0 );
            }
        }
        void onActivatePubRecord()
        {
            CaseState* s = g_cs;
            if ( !s )
                return;
            ++s->activated;
            ThrInfo& ti = s->thr[size_t( t_tid )];
            if ( ti.published ) {
                ++s->republished;
                foreign_state_change( *s, false );
            }
            ti.published = true;
            s->ev( EV_ACT, t_tid, 0 );
        }
        void onCreatePubRecord()
        {
            if ( g_cs ) {
                ++g_cs->created;
                g_cs->ev( EV_NEWREC, t_tid, 0 );
            }
        }
        void onDeletePubRecord()
        {
            if ( CaseState* s = g_cs ) {
                ++s->deleted;
                if ( !s->in_dtor )
                    ++s->freed_by_compaction;
                s->ev( EV_FREE, t_tid, int( s->in_dtor ));
            }
        }
        void onPassiveWait()
        {
            if ( g_cs )
                ++g_cs->passive_wait;
        }
        void onPassiveWaitIteration() {}
        void onPassiveWaitWakeup() {}
        void onInvokeExclusive() {}
        void onWakeupByNotifying() {}     // depends on the wall clock with the condvar strategies: never used
        void onPassiveToCombiner()
        {
            if ( CaseState* s = g_cs ) {
                ++s->passive_to_combiner;
                s->ev( EV_P2C, t_tid, 0 );
            }
        }
    };

    // ---- tracking allocator for publication records -----------------------------------------------
    struct AllocTrack {
        std::map<void*, int> state;     // 1 live, 0 freed (address may be re-used later: set to 1 again), 2 zombie
        size_t live = 0, allocs = 0, frees = 0;
        // Records that the kernel deleted during compaction although they were still linked in the
        // publication list. Their memory is retained until the end of the case (instead of letting
        // ASan abort at the next list walk) so that the case ends with a diagnosed verdict: the
        // failure is raised when a combining pass has actually walked over such a record.
        std::vector<void*> zombies;
        std::function<bool( void* )> linked;    // is the record reachable from the publication list head?
        void reset()
        {
            release_zombies();
            state.clear();
            linked = nullptr;
            live = allocs = frees = 0;
        }
        void release_zombies()
        {
            for ( void* z : zombies )
                ::operator delete( z );
            zombies.clear();
        }
    };
    AllocTrack g_alloc;

    template <typename T>
    struct TrackAlloc {
        typedef T value_type;
        template <typename U>
        struct rebind {
            typedef TrackAlloc<U> other;
        };
        TrackAlloc() noexcept {}
        template <typename U>
        TrackAlloc( TrackAlloc<U> const& ) noexcept
        {}
        T* allocate( size_t n )
        {
            void* p = ::operator new( n * sizeof( T ));
            g_alloc.state[p] = 1;
            ++g_alloc.live;
            ++g_alloc.allocs;
            return static_cast<T*>( p );
        }
        void deallocate( T* p, size_t )
        {
            auto it = g_alloc.state.find( static_cast<void*>( p ));
            if ( it == g_alloc.state.end()) {
                fail( "kernel freed a pointer that is not a publication record" );
                return;
            }
            if ( it->second != 1 ) {
                fail( "publication record deleted twice" );
                return;     // do not free again: let the case finish and report
            }
            --g_alloc.live;
            ++g_alloc.frees;
            if ( g_cs && !g_cs->in_dtor && g_alloc.linked && g_alloc.linked( static_cast<void*>( p ))) {
                it->second = 2;
                g_alloc.zombies.push_back( static_cast<void*>( p ));
                ++g_cs->freed_while_linked;
                g_cs->ev( EV_ZOMBIE, t_tid, 0 );
                return;
            }
            it->second = 0;
            ::operator delete( static_cast<void*>( p ));     // really freed: ASan reports any later access
        }
        template <typename U>
        bool operator==( TrackAlloc<U> const& ) const noexcept
        {
            return true;
        }
        template <typename U>
        bool operator!=( TrackAlloc<U> const& ) const noexcept
        {
            return false;
        }
    };

    // called when a combiner has finished its passes over the publication list: every record linked
    // in the list has been dereferenced by combining_pass()
    void check_walk_over_freed()
    {
        if ( !g_alloc.linked )
            return;
        for ( void* z : g_alloc.zombies )
            if ( g_alloc.linked( z )) {
                fail( "use after free: a combining pass walked over a publication record that compact_list() had already deleted "
                      "(the record of an exited thread was freed while still linked in the publication list)" );
                return;
            }
    }

    // ---- exit marker: its cleanup runs in the same boost TLS destructor loop as kernel::tls_cleanup
    struct ExitMark {
        int tid;
    };
    void exit_mark_cleanup( ExitMark* m )
    {
        if ( CaseState* s = g_cs ) {
            ThrInfo& ti = s->thr[size_t( m->tid )];
            ti.exited = true;
            ti.exit_stamp = cdsverif::tick();
            s->ev( EV_EXIT, m->tid, 0 );
            if ( ti.has_rec )
                foreign_state_change( *s, true );
        }
        delete m;
    }
    // The thread_specific_ptr itself lives in the per-case heap object *behind* the kernel (see
    // CaseObj): boost runs the TLS cleanups of an exiting thread in ascending address order of the
    // thread_specific_ptr objects, so this cleanup runs right after kernel::tls_cleanup of the same
    // thread, with no scheduling point in between.
    typedef boost::thread_specific_ptr<ExitMark> exit_mark_ptr;
    exit_mark_ptr* g_exit_mark = nullptr;

    // ---- the FC "container" ----------------------------------------------------------------------------
    struct ReqRec : fc::publication_record {
        int id;
        int result;
        ReqRec()
            : id( -1 )
            , result( 0 )
        {}
    };

    inline int expected_result( int id, unsigned op ) { return id * 7 + int( op ) + 1; }

    template <typename Traits>
    struct FcBox {
        struct kernel_t : fc::kernel<ReqRec, Traits> {
            kernel_t( unsigned f, unsigned n )
                : fc::kernel<ReqRec, Traits>( f, n )
            {}
            fc::publication_record* head() { return this->m_pHead; }
        };
        typedef typename kernel_t::publication_record_type rec_t;
        kernel_t k;
        CaseState& cs;

        // is the record reachable from the head of the publication list? (oracle only: no scheduling points)
        bool linked( void* rec )
        {
            cdsverif::no_sched ns;
            int n = 0;
            for ( fc::publication_record* q = k.head(); q && n < 100000; q = q->pNext.load( std::memory_order_relaxed ), ++n )
                if ( static_cast<void*>( static_cast<rec_t*>( q )) == rec )
                    return true;
            return false;
        }

        FcBox( unsigned cf, unsigned passes, CaseState& s )
            : k( cf, passes )
            , cs( s )
        {}

        void enter( const char* what )
        {
            if ( cs.inside++ != 0 )
                fail( std::string( what ) + " entered while another combiner / exclusive section is inside" );
            if ( cs.lock_holder != t_tid )
                fail( std::string( what ) + " runs in thread " + std::to_string( t_tid ) + " which does not hold the global lock (holder " + std::to_string( cs.lock_holder ) + ")" );
            cdsverif::point();
        }
        void leave()
        {
            cdsverif::point();
            --cs.inside;
        }

        void exec( rec_t* r, bool batch )
        {
            int id = r->id;
            if ( id < 0 || size_t( id ) >= cs.req.size()) {
                fail( "combiner executed a record that never carried a request" );
                return;
            }
            ReqInfo& q = cs.req[size_t( id )];
            if ( q.rec != static_cast<void*>( r ))
                fail( "request #" + std::to_string( id ) + " executed on a foreign record" );
            if ( q.returned )
                fail( "request #" + std::to_string( id ) + " executed after combine() had returned to its requester" );
            if ( ++q.executed > 1 )
                fail( "request #" + std::to_string( id ) + " executed " + std::to_string( q.executed ) + " times" );
            q.exec = cdsverif::tick();
            q.exec_by = t_tid;
            q.batch = batch;
            r->result = expected_result( id, q.op );
            ++cs.served_in_hold;
            ++( batch ? cs.batch_served : cs.apply_served );
            cs.ev( EV_EXEC, t_tid, id );
        }

        void fc_apply( rec_t* r )
        {
            enter( "fc_apply" );
            exec( r, false );
            leave();
        }

        template <typename It>
        void fc_process( It b, It e )
        {
            enter( "fc_process" );
            ++cs.fc_process_calls;
            for ( It it = b; it != e; ++it ) {
                rec_t* r = &*it;
                int id = r->id;
                // requests with an odd op code are served here, the others are left to combining_pass()
                if ( id >= 0 && size_t( id ) < cs.req.size() && ( cs.req[size_t( id )].op & 1 ) == 0 )
                    continue;
                exec( r, true );
                cdsverif::point();
                k.operation_done( *r );
            }
            leave();
        }

        void request( unsigned opv, bool batch )
        {
            int tid = t_tid;
            rec_t* r = k.acquire_record();
            cs.thr[size_t( tid )].has_rec = true;
            int id = int( cs.req.size());
            cs.req.emplace_back();
            {
                ReqInfo& q = cs.req[size_t( id )];
                q.owner = tid;
                q.op = unsigned( fc::req_Operation ) + opv;
                q.rec = static_cast<void*>( r );
                q.pub = cs.last_pub = cdsverif::tick();
            }
            r->id = id;
            r->result = -1;
            cs.ev( EV_PUB, tid, id );
            if ( batch )
                k.batch_combine( unsigned( fc::req_Operation ) + opv, r, *this );
            else
                k.combine( unsigned( fc::req_Operation ) + opv, r, *this );
            // no scheduling point between the return and these lines
            ReqInfo& q = cs.req[size_t( id )];
            q.ret = cdsverif::tick();
            q.returned = true;
            cs.ev( EV_RET, tid, id );
            if ( q.executed != 1 )
                fail( "combine() returned to the requester of #" + std::to_string( id ) + " but the request was executed " + std::to_string( q.executed ) + " times" );
            else if ( q.exec > q.ret )
                fail( "execution stamp after the return stamp" );
            if ( r->result != expected_result( id, q.op ))
                fail( "requester of #" + std::to_string( id ) + " does not see the response of the combiner" );
            if ( !r->is_done())
                fail( "record of #" + std::to_string( id ) + " is not in the done state after combine() returned" );
            k.release_record( r );
        }

        void exclusive()
        {
            k.invoke_exclusive( [this]() {
                enter( "invoke_exclusive body" );
                ++cs.excl;
                cs.ev( EV_EXCL, t_tid, 0 );
                leave();
            } );
        }
    };

    void thread_prologue( int tid )
    {
        t_tid = tid;
        g_exit_mark->reset( new ExitMark{ tid } );
    }

    // ops: 0 req(a: op code)  1 breq(a)  2 excl  3 spawn(a: requests-1, b: bit0 batch, bit1 wait for its exit at once)
    //      4 join (wait for the exit of the oldest child not yet waited for)
    template <typename Box>
    void run_program( Box& box, CaseState& cs, int tid, std::vector<Op> const& ops )
    {
        thread_prologue( tid );
        std::vector<int> kids;      // logical ids of my children
        size_t next_join = 0;
        auto join_one = [&]() {
            int ctid = kids[next_join++];
            cdsverif::wait_until( [&cs, ctid]() { return cs.thr[size_t( ctid )].exited; } );
        };
        for ( Op const& op : ops ) {
            switch ( op.code ) {
            case 0:
                box.request( unsigned( op.a & 1 ), false );
                break;
            case 1:
                box.request( unsigned( op.a & 1 ), true );
                break;
            case 2:
                box.exclusive();
                break;
            case 3: {
                int ctid = cs.new_thread();
                int n = ( op.a % 3 ) + 1;
                bool batch = ( op.b & 1 ) != 0;
                kids.push_back( ctid );
                cs.kids.emplace_back( [&box, ctid, n, batch]() {
                    thread_prologue( ctid );
                    for ( int i = 0; i < n; ++i )
                        box.request( unsigned( i & 1 ), batch );
                } );
                if ( op.b & 2 )
                    while ( next_join < kids.size())
                        join_one();
                break;
            }
            case 4:
                if ( next_join < kids.size())
                    join_one();
                break;
            default:
                break;
            }
        }
        while ( next_join < kids.size())
            join_one();
    }

    template <typename Traits>
    Verdict run_fc( Case const& c )
    {
        lib_init();
        case_reset();
        registry().reset();
        CaseRng::seed( c.seed );
        g_alloc.reset();
        CaseState cs;
        cs.thr.resize( 1 + c.prog.size());
        g_cs = &cs;
        t_tid = 0;
        unsigned cf = unsigned( cfg_at( c, 0, 1 ));
        unsigned passes = unsigned( cfg_at( c, 1, 1 ));
        bool main_ops = cfg_at( c, 2, 0 ) != 0;
        SchedParams p = sched_params( c );
        p.real_threads = true;
        p.fairness = 200;       // the spinning wait strategies never yield: keep the valve short
        SchedStats st;
        size_t quiescent_unreclaimed = 0;
        session_begin( p );
        {
            typedef FcBox<Traits> Box;
            struct CaseObj {
                Box box;
                exit_mark_ptr mark;     // behind the kernel: its cleanup runs after kernel::tls_cleanup
                CaseObj( unsigned f, unsigned n, CaseState& s )
                    : box( f, n, s )
                    , mark( exit_mark_cleanup )
                {}
            };
            std::unique_ptr<CaseObj> obj( new CaseObj( cf < 1 ? 1 : cf, passes < 1 ? 1 : passes, cs ));
            Box& box = obj->box;
            g_exit_mark = &obj->mark;
            g_alloc.linked = [&box]( void* r ) { return box.linked( r ); };
            if ( main_ops )
                box.request( 0, false );    // the head record (created by the constructor for this thread) becomes active
            std::vector<std::function<void()>> bodies;
            for ( size_t t = 0; t < c.prog.size(); ++t )
                bodies.push_back( [&box, &cs, &c, t]() { run_program( box, cs, int( t ) + 1, c.prog[t] ); } );
            run_threads( bodies );      // returns after every worker has really exited
            // Children have run their TLS cleanup (their parents waited for it) but may not have left the
            // scheduler yet: let them finish, then join them. (They are not joined by their parents:
            // pthread_t values are recycled after a join and the runtime looks threads up by handle.)
            for ( ;; ) {
                uint64_t y = session_stats().yields;
                cdsverif::yield_point();
                if ( session_stats().yields == y )
                    break;
            }
            for ( std::thread& th : cs.kids )
                th.join();
            cs.kids.clear();

            if ( cs.lock_holder != -1 || cs.inside != 0 )
                fail( "global lock still held after all threads finished" );
            for ( size_t i = 0; i < cs.req.size(); ++i ) {
                ReqInfo const& q = cs.req[i];
                if ( q.executed != 1 || !q.returned ) {
                    fail( "request #" + std::to_string( i ) + " of thread " + std::to_string( q.owner ) + " executed " + std::to_string( q.executed ) + " times" );
                    break;
                }
            }
            for ( size_t i = 1; i < cs.thr.size(); ++i )
                if ( !cs.thr[i].exited )
                    fail( "thread " + std::to_string( i ) + " did not run its TLS cleanup" );
            if ( main_ops ) {
                // every other thread is gone: two more combining rounds of the main thread contain
                // at least one compaction (compact factor <= 2), which meets only `removed` records
                box.request( 1, false );
                box.request( 0, true );
                quiescent_unreclaimed = g_alloc.live - 1;
                if ( quiescent_unreclaimed && getenv( "FCK_STRICT" ))
                    fail( "exploration only: a quiescent compaction left records of exited threads" );
            }
            cs.in_dtor = true;
            g_alloc.linked = nullptr;
            obj.reset();
            g_exit_mark = nullptr;
        }
        g_alloc.release_zombies();
        if ( g_alloc.live != 0 )
            fail( std::to_string( g_alloc.live ) + " publication record(s) not deleted by ~kernel" );
        if ( g_alloc.allocs != cs.created || g_alloc.frees != cs.deleted )
            fail( "record allocation count differs from the kernel's statistics" );
        st = session_end();
        g_cs = nullptr;

        // ---- classes -----------------------------------------------------------------------------
        uint64_t exit_mid = 0;
        for ( size_t i = 1; i < cs.thr.size(); ++i )
            if ( cs.thr[i].exited && cs.thr[i].exit_stamp < cs.last_pub && cs.thr[i].has_rec )
                ++exit_mid;
        uint64_t foreign = 0;
        for ( ReqInfo const& q : cs.req )
            if ( q.exec_by != q.owner )
                ++foreign;
        note_class( "requests", cs.req.size());
        note_class( "threads", cs.thr.size() - 1 );
        note_class( "children", cs.thr.size() - 1 - c.prog.size());
        note_class( "compactions", cs.compactions );
        note_class( "rec_deactivated", cs.deactivated );
        note_class( "rec_republished", cs.republished );
        note_class( "rec_freed_by_compaction", cs.freed_by_compaction );
        if ( cs.freed_while_linked )
            note_class( "freed_while_linked", cs.freed_while_linked );
        note_class( "exit_midcase", exit_mid );
        note_class( "exit_while_combining", cs.exit_locked );
        note_class( "republish_while_combining", cs.republish_locked );
        note_class( "change_in_compacting_hold", cs.change_in_compacting_hold );
        note_class( "change_in_compaction_window", cs.change_in_compaction_window );
        note_class( "combine_multi", cs.combine_multi );
        note_class( "served_by_other", foreign );
        note_class( "served_by_fc_process", cs.batch_served );
        note_class( "passive_to_combiner", cs.passive_to_combiner );
        note_class( "exclusive", cs.excl );
        if ( quiescent_unreclaimed )
            note_class( "quiescent_unreclaimed", quiescent_unreclaimed );
        if ( st.preemptions )
            note_class( "preempted" );

        uint64_t h = hash_bytes( cs.log.data(), cs.log.size() * sizeof( uint32_t ));
        bool nontrivial = st.preemptions >= 1 && cs.change_in_compacting_hold >= 1;
        return finish( st, h, nontrivial );
    }

    // ---- variant table ---------------------------------------------------------------------------------
    template <typename Lock, typename Wait>
    struct Tr : fc::traits {
        typedef TrackedLock<Lock> lock_type;
        typedef Wait wait_strategy;
        typedef TrackAlloc<int> allocator;
        typedef HookStat stat;
    };
    namespace ws = fc::wait_strategy;
    typedef cds::sync::spin Spin;

    struct Variant {
        const char* name;
        Verdict (*run)( Case const& );
    };
    const Variant kVariants[] = {
        { "spin_empty", run_fc<Tr<Spin, ws::empty>> },
        { "spin_backoff", run_fc<Tr<Spin, ws::backoff<>>> },
        { "spin_smsc", run_fc<Tr<Spin, ws::single_mutex_single_condvar<>>> },
        { "spin_smmc", run_fc<Tr<Spin, ws::single_mutex_multi_condvar<>>> },
        { "spin_mmmc", run_fc<Tr<Spin, ws::multi_mutex_multi_condvar<>>> },
        { "mutex_empty", run_fc<Tr<std::mutex, ws::empty>> },
        { "mutex_backoff", run_fc<Tr<std::mutex, ws::backoff<>>> },
        { "mutex_smsc", run_fc<Tr<std::mutex, ws::single_mutex_single_condvar<>>> },
        { "mutex_smmc", run_fc<Tr<std::mutex, ws::single_mutex_multi_condvar<>>> },
        { "mutex_mmmc", run_fc<Tr<std::mutex, ws::multi_mutex_multi_condvar<>>> },
    };
    const size_t kNumVariants = sizeof( kVariants ) / sizeof( kVariants[0] );
}

namespace cdsverif {
    Schema const& harness_schema()
    {
        static Schema s = []() {
            Schema x;
            x.name = "fckernel";
            for ( size_t i = 0; i < kNumVariants; ++i )
                x.variants.push_back( kVariants[i].name );
            x.cfg = { { "compact_factor", 1, 2 }, { "combine_passes", 1, 2 }, { "main_ops", 0, 1 } };
            x.ops = { { "req", 5, 1, 0 }, { "breq", 3, 1, 0 }, { "excl", 2, 0, 0 }, { "spawn", 5, 2, 3 }, { "join", 1, 0, 0 } };
            x.min_threads = 2;
            x.max_threads_quick = 3;
            x.max_threads_thorough = 4;
            x.max_ops_quick = 4;
            x.max_ops_thorough = 5;
            x.max_preempt_quick = 4;
            x.max_preempt_thorough = 7;
            x.nontrivial_rule = "at least one pre-emption, and a compaction pass (compact_list) completed inside a combiner's lock hold "
                                "during which another thread's publication record changed state (owner thread exit -> removed, or "
                                "re-publication of a deactivated record)";
            return x;
        }();
        return s;
    }

    Verdict run_case( Case const& c )
    {
        size_t v = size_t( c.variant ) < kNumVariants ? size_t( c.variant ) : 0;
        return kVariants[v].run( c );
    }
}
