// C16 concurrent, Cuckoo containers only, 8 keys, key predicates and hash functors are scheduling points:
// pre-emption inside the critical sections (probe-set search, relocation rounds, resize) so that a probe set modified
// without its cell lock is observable (lockhash_body.h, fam_lockhash.h: LOCKHASH_FUNCTOR_POINTS)
#define LOCKHASH_HARNESS_NAME "lockhash_wide"
#define LOCKHASH_SEQUENTIAL 0
#define LOCKHASH_MAX_KEY 7
#define LOCKHASH_FUNCTOR_POINTS
#define LOCKHASH_NO_STRIPED_STD
#include "lockhash_body.h"
