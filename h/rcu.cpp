// C04 / C05: user-space RCU flavours driven through the public cds::urcu::gc<> API
// (access_lock/unlock with nesting, retire_ptr, batch_retire, synchronize).
// Variants: general_instant, general_buffered, general_threaded, signal_buffered.
#include "common.h"

#include <cds/urcu/general_instant.h>
#include <cds/urcu/general_buffered.h>
#include <cds/urcu/general_threaded.h>
#include <cds/urcu/signal_buffered.h>

namespace hv {
    Registry& registry()
    {
        static Registry r;
        return r;
    }
    Graveyard& graveyard()
    {
        static Graveyard g;
        return g;
    }
}

using namespace hv;

namespace {
    struct Obj {
        uint64_t canary;
        int32_t id;
    };
    constexpr uint64_t kLive = 0x22fe22fe22fe22feull;

    struct Section {
        int thread;
        uint64_t seq;
    };

    struct ObjInfo {
        Obj* p = nullptr;
        bool retired = false;
        bool disposed = false;
        std::vector<Section> open_at_retire;
    };

    struct ThreadState {
        bool open = false;
        uint64_t seq = 0;       // sequence number of the current / last outermost section
    };

    struct World {
        std::vector<ObjInfo> info;
        std::vector<ThreadState> ts;    // index 0 = main
        uint64_t overlapped_retires = 0;
        uint64_t overlapped_syncs = 0;
        uint64_t disposals_in_run = 0;
        uint64_t retires = 0;
        bool running = false;
    };
    World* W = nullptr;
    thread_local int t_index = 0;

    std::vector<Section> open_sections()
    {
        std::vector<Section> v;
        for ( size_t t = 0; t < W->ts.size(); ++t )
            if ( W->ts[t].open )
                v.push_back( Section{ int( t ), W->ts[t].seq } );
        return v;
    }

    bool still_open( Section const& s )
    {
        ThreadState const& t = W->ts[size_t( s.thread )];
        return t.open && t.seq == s.seq;
    }

    Obj* new_obj()
    {
        int id = registry().add();
        Obj* o = new Obj;
        o->canary = kLive;
        o->id = id;
        if ( W->info.size() <= size_t( id ))
            W->info.resize( size_t( id ) + 1 );
        W->info[size_t( id )].p = o;
        return o;
    }

    void dispose_fn( void* vp )
    {
        no_sched ns;
        Obj* p = static_cast<Obj*>( vp );
        int id = p->id;
        registry().on_dispose( id, "retired object" );
        if ( p->canary != kLive )
            fail( "disposer called for an object with a bad canary (already freed?)" );
        ObjInfo& oi = W->info[size_t( id )];
        if ( !oi.retired )
            fail( "disposer called for object #" + std::to_string( id ) + " that was never retired" );
        for ( Section const& s : oi.open_at_retire )
            if ( still_open( s )) {
                fail( "object #" + std::to_string( id ) + " disposed while the read-side critical section #" + std::to_string( s.seq )
                    + " of thread " + std::to_string( s.thread ) + ", entered before its retirement, is still open" );
                break;
            }
        if ( W->running )
            ++W->disposals_in_run;
        if ( oi.disposed )
            return;
        oi.disposed = true;
        p->canary = 0xdeaddeaddeaddeadull;
        delete p;
    }

    struct Disposer {
        void operator()( Obj* p ) const { dispose_fn( p ); }
    };

    enum { OP_READ = 0, OP_SWAP_RETIRE = 1, OP_BATCH_RETIRE = 2, OP_SYNC = 3, OP_RETIRE_MANY = 4 };

    template <typename RCU>
    struct Runner {
        Case const& c;
        std::vector<atomics::atomic<Obj*>*> slots;
        explicit Runner( Case const& cc ) : c( cc ) {}

        void mark_retired( Obj* p )
        {
            ObjInfo& oi = W->info[size_t( p->id )];
            oi.retired = true;
            oi.open_at_retire = open_sections();
            if ( !oi.open_at_retire.empty())
                ++W->overlapped_retires;
            ++W->retires;
        }

        void check_seen( int id, Obj* p, const char* where )
        {
            if ( id < 0 )
                return;
            // the object was fetched inside the current read-side section: it must not have been disposed
            ObjInfo const& oi = W->info[size_t( id )];
            if ( oi.disposed )
                fail( std::string( "object #" ) + std::to_string( id ) + " fetched inside a read-side critical section was disposed before the section ended (" + where + ")" );
            else if ( p->canary != kLive )
                fail( std::string( "object fetched inside a read-side critical section has a bad canary (" ) + where + ")" );
        }

        void body( size_t t )
        {
            t_index = int( t ) + 1;
            ThreadState& me = W->ts[size_t( t_index )];
            cds::threading::Manager::attachThread();
            for ( Op const& op : c.prog[t] ) {
                size_t s = size_t( op.b ) % slots.size();
                switch ( op.code ) {
                case OP_READ: {
                    int nest = op.a % 3;
                    int pts = ( op.a / 3 ) % 4;
                    RCU::access_lock();
                    me.open = true;
                    me.seq = tick();
                    Obj* p = slots[s]->load( atomics::memory_order_acquire );
                    int pid = p ? p->id : -1;
                    for ( int i = 0; i < pts; ++i ) {
                        cdsverif::point();
                        check_seen( pid, p, "outer" );
                    }
                    for ( int n = 0; n < nest; ++n ) {
                        RCU::access_lock();
                        cdsverif::point();
                        check_seen( pid, p, "nested" );
                    }
                    for ( int n = 0; n < nest; ++n ) {
                        RCU::access_unlock();
                        cdsverif::point();
                        check_seen( pid, p, "after nested unlock" );
                    }
                    check_seen( pid, p, "before unlock" );
                    me.open = false;        // from here on the object may legally go
                    RCU::access_unlock();
                    break;
                }
                case OP_SWAP_RETIRE: {
                    Obj* n = new_obj();
                    Obj* old = slots[s]->exchange( n, atomics::memory_order_acq_rel );
                    if ( old ) {
                        mark_retired( old );
                        if ( op.a & 1 )
                            RCU::retire_ptr( old, dispose_fn );
                        else
                            RCU::template retire_ptr<Disposer>( old );
                    }
                    break;
                }
                case OP_BATCH_RETIRE: {
                    std::vector<cds::urcu::retired_ptr> v;
                    int n = 1 + op.a % 4;
                    for ( int i = 0; i < n; ++i ) {
                        Obj* fresh = new_obj();
                        Obj* old = slots[s]->exchange( fresh, atomics::memory_order_acq_rel );
                        if ( old ) {
                            mark_retired( old );
                            v.push_back( cds::urcu::retired_ptr( old, dispose_fn ));
                        }
                    }
                    if ( op.a & 4 ) {
                        size_t k = 0;
                        RCU::batch_retire( [&]() -> cds::urcu::retired_ptr {
                            return k < v.size() ? v[k++] : cds::urcu::retired_ptr();
                        } );
                    }
                    else
                        RCU::batch_retire( v.begin(), v.end());
                    note_class( "batch_retire" );
                    break;
                }
                case OP_SYNC: {
                    std::vector<Section> open = open_sections();
                    if ( !open.empty())
                        ++W->overlapped_syncs;
                    RCU::synchronize();
                    for ( Section const& sct : open )
                        if ( still_open( sct )) {
                            fail( "synchronize() returned while the read-side critical section #" + std::to_string( sct.seq ) + " of thread "
                                + std::to_string( sct.thread ) + ", open when it was called, is still open" );
                            break;
                        }
                    note_class( "synchronize" );
                    break;
                }
                case OP_RETIRE_MANY: {
                    int n = 1 + op.a;
                    for ( int i = 0; i < n; ++i ) {
                        Obj* g = new_obj();
                        mark_retired( g );
                        RCU::retire_ptr( g, dispose_fn );
                    }
                    break;
                }
                }
            }
            cds::threading::Manager::detachThread();
        }

        Verdict run( size_t capacity, bool buffered )
        {
            lib_init();
            case_reset();
            registry().reset();
            CaseRng::seed( c.seed );
            World world;
            W = &world;
            size_t T = c.prog.size();
            world.ts.assign( T + 1, ThreadState());
            SchedStats st;
            size_t nslots = size_t( cfg_at( c, 1, 1 ));
            session_begin( sched_params( c ));
            t_index = 0;
            {
                // the threaded flavour starts its reclamation thread here: inside the session, so it is scheduled
                std::unique_ptr<RCU> rcu( make( capacity ));
                cds::threading::Manager::attachThread();
                for ( size_t i = 0; i < nslots; ++i )
                    slots.push_back( new atomics::atomic<Obj*>( new_obj()));
                std::vector<std::function<void()>> bodies;
                for ( size_t t = 0; t < T; ++t )
                    bodies.push_back( [this, t]() { body( t ); } );
                world.running = true;
                run_threads( bodies );
                world.running = false;
                t_index = 0;
                for ( auto* s : slots ) {
                    Obj* p = s->exchange( nullptr, atomics::memory_order_acq_rel );
                    if ( p ) {
                        mark_retired( p );
                        RCU::retire_ptr( p, dispose_fn );
                    }
                }
                cds::threading::Manager::detachThread();
            }   // singleton destroyed (Destruct): every retired object must be gone
            st = session_end();
            for ( auto* s : slots )
                delete s;
            slots.clear();
            if ( !failed())
                for ( size_t id = 0; id < world.info.size(); ++id ) {
                    int d = registry().recs[id].disposed;
                    if ( world.info[id].retired && d != 1 ) {
                        fail( "retired object #" + std::to_string( id ) + " was disposed " + std::to_string( d ) + " times by the time the RCU singleton was destroyed" );
                        break;
                    }
                    if ( !world.info[id].retired && d != 0 ) {
                        fail( "object #" + std::to_string( id ) + " disposed but never retired" );
                        break;
                    }
                }
            for ( ObjInfo& oi : world.info )
                if ( !oi.disposed && oi.p )
                    delete oi.p;
            if ( world.overlapped_retires )
                note_class( "retire_overlapping_reader", world.overlapped_retires );
            if ( world.overlapped_syncs )
                note_class( "synchronize_overlapping_reader", world.overlapped_syncs );
            if ( buffered && world.retires >= capacity )
                note_class( "buffer_threshold_reached" );
            if ( world.disposals_in_run )
                note_class( "disposed_during_run" );
            uint64_t h = 0x52;
            for ( auto const& t : c.prog )
                for ( Op const& op : t )
                    h = hash_mix( h, uint64_t( op.code ) * 1000003u + uint64_t( op.a ) * 131 + uint64_t( op.b ));
            h = hash_mix( h, uint64_t( c.variant ) * 77 + capacity );
            bool nt = world.overlapped_retires + world.overlapped_syncs > 0;
            W = nullptr;
            return finish( st, h, nt );
        }

        template <typename R = RCU>
        static auto make( size_t capacity ) -> decltype( new R( capacity )) { return new R( capacity ); }
        template <typename R = RCU>
        static R* make( ... ) { return new R; }
    };

    typedef cds::urcu::gc<cds::urcu::general_instant<>> rcu_gpi;
    typedef cds::urcu::gc<cds::urcu::general_buffered<>> rcu_gpb;
    typedef cds::urcu::gc<cds::urcu::general_threaded<>> rcu_gpt;
    typedef cds::urcu::gc<cds::urcu::signal_buffered<>> rcu_shb;
}

namespace cdsverif {
    Schema const& harness_schema()
    {
        static Schema s = []() {
            Schema x;
            x.name = "rcu";
            x.variants = { "general_instant", "general_buffered", "general_threaded", "signal_buffered" };
            x.cfg = { { "capsel", 0, 3 }, { "slots", 1, 2 } };
            x.ops = { { "read", 10, 11, 1 }, { "swap_retire", 8, 1, 1 }, { "batch_retire", 2, 7, 1 }, { "synchronize", 3, 0, 0 }, { "retire_many", 2, 8, 0 } };
            x.max_ops_quick = 5;
            x.max_ops_thorough = 8;
            x.nontrivial_rule = "a retire_ptr/batch_retire or a synchronize() was called while a read-side critical section of another thread was open";
            return x;
        }();
        return s;
    }

    Verdict run_case( Case const& c )
    {
        static const size_t caps[] = { 2, 3, 4, 8 };
        size_t cap = caps[size_t( cfg_at( c, 0, 0 )) % 4];
        switch ( c.variant ) {
        case 0: { Runner<rcu_gpi> r( c ); return r.run( 1, false ); }
        case 1: { Runner<rcu_gpb> r( c ); return r.run( cap, true ); }
        case 2: { Runner<rcu_gpt> r( c ); return r.run( cap, true ); }
        default: { Runner<rcu_shb> r( c ); return r.run( cap, true ); }
        }
    }
}
