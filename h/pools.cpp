// C24: cds::memory::vyukov_queue_pool / lazy_vyukov_queue_pool / bounded_vyukov_queue_pool and the
// pool_allocator adapter never hand one object to two holders; deallocated objects become
// available again; the bounded pool rejects with std::bad_alloc only when it is exhausted.
#include "common.h"

#include <map>
#include <new>
#include <set>

#include <cds/memory/vyukov_queue_pool.h>
#include <cds/memory/pool_allocator.h>

namespace hv {
    Registry& registry()
    {
        static Registry r;
        return r;
    }
    Graveyard& graveyard()
    {
        static Graveyard g;
        return g;
    }
}

using namespace hv;
namespace cm = cds::memory;

namespace {

    // The pooled object. Default constructible (required by the pools); the constructor and the
    // destructor write into the object, as a real payload would.
    struct Obj {
        uint64_t stamp;
        uint64_t guard;
        Obj() : stamp( 0 ), guard( 0x600d0b1ec7ull ) {}
        ~Obj() { guard = 0xdeadull; }
    };

    enum pool_kind { K_VYUKOV = 0, K_LAZY = 1, K_BOUNDED = 2 };
    enum { OP_ALLOC = 0, OP_DEALLOC = 1 };

    // ---- adapters ------------------------------------------------------------------------------
    template <typename Pool>
    struct Direct {
        Pool pool;
        explicit Direct( size_t cap ) : pool( cap ) {}
        Obj* alloc() { return pool.allocate( 1 ); }
        void dealloc( Obj* p ) { pool.deallocate( p, 1 ); }
    };

    template <typename Pool>
    struct PoolRef {
        static Pool* ptr;
    };
    template <typename Pool>
    Pool* PoolRef<Pool>::ptr = nullptr;

    // std::allocator-like access through cds::memory::pool_allocator, used as its documentation shows:
    // allocate(1), construct, ..., destroy, deallocate(p,1)
    template <typename Pool>
    struct ViaAllocator {
        struct accessor {
            typedef typename Pool::value_type value_type;
            Pool& operator()() const { return *PoolRef<Pool>::ptr; }
        };
        typedef cm::pool_allocator<Obj, accessor> allocator;
        Pool pool;
        explicit ViaAllocator( size_t cap ) : pool( cap ) { PoolRef<Pool>::ptr = &pool; }
        ~ViaAllocator() { PoolRef<Pool>::ptr = nullptr; }
        Obj* alloc()
        {
            allocator a;
            Obj* p = a.allocate( 1 );
            a.construct( p );
            return p;
        }
        void dealloc( Obj* p )
        {
            allocator a;
            a.destroy( p );
            a.deallocate( p, 1 );
        }
    };

    // ---- the case runner ------------------------------------------------------------------------
    struct HeldObj {
        Obj* p;
        uint64_t stamp;
    };

    template <typename Ad, int Kind>
    struct Runner {
        Case const& c;
        size_t cap;
        Ad ad;
        History hist;
        std::map<Obj*, int> owner;              // objects currently allocated -> holder (0 = main)
        std::set<Obj*> poolset;                 // K_VYUKOV / K_BOUNDED: the preallocated objects
        std::map<Obj*, int> pool_index;
        std::set<Obj*> returned;                // K_LAZY: objects given back and not seen again
        std::vector<std::vector<HeldObj>> held; // per holder
        struct Pending {
            bool active = false;
            int peak = 0;
        };
        std::vector<Pending> pend;
        int busy = 0;                           // pooled objects that are possibly not in the free-list
        uint64_t serial = 0;
        size_t held_pooled = 0;
        bool pool_was_empty = false;
        bool learning = false;                  // the first `capacity` allocations define the preallocated set
        unsigned n_bad_alloc = 0, n_heap = 0, n_recycled = 0;

        Runner( Case const& cs, size_t cp ) : c( cs ), cap( cp ), ad( cp )
        {
            held.resize( cs.prog.size() + 1 );
            pend.resize( cs.prog.size() + 1 );
        }

        bool pooled( Obj* p ) const { return Kind != K_LAZY && poolset.count( p ) != 0; }
        int ident( Obj* p ) const
        {
            auto it = pool_index.find( p );
            return it == pool_index.end() ? 1000 : it->second;
        }

        void check_stamps( int th )
        {
            for ( HeldObj const& h : held[size_t( th )] )
                if ( h.p->stamp != h.stamp ) {
                    fail( "object " + std::to_string( ident( h.p )) + " held by holder " + std::to_string( th ) + " was overwritten while allocated (stamp " +
                          std::to_string( h.p->stamp ) + ", expected " + std::to_string( h.stamp ) + "): it is shared with another holder" );
                    return;
                }
        }

        // returns the object or nullptr when the pool rejected the request (bounded pool only)
        Obj* do_alloc( int th )
        {
            ++busy;
            for ( size_t q = 0; q < pend.size(); ++q )
                if ( pend[q].active && pend[q].peak < busy - 1 )
                    pend[q].peak = busy - 1;
            pend[size_t( th )].active = true;
            pend[size_t( th )].peak = busy - 1;
            size_t e = hist.begin( th, OP_ALLOC );
            Obj* p = nullptr;
            bool threw = false;
            try {
                p = ad.alloc();
            }
            catch ( std::bad_alloc const& ) {
                threw = true;
            }
            pend[size_t( th )].active = false;
            int peak = pend[size_t( th )].peak;
            if ( threw || !p ) {
                --busy;
                hist.end( e, -1 );
                if ( !threw )
                    fail( "allocate returned nullptr" );
                else if ( Kind != K_BOUNDED )
                    fail( "allocate threw std::bad_alloc in an unbounded pool" );
                else if ( peak < int( cap ))
                    fail( "bounded pool: allocate threw std::bad_alloc although at most " + std::to_string( peak ) + " of " + std::to_string( cap ) +
                          " objects were allocated or in flight at any instant of the call" );
                ++n_bad_alloc;
                pool_was_empty = true;
                return nullptr;
            }
            bool in_pool = learning ? Kind != K_LAZY : pooled( p );
            if ( Kind == K_BOUNDED && !in_pool )
                fail( "bounded pool: allocate returned an object that is not one of the preallocated objects" );
            if ( Kind == K_VYUKOV && !in_pool ) {
                --busy;
                ++n_heap;
                pool_was_empty = true;
                if ( peak < int( cap ))
                    fail( "vyukov_queue_pool: allocate fell back to the heap although at most " + std::to_string( peak ) + " of " + std::to_string( cap ) +
                          " pooled objects were allocated or in flight at any instant of the call" );
            }
            if ( Kind == K_LAZY ) {
                --busy;
                if ( returned.erase( p ))
                    ++n_recycled;
                else {
                    ++n_heap;
                    pool_was_empty = true;
                }
            }
            auto it = owner.find( p );
            if ( it != owner.end())
                fail( "allocate (holder " + std::to_string( th ) + ") returned object " + std::to_string( ident( p )) + " that is currently allocated to holder " + std::to_string( it->second ));
            else
                owner[p] = th;
            if ( in_pool ) {
                if ( ++held_pooled >= cap )
                    pool_was_empty = true;
            }
            uint64_t stamp = ( uint64_t( th + 1 ) << 32 ) | ++serial;
            p->stamp = stamp;
            if ( it == owner.end())
                held[size_t( th )].push_back( HeldObj{ p, stamp } );
            hist.end( e, ident( p ));
            return p;
        }

        void do_dealloc( int th, size_t idx )
        {
            std::vector<HeldObj>& hv_ = held[size_t( th )];
            HeldObj h = hv_[idx];
            if ( h.p->stamp != h.stamp )
                fail( "object " + std::to_string( ident( h.p )) + " held by holder " + std::to_string( th ) + " was overwritten while allocated: it is shared with another holder" );
            hv_.erase( hv_.begin() + long( idx ));
            bool in_pool = pooled( h.p );
            // ownership ends right before deallocate
            owner.erase( h.p );
            if ( in_pool )
                --held_pooled;
            if ( Kind == K_LAZY )
                returned.insert( h.p );
            size_t e = hist.begin( th, OP_DEALLOC, ident( h.p ));
            ad.dealloc( h.p );
            if ( in_pool )
                --busy;
            hist.end( e, 0 );
        }

        void release_all( int th )
        {
            check_stamps( th );
            while ( !held[size_t( th )].empty())
                do_dealloc( th, held[size_t( th )].size() - 1 );
        }

        // sequential prefix: learns the preallocated objects, makes the queue positions wrap
        void warm_up()
        {
            int rounds = cfg_at( c, 1, 0 );
            if ( Kind != K_LAZY ) {
                // a fresh pool holds `capacity` preallocated objects: the first allocations come from there
                learning = true;
                for ( size_t i = 0; i < cap; ++i ) {
                    Obj* p = do_alloc( 0 );
                    if ( !p ) {
                        fail( "fresh pool: allocation #" + std::to_string( i ) + " of " + std::to_string( cap ) + " failed" );
                        return;
                    }
                    if ( !poolset.insert( p ).second )
                        return;     // double hand-out, already reported through the ownership map
                    pool_index[p] = int( i );
                }
                learning = false;
                Obj* extra = do_alloc( 0 );
                if ( Kind == K_BOUNDED ) {
                    if ( extra )
                        fail( "bounded pool: allocation #capacity+1 succeeded" );
                }
                else if ( extra && poolset.count( extra ))
                    fail( "vyukov_queue_pool: allocation #capacity+1 returned a preallocated object again" );
                release_all( 0 );
            }
            else {
                int pre = cfg_at( c, 3, 0 );
                if ( pre > int( cap ))
                    pre = int( cap );
                for ( int i = 0; i < pre; ++i )
                    do_alloc( 0 );
                release_all( 0 );
            }
            for ( int r = 0; r < rounds && !failed(); ++r ) {
                size_t m = size_t( r ) % cap + 1;
                size_t avail = Kind == K_LAZY ? returned.size() : cap;
                unsigned recycled_before = n_recycled;
                for ( size_t i = 0; i < m; ++i ) {
                    Obj* p = do_alloc( 0 );
                    if ( !p )
                        fail( "sequential prefix: allocation failed although free objects exist" );
                    else if ( Kind != K_LAZY && !poolset.count( p ))
                        fail( "sequential prefix: allocation did not come from the preallocated pool although free objects exist" );
                }
                if ( Kind == K_LAZY && n_recycled - recycled_before != std::min( m, avail ))
                    fail( "lazy pool, sequential prefix: " + std::to_string( std::min( m, avail )) + " pooled objects were available but " +
                          std::to_string( n_recycled - recycled_before ) + " were handed out again" );
                release_all( 0 );
            }
            pool_was_empty = false;
            n_bad_alloc = n_heap = n_recycled = 0;
        }

        // main thread, every worker has finished
        void quiescent_checks()
        {
            for ( size_t th = 0; th < held.size(); ++th )
                release_all( int( th ));
            if ( failed())
                return;
            if ( !owner.empty())
                fail( "harness: ownership map not empty at quiescence" );
            if ( Kind != K_LAZY ) {
                std::set<Obj*> got;
                for ( size_t i = 0; i < cap; ++i ) {
                    Obj* p = do_alloc( 0 );
                    if ( !p ) {
                        fail( "quiescence: every object was given back but allocation #" + std::to_string( i + 1 ) + " of " + std::to_string( cap ) + " failed" );
                        break;
                    }
                    if ( !poolset.count( p ))
                        fail( "quiescence: every object was given back but allocation #" + std::to_string( i + 1 ) + " of " + std::to_string( cap ) + " did not come from the preallocated pool" );
                    got.insert( p );
                }
                if ( !failed() && got != poolset )
                    fail( "quiescence: `capacity` allocations did not return every preallocated object exactly once" );
                if ( !failed()) {
                    Obj* extra = do_alloc( 0 );
                    if ( Kind == K_BOUNDED && extra )
                        fail( "quiescence: bounded pool handed out more than `capacity` objects" );
                    if ( Kind == K_VYUKOV && extra && poolset.count( extra ))
                        fail( "quiescence: allocation #capacity+1 returned a preallocated object again" );
                }
                release_all( 0 );
            }
            else {
                // after `capacity` allocations the free-list is empty; give them back (all fit), then
                // `capacity` allocations must hand out exactly these objects again
                std::set<Obj*> first, second;
                for ( size_t i = 0; i < cap; ++i )
                    if ( Obj* p = do_alloc( 0 ))
                        first.insert( p );
                release_all( 0 );
                for ( size_t i = 0; i < cap; ++i )
                    if ( Obj* p = do_alloc( 0 ))
                        second.insert( p );
                if ( !failed() && first != second )
                    fail( "quiescence: lazy pool did not hand out again the `capacity` objects that were given back to it" );
                do_alloc( 0 );
                release_all( 0 );
            }
        }

        void body( size_t t )
        {
            Attach a;
            int th = int( t ) + 1;
            for ( Op const& op : c.prog[t] ) {
                check_stamps( th );
                int code = op.code;
                if ( code == 1 && held[size_t( th )].empty())
                    code = 0;
                if ( code == 0 ) {
                    if ( do_alloc( th )) {
                        cdsverif::point();
                        check_stamps( th );
                    }
                }
                else if ( code == 1 )
                    do_dealloc( th, size_t( op.a ) % held[size_t( th )].size());
                else {
                    cdsverif::point();
                    check_stamps( th );
                }
            }
        }

        bool alloc_dealloc_overlap() const
        {
            for ( size_t i = 0; i < hist.ev.size(); ++i )
                for ( size_t j = 0; j < hist.ev.size(); ++j ) {
                    Ev const& x = hist.ev[i];
                    Ev const& y = hist.ev[j];
                    if ( x.op == OP_ALLOC && y.op == OP_DEALLOC && x.thread != y.thread && x.inv < y.resp && y.inv < x.resp )
                        return true;
                }
            return false;
        }
    };

    template <typename Ad, int Kind>
    Verdict run_pool_cap( Case const& c, size_t cap )
    {
        lib_init();
        case_reset();
        registry().reset();
        CaseRng::seed( c.seed );
        SchedStats st;
        uint64_t hh = 0;
        bool overlap = false, was_empty = false;
        {
            session_begin( sched_params( c ));
            {
                Attach main_attach;
                {
                    Runner<Ad, Kind> r( c, cap );
                    r.warm_up();
                    // objects held by the main thread while the workers run
                    int main_holds = cfg_at( c, 2, 0 );
                    if ( main_holds > int( cap ))
                        main_holds = int( cap );
                    for ( int i = 0; i < main_holds && !failed(); ++i )
                        r.do_alloc( 0 );
                    r.pool_was_empty = false;
                    size_t first_ev = r.hist.ev.size();
                    std::vector<std::function<void()>> bodies;
                    for ( size_t t = 0; t < c.prog.size(); ++t )
                        bodies.push_back( [&r, t]() { r.body( t ); } );
                    run_threads( bodies );
                    was_empty = r.pool_was_empty;
                    if ( r.n_bad_alloc )
                        note_class( "bad_alloc", r.n_bad_alloc );
                    if ( r.n_heap )
                        note_class( "heap_fallback", r.n_heap );
                    if ( r.n_recycled )
                        note_class( "recycled", r.n_recycled );
                    overlap = r.alloc_dealloc_overlap();
                    r.quiescent_checks();
                    // only the concurrent part identifies the case
                    std::vector<Ev> part( r.hist.ev.begin() + long( first_ev ), r.hist.ev.end());
                    History hp;
                    hp.ev.swap( part );
                    hh = hp.hash();
                }
            }
            st = session_end();
        }
        if ( overlap )
            note_class( "alloc_dealloc_overlap" );
        if ( was_empty )
            note_class( "pool_empty" );
        if ( st.preemptions )
            note_class( "preempted" );
        return finish( st, hh, overlap && was_empty && st.preemptions > 0 );
    }

    template <template <typename> class Access, template <typename, typename> class PoolT, int Kind>
    struct dyn {
        struct traits : cm::vyukov_queue_pool_traits {};
        typedef PoolT<Obj, traits> pool;
        static Verdict run( Case const& c )
        {
            return run_pool_cap<Access<pool>, Kind>( c, size_t( 1 ) << cfg_at( c, 0, 1 ));
        }
    };
    template <template <typename> class Access, template <typename, typename> class PoolT, int Kind>
    struct stat {
        template <size_t N>
        struct traits : cm::vyukov_queue_pool_traits {
            typedef cds::opt::v::uninitialized_static_buffer<Obj, N> buffer;
        };
        static Verdict run( Case const& c )
        {
            if ( cfg_at( c, 0, 1 ) == 1 )
                return run_pool_cap<Access<PoolT<Obj, traits<2>>>, Kind>( c, 2 );
            return run_pool_cap<Access<PoolT<Obj, traits<4>>>, Kind>( c, 4 );
        }
    };

    struct Variant {
        const char* name;
        Verdict (*run)( Case const& );
    };

    const Variant kVariants[] = {
        { "vyukov_pool_dynamic", dyn<Direct, cm::vyukov_queue_pool, K_VYUKOV>::run },
        { "vyukov_pool_static", stat<Direct, cm::vyukov_queue_pool, K_VYUKOV>::run },
        { "vyukov_pool_dynamic_allocator", dyn<ViaAllocator, cm::vyukov_queue_pool, K_VYUKOV>::run },
        { "lazy_pool_dynamic", dyn<Direct, cm::lazy_vyukov_queue_pool, K_LAZY>::run },
        { "lazy_pool_static", stat<Direct, cm::lazy_vyukov_queue_pool, K_LAZY>::run },
        { "lazy_pool_dynamic_allocator", dyn<ViaAllocator, cm::lazy_vyukov_queue_pool, K_LAZY>::run },
        { "bounded_pool_dynamic", dyn<Direct, cm::bounded_vyukov_queue_pool, K_BOUNDED>::run },
        { "bounded_pool_static", stat<Direct, cm::bounded_vyukov_queue_pool, K_BOUNDED>::run },
        { "bounded_pool_dynamic_allocator", dyn<ViaAllocator, cm::bounded_vyukov_queue_pool, K_BOUNDED>::run },
        { "bounded_pool_static_allocator", stat<ViaAllocator, cm::bounded_vyukov_queue_pool, K_BOUNDED>::run },
    };
    const size_t kNumVariants = sizeof( kVariants ) / sizeof( kVariants[0] );
}

namespace cdsverif {
    Schema const& harness_schema()
    {
        static Schema s = []() {
            Schema x;
            x.name = "pools";
            for ( size_t i = 0; i < kNumVariants; ++i )
                x.variants.push_back( kVariants[i].name );
            x.cfg = { { "capacity_log2", 1, 2 }, { "wrap_rounds", 0, 4 }, { "main_holds", 0, 3 }, { "lazy_prefill", 0, 4 } };
            // dealloc: own object number a mod held count (an allocate when nothing is held); check: re-check the stamps of the held objects
            x.ops = { { "alloc", 6, 0, 0 }, { "dealloc", 5, 7, 0 }, { "check", 2, 0, 0 } };
            x.max_ops_quick = 6;
            x.max_ops_thorough = 8;
            x.nontrivial_rule = "an allocate and a deallocate of different threads overlapped, >=1 pre-emptive token switch, and the pool was empty at least once during the concurrent part (bad_alloc / heap fall-back / all preallocated objects handed out)";
            return x;
        }();
        return s;
    }

    Verdict run_case( Case const& c )
    {
        size_t v = size_t( c.variant ) < kNumVariants ? size_t( c.variant ) : 0;
        return kVariants[v].run( c );
    }
}
