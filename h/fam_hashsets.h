// C14 (+C18 part): hash sets and maps - MichaelHashSet/Map, SplitListSet/Map, FeldmanHashSet/Map.
// This header holds the adapter templates shared by the variant tables (fam_hashsets_a.h: Michael,
// fam_hashsets_b.h: split-list, fam_hashsets_c.h: Feldman). Everything lives in namespace fam_hashsets.
//
// Extra cfg (after the runner's prefill / quiesce / hold):
//   cfg[3] "hash" 0..3  hash family: 0 identity, 1 all keys collide, 2 low-bit sharing (k & 1), 3 shared prefix
//                       (all keys in one bucket / one Feldman head slot, distinct only in the last consumed bits)
//   cfg[4] "cap"  0..3  geometry: Michael (nMaxItemCount 1,2,4,8; load factor 1), split-list (nItemCount,LF) =
//                       (2,1) (4,1) (8,1) (8,2) - the table starts with 2 buckets and doubles up to the capacity -,
//                       Feldman (head_bits,array_bits) = (4,2) (1,1 -> clamped to 4,2) (4,4) (5,3)
#ifndef CDSVERIF_H_FAM_HASHSETS_H
#define CDSVERIF_H_FAM_HASHSETS_H

#include "mapcommon.h"

#include <cds/opt/compare.h>
#include <cds/intrusive/options.h>
#include <cds/intrusive/details/split_list_base.h>
#include <cds/intrusive/details/feldman_hashset_base.h>

namespace fam_hashsets {
    using namespace mh;

    // ---- generated hash family ------------------------------------------------------------------
    // Cases run one at a time: the factory stores the selected family here before the container is built.
    inline int& hash_kind()
    {
        static int k = 0;
        return k;
    }

    // size_t hash for Michael / split-list containers (keys 0..7)
    struct KeyHash {
        size_t operator()( int k ) const
        {
            switch ( hash_kind()) {
            case 0: return size_t( k );                              // identity: keys spread over the buckets, split on every growth
            case 1: return size_t( 5 );                              // every key collides
            case 2: return size_t( k & 1 );                          // two collision chains
            default: return ( size_t( k ) << 60 ) | size_t( 3 );     // same bucket (3 -> parent 1 -> parent 0) for all keys, distinct high bits
            }
        }
        size_t operator()( Item const& i ) const { return ( *this )( i.key ); }
        // generic overload, as in libcds' own test hash functors (hash1): anything else with a `tag` member.
        // MichaelHashMap<IterableKVList>::upsert() does not compile without it because it hashes the mapped value.
        template <typename T>
        auto operator()( T const& v ) const -> decltype( size_t( v.tag )) { return ( *this )( int( v.tag )); }
    };

    // Feldman: operations are keyed by the HASH, so key -> hash must be injective on 0..7.
    // Bits are consumed from the least significant end: head_bits first, then array_bits per level.
    inline unsigned feldman_hash8( int k )
    {
        static const unsigned t3[8] = { 0x00, 0x01, 0x10, 0x11, 0x40, 0x41, 0x80, 0xC0 };
        k &= 7;
        switch ( hash_kind()) {
        case 0: return unsigned( k );                                // distinct head slots: no expansion
        case 1: return unsigned( k ) << 4;                           // one head slot; (k, k+4) differ only in bit 6
        case 2: return unsigned( k & 1 ) | ( unsigned( k >> 1 ) << 6 ); // two head slots, 4 keys each differing only in the top two bits
        default: return t3[k];
        }
    }
    inline unsigned feldman_hash16( int k )
    {
        static const unsigned t3[8] = { 0x0000, 0x0001, 0x0010, 0x0011, 0x0100, 0x0101, 0x4000, 0xC000 };
        k &= 7;
        switch ( hash_kind()) {
        case 0: return unsigned( k );
        case 1: return unsigned( k ) << 12;                          // (k, k+4) differ only in bit 14: 7 levels with (4,2)
        case 2: return unsigned( k & 1 ) | ( unsigned( k >> 1 ) << 14 );
        default: return t3[k];
        }
    }
    inline unsigned feldman_hash32( int k )
    {
        static const unsigned t3[8] = { 0x0u, 0x1u, 0x10u, 0x11u, 0x10000u, 0x10001u, 0x40000000u, 0xC0000000u };
        k &= 7;
        switch ( hash_kind()) {
        case 0: return unsigned( k );
        case 1: return unsigned( k ) << 20;
        case 2: return unsigned( k & 1 ) | ( unsigned( k >> 1 ) << 30 );
        default: return t3[k];
        }
    }

    struct Bytes2 {                     // a hash that is not a number: generic split_bitstring + memcmp
        uint8_t b[2];
    };
    template <typename H> struct FHash;
    template <> struct FHash<uint8_t> { static uint8_t of( int k ) { return uint8_t( feldman_hash8( k )); } };
    template <> struct FHash<uint16_t> { static uint16_t of( int k ) { return uint16_t( feldman_hash16( k )); } };
    template <> struct FHash<uint32_t> { static uint32_t of( int k ) { return uint32_t( feldman_hash32( k )); } };
    template <> struct FHash<Bytes2> {
        static Bytes2 of( int k )
        {
            unsigned h = feldman_hash16( k );
            Bytes2 x;
            x.b[0] = uint8_t( h & 0xff );
            x.b[1] = uint8_t( h >> 8 );
            return x;
        }
    };

    template <typename H>
    struct FItem {
        H hash;
        int key = 0;
        int tag = 0;
        uint64_t canary = 0xabcdef;
        FItem( int k, int t ) : hash( FHash<H>::of( k )), key( k ), tag( t ) {}
    };
    template <typename H>
    struct FAccessor {
        H const& operator()( FItem<H> const& i ) const { return i.hash; }
    };
    template <typename H>
    struct FMapHash {
        H operator()( int k ) const { return FHash<H>::of( k ); }
    };

    // mapped value of the maps: tag -1 = "not initialised yet" (the library calls the initialising functor of
    // insert_with/update AFTER the node is linked, see "insert item troubleshooting"): observers report "unknown"
    struct MVal {
        int tag = -1;
        uint64_t canary = 0xabcdef;
        MVal() {}
        MVal( int t ) : tag( t ) {}
    };

    // ---- small helpers --------------------------------------------------------------------------
    template <typename GC> struct ReadLock { ReadLock() {} };          // HP / DHP / nogc: nothing to hold
    template <typename R> struct ReadLock<cds::urcu::gc<R>> {
        typename cds::urcu::gc<R>::scoped_lock l;
    };

    template <typename P> inline auto release_raw( P& p, int ) -> decltype( p.release(), void()) { p.release(); }
    template <typename P> inline void release_raw( P&, long ) {}

    inline int key_of_value( Item const& v ) { return v.key; }
    template <typename V> inline int key_of_value( std::pair<int const, V> const& p ) { return p.first; }

    template <typename C> inline size_t counter_value( C const& c ) { return size_t( c.get()); }

    inline size_t reverse_bits( size_t x )
    {
        size_t r = 0;
        for ( unsigned i = 0; i < sizeof( size_t ) * 8; ++i ) {
            r = ( r << 1 ) | ( x & 1 );
            x >>= 1;
        }
        return r;
    }

    // ---- hooks: evidence counters + structure checks ------------------------------------------------
    struct NoHooks {
        template <typename S> void snap( S& ) {}
        template <typename S> void done( S& ) {}
        template <typename S> void check( S& ) {}
    };

    // split-list: S is a SplitProbe<...>
    struct SplitHooks {
        size_t log2_0 = 1;
        size_t buckets_0 = 0, rec_0 = 0, cont_0 = 0, busy_0 = 0;

        struct Nums { size_t buckets = 0, rec = 0, cont = 0, busy = 0; bool have = false; };
        static Nums read( cds::intrusive::split_list::empty_stat const& ) { return Nums(); }
        template <typename C>
        static Nums read( cds::intrusive::split_list::stat<C> const& st )
        {
            Nums n;
            n.buckets = counter_value( st.m_nBucketCount );
            n.rec = counter_value( st.m_nInitBucketRecursive );
            n.cont = counter_value( st.m_nInitBucketContention );
            n.busy = counter_value( st.m_nBusyWaitBucketInit );
            n.have = true;
            return n;
        }
        template <typename S> void snap( S& s )
        {
            log2_0 = s.probe_log2();
            Nums n = read( s.statistics());
            buckets_0 = n.buckets; rec_0 = n.rec; cont_0 = n.cont; busy_0 = n.busy;
        }
        template <typename S> void done( S& s )
        {
            size_t l = s.probe_log2();
            if ( l > log2_0 ) {
                note_class( "table_grow", l - log2_0 );
                note_class( "cases_table_grow" );
            }
            Nums n = read( s.statistics());
            if ( n.have ) {
                if ( n.buckets > buckets_0 ) {
                    note_class( "bucket_init", n.buckets - buckets_0 );
                    note_class( "cases_bucket_init" );
                }
                if ( n.rec > rec_0 )
                    note_class( "bucket_init_recursive", n.rec - rec_0 );
                if ( n.cont > cont_0 )
                    note_class( "bucket_init_contention", n.cont - cont_0 );
                if ( n.busy > busy_0 )
                    note_class( "bucket_init_busywait", n.busy - busy_0 );
            }
        }
        // C18: the underlying ordered list holds split-order values in increasing order, dummy nodes have even
        // values (unique), regular nodes odd ones; equal regular values are ordered by key; only buckets below
        // the current bucket count have a dummy node
        template <typename S> void check( S& s )
        {
            struct N { size_t h; bool dummy; int key; };
            std::vector<N> v;
            s.probe_walk( [&]( size_t h, bool dummy, int key ) { v.push_back( N{ h, dummy, key } ); } );
            size_t l = s.probe_log2();
            if ( v.empty() || !v[0].dummy || v[0].h != 0 ) {
                fail( "split-list: the ordered list does not start with the dummy node of bucket 0" );
                return;
            }
            for ( size_t i = 0; i < v.size(); ++i ) {
                N const& n = v[i];
                if ( n.dummy != (( n.h & 1 ) == 0 )) {
                    fail( "split-list: node kind disagrees with the parity of its split-order value" );
                    return;
                }
                if ( n.dummy && reverse_bits( n.h ) >= ( size_t( 1 ) << l )) {
                    fail( "split-list: dummy node of bucket " + std::to_string( reverse_bits( n.h )) + " exists although the table has only 2^"
                        + std::to_string( l ) + " buckets" );
                    return;
                }
                if ( !n.dummy && n.h != ( reverse_bits( KeyHash()( n.key )) | 1 )) {
                    fail( "split-list: regular node of key " + std::to_string( n.key ) + " carries a wrong split-order value" );
                    return;
                }
                if ( i == 0 )
                    continue;
                N const& p = v[i - 1];
                bool ok = p.h < n.h || ( p.h == n.h && !p.dummy && !n.dummy && p.key < n.key );
                if ( !ok ) {
                    fail( "split-list: ordered list is not strictly increasing in (split-order value, key) at position " + std::to_string( i ));
                    return;
                }
            }
            note_class( "splitorder_walks" );
        }
    };

    // grants access to the protected internals of container::SplitListSet / SplitListMap (as the unit tests do by derivation)
    template <typename Base>
    struct SplitProbe : Base {
        SplitProbe( size_t nItemCount, size_t nLoadFactor ) : Base( nItemCount, nLoadFactor ) {}
        size_t probe_log2() { return this->m_nBucketCountLog2.load( atomics::memory_order_relaxed ); }
        template <typename F> void probe_walk( F f )
        {
            ReadLock<typename Base::gc> lk;
            auto e = this->m_List.end();
            for ( auto it = this->m_List.begin(); it != e; ++it ) {
                auto& node = *it;
                cds::intrusive::split_list::hash_node const& hn = node;
                bool dummy = hn.is_dummy();
                f( hn.m_nHash, dummy, dummy ? -1 : key_of_value( node.m_Value ));
            }
        }
    };

    struct FeldmanHooks {
        size_t exp_0 = 0, expf_0 = 0, conv_0 = 0, arr_0 = 0;
        struct Nums { size_t exp = 0, expf = 0, conv = 0, height = 0; bool have = false; };
        static Nums read( cds::intrusive::feldman_hashset::empty_stat const& ) { return Nums(); }
        template <typename C>
        static Nums read( cds::intrusive::feldman_hashset::stat<C> const& st )
        {
            Nums n;
            n.exp = counter_value( st.m_nExpandNodeSuccess );
            n.expf = counter_value( st.m_nExpandNodeFailed );
            n.conv = counter_value( st.m_nSlotConverting );
            n.height = counter_value( st.m_nHeight );
            n.have = true;
            return n;
        }
        template <typename S> static size_t array_nodes( S& s, size_t* data_cells = nullptr )
        {
            std::vector<cds::intrusive::feldman_hashset::level_statistics> ls;
            s.get_level_statistics( ls );
            size_t n = 0, d = 0;
            for ( size_t i = 0; i < ls.size(); ++i ) {
                if ( i > 0 )
                    n += ls[i].array_node_count;
                d += ls[i].data_cell_count;
            }
            if ( data_cells )
                *data_cells = d;
            return n;
        }
        template <typename S> void snap( S& s )
        {
            Nums n = read( s.statistics());
            exp_0 = n.exp; expf_0 = n.expf; conv_0 = n.conv;
            if ( !n.have )
                arr_0 = array_nodes( s );
        }
        template <typename S> void done( S& s )
        {
            Nums n = read( s.statistics());
            if ( n.have ) {
                if ( n.exp > exp_0 ) {
                    note_class( "expand_slot", n.exp - exp_0 );
                    note_class( "cases_expand_slot" );
                }
                if ( n.expf > expf_0 )
                    note_class( "expand_slot_lost_race", n.expf - expf_0 );
                if ( n.conv > conv_0 )
                    note_class( "slot_converting_seen", n.conv - conv_0 );
                if ( n.height >= 3 )
                    note_class( "cases_height_ge3" );
            }
            else {
                size_t a = array_nodes( s );
                if ( a > arr_0 ) {
                    note_class( "expand_slot", a - arr_0 );
                    note_class( "cases_expand_slot" );
                }
            }
        }
        // C18: at a quiescent point the number of data cells of the multi-level array equals the item counter
        template <typename S> void check( S& s )
        {
            size_t d = 0;
            array_nodes( s, &d );
            if ( d != s.size())
                fail( "feldman: the multi-level array holds " + std::to_string( d ) + " data cells at a quiescent point but size() = " + std::to_string( s.size()));
        }
    };

    // ---- adapter base: container + hooks ------------------------------------------------------------
    template <typename C, typename Hooks>
    struct Holder : AdapterBase {
        C s;
        Hooks hk;
        int hold;
        bool snapped = false;

        template <typename... Args>
        explicit Holder( Case const& c, Args&&... args )
            : s( std::forward<Args>( args )... ), hold( cfg_at( c, 2, 0 ))
        {}
        ~Holder() override { hk.done( s ); }

        // the first operation of a worker thread ends the prefill phase: counters are reported relative to it
        void enter()
        {
            if ( !snapped && cdsverif::self_id() > 0 ) {
                snapped = true;
                hk.snap( s );
            }
        }
        bool has_counter() const override
        {
            return !std::is_same<typename C::item_counter, cds::atomicity::empty_item_counter>::value;
        }
        size_t size() const override { return s.size(); }
        bool empty() const override { return s.empty(); }
        void check_structure( bool ) override { hk.check( s ); }
    };

    enum ListKind { L_STD = 0, L_ITERABLE = 1 };

    // ---- HP / DHP value sets (MichaelHashSet, SplitListSet) -----------------------------------------
    template <typename Set, int LK, typename Hooks>
    struct GSetAd : Holder<Set, Hooks> {
        typedef Holder<Set, Hooks> base;
        using base::s;
        using base::hold;
        GSetAd( Case const& c, size_t n, size_t lf ) : base( c, n, lf ) {}

        bool supports( int op ) const override { return op != O_UNLINK && op != O_EXTRACT_MIN && op != O_EXTRACT_MAX; }
        bool update_replaces() const override { return LK == L_ITERABLE; }

        template <int K = LK>
        typename std::enable_if<K == L_STD>::type do_update( Res& r, int op, int key, int tag )
        {
            int calls = 0;
            std::pair<bool, bool> p = s.update( Item( key, tag ), [&]( bool bNew, Item& it, Item const& ) {
                ++calls;
                r.fnew = bNew ? 1 : 0;
                r.tag = it.tag;
                r.key = it.key;
            }, op == O_UPDATE );
            r.fcalls = calls;
            r.r = !p.first ? 0 : p.second ? 2 : 1;
        }
        template <int K = LK>
        typename std::enable_if<K == L_ITERABLE>::type do_update( Res& r, int op, int key, int tag )
        {
            std::pair<bool, bool> p;
            if ( key & 1 )      // odd keys: upsert (no functor), even keys: update with functor
                p = s.upsert( Item( key, tag ), op == O_UPDATE );        // no functor: the replaced item is not observable
            else {
                int calls = 0;
                p = s.update( Item( key, tag ), [&]( Item& cur, Item* old ) {
                    ++calls;
                    r.fnew = old ? 0 : 1;
                    r.key = cur.key;
                    if ( old )
                        r.tag = old->tag;
                }, op == O_UPDATE );
                r.fcalls = calls;
            }
            r.r = !p.first ? 0 : p.second ? 2 : 1;
        }

        Res apply( int op, int key, int tag ) override
        {
            this->enter();
            Res r;
            switch ( op ) {
            case O_INSERT:
                r.r = s.insert( Item( key, tag )) ? 1 : 0;
                break;
            case O_INSERT_F: {
                int calls = 0;
                r.r = s.insert( Item( key, tag ), [&]( Item& it ) { ++calls; r.key = it.key; } ) ? 1 : 0;
                r.fcalls = calls;
                break;
            }
            case O_UPDATE:
            case O_UPDATE_NOINS:
                do_update( r, op, key, tag );
                if ( r.r == 2 )
                    r.tag = tag;
                break;
            case O_EMPLACE:
                r.r = s.emplace( key, tag ) ? 1 : 0;
                break;
            case O_ERASE:
                r.r = s.erase( key ) ? 1 : 0;
                break;
            case O_ERASE_F: {
                int calls = 0;
                r.r = s.erase( key, [&]( Item const& it ) { ++calls; r.tag = it.tag; r.key = it.key; } ) ? 1 : 0;
                r.fcalls = calls;
                break;
            }
            case O_EXTRACT: {
                typename Set::guarded_ptr gp( s.extract( key ));
                if ( gp ) {
                    r.r = 1;
                    r.tag = gp->tag;
                    r.key = gp->key;
                    hold_and_check( &*gp, hold );
                }
                break;
            }
            case O_GET: {
                typename Set::guarded_ptr gp( s.get( key ));
                if ( gp ) {
                    r.r = 1;
                    r.tag = gp->tag;
                    r.key = gp->key;
                    hold_and_check( &*gp, hold );
                }
                break;
            }
            case O_FIND_F: {
                int calls = 0;
                r.r = s.find( key, [&]( Item& it, int const& ) { ++calls; r.tag = it.tag; r.key = it.key; } ) ? 1 : 0;
                r.fcalls = calls;
                break;
            }
            case O_CONTAINS:
                r.r = s.contains( key ) ? 1 : 0;
                break;
            default:
                r.unsupported = true;
                break;
            }
            return r;
        }
        bool traverse( std::vector<int>& keys ) override
        {
            for ( auto it = s.begin(); it != s.end(); ++it )
                keys.push_back( it->key );
            return true;
        }
        void scan() override { Set::gc::scan(); }
    };

    // ---- RCU value sets (MichaelHashSet, SplitListSet over MichaelList / LazyList) ---------------
    //  insert / update / emplace / find / contains lock RCU internally; erase and (MichaelList) extract must be
    //  called unlocked; LazyList extract needs the lock held (c_bExtractLockExternal); get() needs the lock and
    //  its result is valid only under it; raw_ptr / exempt_ptr are released outside the lock.
    template <typename Set, typename Hooks>
    struct RSetAd : Holder<Set, Hooks> {
        typedef Holder<Set, Hooks> base;
        typedef typename Set::rcu_lock rcu_lock;
        using base::s;
        using base::hold;
        RSetAd( Case const& c, size_t n, size_t lf ) : base( c, n, lf ) {}

        bool supports( int op ) const override { return op != O_UNLINK && op != O_EXTRACT_MIN && op != O_EXTRACT_MAX; }

        Res apply( int op, int key, int tag ) override
        {
            this->enter();
            Res r;
            switch ( op ) {
            case O_INSERT:
                r.r = s.insert( Item( key, tag )) ? 1 : 0;
                break;
            case O_INSERT_F: {
                int calls = 0;
                r.r = s.insert( Item( key, tag ), [&]( Item& it ) { ++calls; r.key = it.key; } ) ? 1 : 0;
                r.fcalls = calls;
                break;
            }
            case O_UPDATE:
            case O_UPDATE_NOINS: {
                int calls = 0;
                std::pair<bool, bool> p = s.update( Item( key, tag ), [&]( bool bNew, Item& it, Item const& ) {
                    ++calls;
                    r.fnew = bNew ? 1 : 0;
                    r.tag = it.tag;
                    r.key = it.key;
                }, op == O_UPDATE );
                r.fcalls = calls;
                r.r = !p.first ? 0 : p.second ? 2 : 1;
                if ( r.r == 2 )
                    r.tag = tag;
                break;
            }
            case O_EMPLACE:
                r.r = s.emplace( key, tag ) ? 1 : 0;
                break;
            case O_ERASE:
                r.r = s.erase( key ) ? 1 : 0;
                break;
            case O_ERASE_F: {
                int calls = 0;
                r.r = s.erase( key, [&]( Item const& it ) { ++calls; r.tag = it.tag; r.key = it.key; } ) ? 1 : 0;
                r.fcalls = calls;
                break;
            }
            case O_EXTRACT: {
                typename Set::exempt_ptr xp;
                if ( Set::c_bExtractLockExternal ) {
                    {
                        rcu_lock l;
                        xp = s.extract( key );
                        if ( xp ) {
                            r.r = 1;
                            r.tag = xp->tag;
                            r.key = xp->key;
                            hold_and_check( &*xp, hold );
                        }
                    }
                    xp.release();
                }
                else {
                    xp = s.extract( key );
                    if ( xp ) {
                        r.r = 1;
                        r.tag = xp->tag;
                        r.key = xp->key;
                        hold_and_check( &*xp, hold );
                    }
                    xp.release();
                }
                break;
            }
            case O_GET: {
                typename Set::raw_ptr rp{};
                {
                    rcu_lock l;
                    rp = s.get( key );
                    if ( rp ) {
                        r.r = 1;
                        r.tag = rp->tag;
                        r.key = rp->key;
                        hold_and_check( &*rp, hold );
                    }
                }
                release_raw( rp, 0 );
                break;
            }
            case O_FIND_F: {
                int calls = 0;
                r.r = s.find( key, [&]( Item& it, int const& ) { ++calls; r.tag = it.tag; r.key = it.key; } ) ? 1 : 0;
                r.fcalls = calls;
                break;
            }
            case O_CONTAINS:
                r.r = s.contains( key ) ? 1 : 0;
                break;
            default:
                r.unsupported = true;
                break;
            }
            return r;
        }
        bool traverse( std::vector<int>& keys ) override
        {
            rcu_lock l;
            for ( auto it = s.begin(); it != s.end(); ++it )
                keys.push_back( it->key );
            return true;
        }
        void scan() override { Set::gc::synchronize(); }
    };

    // ---- nogc value sets: insert / emplace / update / contains / find, all returning iterators --------
    template <typename Set, typename Hooks>
    struct NSetAd : Holder<Set, Hooks> {
        typedef Holder<Set, Hooks> base;
        using base::s;
        NSetAd( Case const& c, size_t n, size_t lf ) : base( c, n, lf ) {}

        bool supports( int op ) const override
        {
            return op == O_INSERT || op == O_EMPLACE || op == O_UPDATE || op == O_UPDATE_NOINS || op == O_CONTAINS || op == O_FIND_F;
        }
        Res apply( int op, int key, int tag ) override
        {
            this->enter();
            Res r;
            switch ( op ) {
            case O_INSERT:
                r.r = s.insert( Item( key, tag )) != s.end() ? 1 : 0;
                break;
            case O_EMPLACE:
                r.r = s.emplace( key, tag ) != s.end() ? 1 : 0;
                break;
            case O_UPDATE:
            case O_UPDATE_NOINS: {
                auto p = s.update( Item( key, tag ), op == O_UPDATE );
                if ( p.first == s.end())
                    r.r = 0;
                else if ( p.second ) {
                    r.r = 2;
                    r.tag = tag;
                    if ( p.first->tag != tag )
                        fail( "nogc update: the iterator of a new item does not point to the inserted item" );
                }
                else {
                    r.r = 1;
                    r.tag = p.first->tag;
                    r.key = p.first->key;
                }
                break;
            }
            case O_FIND_F: {
                auto it = s.find( key );
                if ( it != s.end()) {
                    r.r = 1;
                    r.tag = it->tag;
                    r.key = it->key;
                }
                break;
            }
            case O_CONTAINS: {
                auto it = s.contains( key );
                if ( it != s.end()) {
                    r.r = 1;
                    r.tag = it->tag;
                    if ( it->key != key )
                        fail( "nogc contains(" + std::to_string( key ) + ") returned an iterator to key " + std::to_string( it->key ));
                }
                break;
            }
            default:
                r.unsupported = true;
                break;
            }
            return r;
        }
        bool traverse( std::vector<int>& keys ) override
        {
            for ( auto it = s.begin(); it != s.end(); ++it )
                keys.push_back( it->key );
            return true;
        }
    };

    // ---- HP / DHP maps (MichaelHashMap, SplitListMap): int -> MVal ----------------------------------
    template <typename Map, int LK, typename Hooks>
    struct GMapAd : Holder<Map, Hooks> {
        typedef Holder<Map, Hooks> base;
        typedef typename Map::value_type value_type;
        using base::s;
        using base::hold;
        GMapAd( Case const& c, size_t n, size_t lf ) : base( c, n, lf ) {}

        bool supports( int op ) const override { return op != O_UNLINK && op != O_EXTRACT_MIN && op != O_EXTRACT_MAX; }
        bool update_replaces() const override { return LK == L_ITERABLE; }

        template <int K = LK>
        typename std::enable_if<K == L_STD>::type do_update( Res& r, int op, int key, int tag )
        {
            int calls = 0;
            std::pair<bool, bool> p = s.update( key, [&]( bool bNew, value_type& v ) {
                ++calls;
                r.fnew = bNew ? 1 : 0;
                r.key = v.first;
                if ( bNew )
                    v.second.tag = tag;
                else
                    r.tag = v.second.tag;
            }, op == O_UPDATE );
            r.fcalls = calls;
            r.r = !p.first ? 0 : p.second ? 2 : 1;
        }
        template <int K = LK>
        typename std::enable_if<K == L_ITERABLE>::type do_update( Res& r, int op, int key, int tag )
        {
            std::pair<bool, bool> p;
            if ( key & 1 )      // odd keys: upsert (no functor), even keys: update with functor
                p = s.upsert( key, MVal( tag ), op == O_UPDATE );
            else {
                int calls = 0;
                p = s.update( key, [&]( value_type& cur, value_type* old ) {
                    ++calls;
                    r.fnew = old ? 0 : 1;
                    r.key = cur.first;
                    cur.second.tag = tag;
                    if ( old )
                        r.tag = old->second.tag;
                }, op == O_UPDATE );
                r.fcalls = calls;
            }
            r.r = !p.first ? 0 : p.second ? 2 : 1;
        }

        Res apply( int op, int key, int tag ) override
        {
            this->enter();
            Res r;
            switch ( op ) {
            case O_INSERT:
                r.r = s.insert( key, MVal( tag )) ? 1 : 0;
                break;
            case O_INSERT_F: {
                int calls = 0;
                r.r = s.insert_with( key, [&]( value_type& v ) { ++calls; r.key = v.first; v.second.tag = tag; } ) ? 1 : 0;
                r.fcalls = calls;
                break;
            }
            case O_UPDATE:
            case O_UPDATE_NOINS:
                do_update( r, op, key, tag );
                if ( r.r == 2 )
                    r.tag = tag;
                break;
            case O_EMPLACE:
                r.r = s.emplace( key, tag ) ? 1 : 0;
                break;
            case O_ERASE:
                r.r = s.erase( key ) ? 1 : 0;
                break;
            case O_ERASE_F: {
                int calls = 0;
                r.r = s.erase( key, [&]( value_type& v ) { ++calls; r.tag = v.second.tag; r.key = v.first; } ) ? 1 : 0;
                r.fcalls = calls;
                break;
            }
            case O_EXTRACT: {
                typename Map::guarded_ptr gp( s.extract( key ));
                if ( gp ) {
                    r.r = 1;
                    r.tag = gp->second.tag;
                    r.key = gp->first;
                    hold_and_check( &gp->second, hold );
                }
                break;
            }
            case O_GET: {
                typename Map::guarded_ptr gp( s.get( key ));
                if ( gp ) {
                    r.r = 1;
                    r.tag = gp->second.tag;
                    r.key = gp->first;
                    hold_and_check( &gp->second, hold );
                }
                break;
            }
            case O_FIND_F: {
                int calls = 0;
                r.r = s.find( key, [&]( value_type& v ) { ++calls; r.tag = v.second.tag; r.key = v.first; } ) ? 1 : 0;
                r.fcalls = calls;
                break;
            }
            case O_CONTAINS:
                r.r = s.contains( key ) ? 1 : 0;
                break;
            default:
                r.unsupported = true;
                break;
            }
            return r;
        }
        bool traverse( std::vector<int>& keys ) override
        {
            for ( auto it = s.begin(); it != s.end(); ++it )
                keys.push_back( it->first );
            return true;
        }
        void scan() override { Map::gc::scan(); }
    };

    // ---- RCU maps ------------------------------------------------------------------------------------
    template <typename Map, typename Hooks>
    struct RMapAd : Holder<Map, Hooks> {
        typedef Holder<Map, Hooks> base;
        typedef typename Map::value_type value_type;
        typedef typename Map::rcu_lock rcu_lock;
        using base::s;
        using base::hold;
        RMapAd( Case const& c, size_t n, size_t lf ) : base( c, n, lf ) {}

        bool supports( int op ) const override { return op != O_UNLINK && op != O_EXTRACT_MIN && op != O_EXTRACT_MAX; }

        Res apply( int op, int key, int tag ) override
        {
            this->enter();
            Res r;
            switch ( op ) {
            case O_INSERT:
                r.r = s.insert( key, MVal( tag )) ? 1 : 0;
                break;
            case O_INSERT_F: {
                int calls = 0;
                r.r = s.insert_with( key, [&]( value_type& v ) { ++calls; r.key = v.first; v.second.tag = tag; } ) ? 1 : 0;
                r.fcalls = calls;
                break;
            }
            case O_UPDATE:
            case O_UPDATE_NOINS: {
                int calls = 0;
                std::pair<bool, bool> p = s.update( key, [&]( bool bNew, value_type& v ) {
                    ++calls;
                    r.fnew = bNew ? 1 : 0;
                    r.key = v.first;
                    if ( bNew )
                        v.second.tag = tag;
                    else
                        r.tag = v.second.tag;
                }, op == O_UPDATE );
                r.fcalls = calls;
                r.r = !p.first ? 0 : p.second ? 2 : 1;
                if ( r.r == 2 )
                    r.tag = tag;
                break;
            }
            case O_EMPLACE:
                r.r = s.emplace( key, tag ) ? 1 : 0;
                break;
            case O_ERASE:
                r.r = s.erase( key ) ? 1 : 0;
                break;
            case O_ERASE_F: {
                int calls = 0;
                r.r = s.erase( key, [&]( value_type& v ) { ++calls; r.tag = v.second.tag; r.key = v.first; } ) ? 1 : 0;
                r.fcalls = calls;
                break;
            }
            case O_EXTRACT: {
                typename Map::exempt_ptr xp;
                if ( Map::c_bExtractLockExternal ) {
                    {
                        rcu_lock l;
                        xp = s.extract( key );
                        if ( xp ) {
                            r.r = 1;
                            r.tag = xp->second.tag;
                            r.key = xp->first;
                            hold_and_check( &xp->second, hold );
                        }
                    }
                    xp.release();
                }
                else {
                    xp = s.extract( key );
                    if ( xp ) {
                        r.r = 1;
                        r.tag = xp->second.tag;
                        r.key = xp->first;
                        hold_and_check( &xp->second, hold );
                    }
                    xp.release();
                }
                break;
            }
            case O_GET: {
                typename Map::raw_ptr rp{};
                {
                    rcu_lock l;
                    rp = s.get( key );
                    if ( rp ) {
                        r.r = 1;
                        r.tag = rp->second.tag;
                        r.key = rp->first;
                        hold_and_check( &rp->second, hold );
                    }
                }
                release_raw( rp, 0 );
                break;
            }
            case O_FIND_F: {
                int calls = 0;
                r.r = s.find( key, [&]( value_type& v ) { ++calls; r.tag = v.second.tag; r.key = v.first; } ) ? 1 : 0;
                r.fcalls = calls;
                break;
            }
            case O_CONTAINS:
                r.r = s.contains( key ) ? 1 : 0;
                break;
            default:
                r.unsupported = true;
                break;
            }
            return r;
        }
        bool traverse( std::vector<int>& keys ) override
        {
            rcu_lock l;
            for ( auto it = s.begin(); it != s.end(); ++it )
                keys.push_back( it->first );
            return true;
        }
        void scan() override { Map::gc::synchronize(); }
    };

    // ---- nogc maps -----------------------------------------------------------------------------------
    template <typename Map, typename Hooks>
    struct NMapAd : Holder<Map, Hooks> {
        typedef Holder<Map, Hooks> base;
        typedef typename Map::value_type value_type;
        using base::s;
        NMapAd( Case const& c, size_t n, size_t lf ) : base( c, n, lf ) {}

        bool supports( int op ) const override
        {
            return op == O_INSERT || op == O_INSERT_F || op == O_EMPLACE || op == O_UPDATE || op == O_UPDATE_NOINS || op == O_CONTAINS || op == O_FIND_F;
        }
        Res apply( int op, int key, int tag ) override
        {
            this->enter();
            Res r;
            switch ( op ) {
            case O_INSERT:
                r.r = s.insert( key, MVal( tag )) != s.end() ? 1 : 0;
                break;
            case O_INSERT_F: {
                int calls = 0;
                r.r = s.insert_with( key, [&]( value_type& v ) { ++calls; r.key = v.first; v.second.tag = tag; } ) != s.end() ? 1 : 0;
                r.fcalls = calls;
                break;
            }
            case O_EMPLACE:
                r.r = s.emplace( key, tag ) != s.end() ? 1 : 0;
                break;
            case O_UPDATE:
            case O_UPDATE_NOINS: {
                auto p = s.update( key, op == O_UPDATE );
                if ( p.first == s.end())
                    r.r = 0;
                else if ( p.second ) {
                    r.r = 2;
                    r.tag = tag;
                    p.first->second.tag = tag;      // the new mapped value is default-constructed; initialise it through the iterator
                }
                else {
                    r.r = 1;
                    r.tag = p.first->second.tag;
                    r.key = p.first->first;
                }
                break;
            }
            case O_FIND_F: {
                auto it = s.find( key );
                if ( it != s.end()) {
                    r.r = 1;
                    r.tag = it->second.tag;
                    r.key = it->first;
                }
                break;
            }
            case O_CONTAINS: {
                auto it = s.contains( key );
                if ( it != s.end()) {
                    r.r = 1;
                    r.tag = it->second.tag;
                    if ( it->first != key )
                        fail( "nogc contains(" + std::to_string( key ) + ") returned an iterator to key " + std::to_string( it->first ));
                }
                break;
            }
            default:
                r.unsupported = true;
                break;
            }
            return r;
        }
        bool traverse( std::vector<int>& keys ) override
        {
            for ( auto it = s.begin(); it != s.end(); ++it )
                keys.push_back( it->first );
            return true;
        }
    };

    // ---- FeldmanHashSet HP / DHP: value_type FItem<H>, operations keyed by the hash ------------------
    template <typename Set, typename H>
    struct FSetG : Holder<Set, FeldmanHooks> {
        typedef Holder<Set, FeldmanHooks> base;
        typedef FItem<H> FI;
        using base::s;
        using base::hold;
        FSetG( Case const& c, size_t head_bits, size_t array_bits ) : base( c, head_bits, array_bits ) {}

        bool supports( int op ) const override { return op != O_UNLINK && op != O_EXTRACT_MIN && op != O_EXTRACT_MAX; }
        bool update_replaces() const override { return true; }

        Res apply( int op, int key, int tag ) override
        {
            this->enter();
            Res r;
            H const h = FHash<H>::of( key );
            switch ( op ) {
            case O_INSERT:
                r.r = s.insert( FI( key, tag )) ? 1 : 0;
                break;
            case O_INSERT_F: {
                int calls = 0;
                r.r = s.insert( FI( key, tag ), [&]( FI& it ) { ++calls; r.key = it.key; } ) ? 1 : 0;
                r.fcalls = calls;
                break;
            }
            case O_UPDATE:
            case O_UPDATE_NOINS: {
                int calls = 0;
                std::pair<bool, bool> p = s.update( FI( key, tag ), [&]( FI& cur, FI* old ) {
                    ++calls;
                    r.fnew = old ? 0 : 1;
                    r.key = cur.key;
                    if ( old ) {
                        r.tag = old->tag;
                        if ( old->key != key )
                            fail( "feldman update(" + std::to_string( key ) + ") replaced the item of key " + std::to_string( old->key ));
                    }
                }, op == O_UPDATE );
                r.fcalls = calls;
                r.r = !p.first ? 0 : p.second ? 2 : 1;
                if ( r.r == 2 )
                    r.tag = tag;
                break;
            }
            case O_EMPLACE:
                r.r = s.emplace( key, tag ) ? 1 : 0;
                break;
            case O_ERASE:
                r.r = s.erase( h ) ? 1 : 0;
                break;
            case O_ERASE_F: {
                int calls = 0;
                r.r = s.erase( h, [&]( FI const& it ) { ++calls; r.tag = it.tag; r.key = it.key; } ) ? 1 : 0;
                r.fcalls = calls;
                break;
            }
            case O_EXTRACT: {
                typename Set::guarded_ptr gp( s.extract( h ));
                if ( gp ) {
                    r.r = 1;
                    r.tag = gp->tag;
                    r.key = gp->key;
                    hold_and_check( &*gp, hold );
                }
                break;
            }
            case O_GET: {
                typename Set::guarded_ptr gp( s.get( h ));
                if ( gp ) {
                    r.r = 1;
                    r.tag = gp->tag;
                    r.key = gp->key;
                    hold_and_check( &*gp, hold );
                }
                break;
            }
            case O_FIND_F: {
                int calls = 0;
                r.r = s.find( h, [&]( FI& it ) { ++calls; r.tag = it.tag; r.key = it.key; } ) ? 1 : 0;
                r.fcalls = calls;
                break;
            }
            case O_CONTAINS:
                r.r = s.contains( h ) ? 1 : 0;
                break;
            default:
                r.unsupported = true;
                break;
            }
            return r;
        }
        bool traverse( std::vector<int>& keys ) override
        {
            for ( auto it = s.begin(); it != s.end(); ++it )
                keys.push_back( it->key );
            return true;
        }
        void scan() override { Set::gc::scan(); }
    };

    // ---- FeldmanHashSet RCU: get() under the lock returns value_type*, extract() unlocked returns exempt_ptr
    template <typename Set, typename H>
    struct FSetR : Holder<Set, FeldmanHooks> {
        typedef Holder<Set, FeldmanHooks> base;
        typedef FItem<H> FI;
        typedef typename Set::rcu_lock rcu_lock;
        using base::s;
        using base::hold;
        FSetR( Case const& c, size_t head_bits, size_t array_bits ) : base( c, head_bits, array_bits ) {}

        bool supports( int op ) const override { return op != O_UNLINK && op != O_EXTRACT_MIN && op != O_EXTRACT_MAX; }
        bool update_replaces() const override { return true; }

        Res apply( int op, int key, int tag ) override
        {
            this->enter();
            Res r;
            H const h = FHash<H>::of( key );
            switch ( op ) {
            case O_INSERT:
                r.r = s.insert( FI( key, tag )) ? 1 : 0;
                break;
            case O_INSERT_F: {
                int calls = 0;
                r.r = s.insert( FI( key, tag ), [&]( FI& it ) { ++calls; r.key = it.key; } ) ? 1 : 0;
                r.fcalls = calls;
                break;
            }
            case O_UPDATE:
            case O_UPDATE_NOINS: {
                int calls = 0;
                std::pair<bool, bool> p = s.update( FI( key, tag ), [&]( FI& cur, FI* old ) {
                    ++calls;
                    r.fnew = old ? 0 : 1;
                    r.key = cur.key;
                    if ( old ) {
                        r.tag = old->tag;
                        if ( old->key != key )
                            fail( "feldman update(" + std::to_string( key ) + ") replaced the item of key " + std::to_string( old->key ));
                    }
                }, op == O_UPDATE );
                r.fcalls = calls;
                r.r = !p.first ? 0 : p.second ? 2 : 1;
                if ( r.r == 2 )
                    r.tag = tag;
                break;
            }
            case O_EMPLACE:
                r.r = s.emplace( key, tag ) ? 1 : 0;
                break;
            case O_ERASE:
                r.r = s.erase( h ) ? 1 : 0;
                break;
            case O_ERASE_F: {
                int calls = 0;
                r.r = s.erase( h, [&]( FI const& it ) { ++calls; r.tag = it.tag; r.key = it.key; } ) ? 1 : 0;
                r.fcalls = calls;
                break;
            }
            case O_EXTRACT: {
                typename Set::exempt_ptr xp( s.extract( h ));
                if ( xp ) {
                    r.r = 1;
                    r.tag = xp->tag;
                    r.key = xp->key;
                    hold_and_check( &*xp, hold );
                    xp.release();
                }
                break;
            }
            case O_GET: {
                rcu_lock l;
                FI* p = s.get( h );
                if ( p ) {
                    r.r = 1;
                    r.tag = p->tag;
                    r.key = p->key;
                    hold_and_check( p, hold );
                }
                break;
            }
            case O_FIND_F: {
                int calls = 0;
                r.r = s.find( h, [&]( FI& it ) { ++calls; r.tag = it.tag; r.key = it.key; } ) ? 1 : 0;
                r.fcalls = calls;
                break;
            }
            case O_CONTAINS:
                r.r = s.contains( h ) ? 1 : 0;
                break;
            default:
                r.unsupported = true;
                break;
            }
            return r;
        }
        bool traverse( std::vector<int>& keys ) override
        {
            rcu_lock l;
            for ( auto it = s.begin(); it != s.end(); ++it )
                keys.push_back( it->key );
            return true;
        }
        void scan() override { Set::gc::synchronize(); }
    };

    // ---- FeldmanHashMap HP / DHP / RCU: keyed by key, hash functor from the generated family --------
    template <typename Map, bool Rcu>
    struct FMapAd : Holder<Map, FeldmanHooks> {
        typedef Holder<Map, FeldmanHooks> base;
        typedef typename Map::value_type value_type;
        using base::s;
        using base::hold;
        FMapAd( Case const& c, size_t head_bits, size_t array_bits ) : base( c, head_bits, array_bits ) {}

        bool supports( int op ) const override { return op != O_UNLINK && op != O_EXTRACT_MIN && op != O_EXTRACT_MAX; }
        bool update_replaces() const override { return true; }

        template <bool R = Rcu>
        typename std::enable_if<!R>::type do_ptr_op( Res& r, int op, int key )
        {
            typename Map::guarded_ptr gp( op == O_EXTRACT ? s.extract( key ) : s.get( key ));
            if ( gp ) {
                r.r = 1;
                r.tag = gp->second.tag;
                r.key = gp->first;
                hold_and_check( &gp->second, hold );
            }
        }
        template <bool R = Rcu>
        typename std::enable_if<R>::type do_ptr_op( Res& r, int op, int key )
        {
            if ( op == O_EXTRACT ) {
                typename Map::exempt_ptr xp( s.extract( key ));
                if ( xp ) {
                    r.r = 1;
                    r.tag = xp->second.tag;
                    r.key = xp->first;
                    hold_and_check( &xp->second, hold );
                    xp.release();
                }
            }
            else {
                typename Map::rcu_lock l;
                value_type* p = s.get( key );
                if ( p ) {
                    r.r = 1;
                    r.tag = p->second.tag;
                    r.key = p->first;
                    hold_and_check( &p->second, hold );
                }
            }
        }

        Res apply( int op, int key, int tag ) override
        {
            this->enter();
            Res r;
            switch ( op ) {
            case O_INSERT:
                r.r = s.insert( key, MVal( tag )) ? 1 : 0;
                break;
            case O_INSERT_F: {
                int calls = 0;
                r.r = s.insert_with( key, [&]( value_type& v ) { ++calls; r.key = v.first; v.second.tag = tag; } ) ? 1 : 0;
                r.fcalls = calls;
                break;
            }
            case O_UPDATE:
            case O_UPDATE_NOINS: {
                int calls = 0;
                std::pair<bool, bool> p = s.update( key, [&]( value_type& cur, value_type* old ) {
                    ++calls;
                    r.fnew = old ? 0 : 1;
                    r.key = cur.first;
                    cur.second.tag = tag;
                    if ( old ) {
                        r.tag = old->second.tag;
                        if ( old->first != key )
                            fail( "feldman map update(" + std::to_string( key ) + ") replaced the item of key " + std::to_string( old->first ));
                    }
                }, op == O_UPDATE );
                r.fcalls = calls;
                r.r = !p.first ? 0 : p.second ? 2 : 1;
                if ( r.r == 2 )
                    r.tag = tag;
                break;
            }
            case O_EMPLACE:
                r.r = s.emplace( key, tag ) ? 1 : 0;
                break;
            case O_ERASE:
                r.r = s.erase( key ) ? 1 : 0;
                break;
            case O_ERASE_F: {
                int calls = 0;
                r.r = s.erase( key, [&]( value_type& v ) { ++calls; r.tag = v.second.tag; r.key = v.first; } ) ? 1 : 0;
                r.fcalls = calls;
                break;
            }
            case O_EXTRACT:
            case O_GET:
                do_ptr_op( r, op, key );
                break;
            case O_FIND_F: {
                int calls = 0;
                r.r = s.find( key, [&]( value_type& v ) { ++calls; r.tag = v.second.tag; r.key = v.first; } ) ? 1 : 0;
                r.fcalls = calls;
                break;
            }
            case O_CONTAINS:
                r.r = s.contains( key ) ? 1 : 0;
                break;
            default:
                r.unsupported = true;
                break;
            }
            return r;
        }
        bool traverse( std::vector<int>& keys ) override
        {
            ReadLock<typename Map::gc> l;
            for ( auto it = s.begin(); it != s.end(); ++it )
                keys.push_back( it->first );
            return true;
        }
        template <bool R = Rcu> typename std::enable_if<!R>::type do_scan() { Map::gc::scan(); }
        template <bool R = Rcu> typename std::enable_if<R>::type do_scan() { Map::gc::synchronize(); }
        void scan() override { do_scan(); }
    };

    // ---- factories -----------------------------------------------------------------------------------
    inline int geometry( Case const& c )
    {
        hash_kind() = cfg_at( c, 3, 0 ) & 3;
        return cfg_at( c, 4, 0 ) & 3;
    }
    template <typename Ad>
    AdapterBase* mk_michael( Case const& c )
    {
        static const size_t n[4] = { 1, 2, 4, 8 };
        int g = geometry( c );
        return new Ad( c, n[g], size_t( 1 ));
    }
    template <typename Ad>
    AdapterBase* mk_split( Case const& c )
    {
        static const size_t n[4] = { 2, 4, 8, 8 };
        static const size_t lf[4] = { 1, 1, 1, 2 };
        int g = geometry( c );
        return new Ad( c, n[g], lf[g] );
    }
    template <typename Ad>
    AdapterBase* mk_feldman( Case const& c )
    {
        static const size_t hb[4] = { 4, 1, 4, 5 };
        static const size_t ab[4] = { 2, 1, 4, 3 };
        int g = geometry( c );
        return new Ad( c, hb[g], ab[g] );
    }

    inline std::vector<cdsverif::CfgSpec> extra_cfg()
    {
        return { { "hash", 0, 3 }, { "cap", 0, 3 } };
    }
    static const char* const kRule =
        "two operations of different threads on the same key overlapped, at least one of them a successful update, and a pre-emptive or yielding switch "
        "occurred (bucket initialisation / table growth / Feldman slot expansion during the concurrent phase are reported as class counters)";
} // namespace fam_hashsets

#endif
