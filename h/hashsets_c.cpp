// C14 part c (concurrent): FeldmanHashSet / FeldmanHashMap - see fam_hashsets.h for the cfg layout
#include "mapcommon_impl.h"
#include "fam_hashsets_c.h"

using namespace mh;

namespace {
    const MapHarnessConfig kConfig = { "hashsets_c", fam_hashsets::kHashsetsCVariants, fam_hashsets::kHashsetsCCount, 7, false, false };
}

namespace cdsverif {
    Schema const& harness_schema()
    {
        static Schema s = make_map_schema( kConfig, fam_hashsets::extra_cfg(), fam_hashsets::kRule );
        return s;
    }
    Verdict run_case( Case const& c ) { return run_map_case( kConfig, c ); }
}
