// Family lockhash (C16, C17 part): lock-based hash containers that resize under the hands of their users
//   container::CuckooSet / CuckooMap, intrusive::CuckooSet      (cuckoo::striping / cuckoo::refinable, list / vector<N> probe sets,
//                                                                 store_hash off/on, ordered / unordered probe sets)
//   container::StripedSet / StripedMap, intrusive::StripedSet   (striped_set::striping / refinable, every bucket adapter shipped in
//                                                                 cds/container/striped_set, striped_map and cds/intrusive/striped_set)
// No SMR is involved (MapVariant::gc = GC_NONE). Hash functors are stateless types that read the per-case
// parameter block `params()`; the harness TU defines `decode_params()` that fills it from the Case.
// Every container type is wrapped into a "probe" class derived from it which, at quiescent points only, walks
// the bucket tables through the protected members: traversal (no key twice) and placement checks (C17/C18).
//
// Define LOCKHASH_NO_CUCKOO / LOCKHASH_NO_STRIPED_STD / LOCKHASH_NO_STRIPED_BOOST / LOCKHASH_NO_STRIPED_INTRUSIVE before
// including to leave a part of the family out of a TU (compile time).
#ifndef CDSVERIF_H_FAM_LOCKHASH_H
#define CDSVERIF_H_FAM_LOCKHASH_H

#include "mapcommon.h"

#include <list>
#include <map>
#include <set>
#include <unordered_map>
#include <unordered_set>
#include <vector>
#include <pthread.h>

namespace fam_lockhash {
    using namespace mh;

    // ---------------------------------------------------------------------------------------
    // per-case parameters
    // ---------------------------------------------------------------------------------------
    enum HashKind { HK_IDENT, HK_MUL, HK_NOT, HK_AFFINE, HK_SHL, HK_SHR, HK_AND, HK_CONST, HK_COUNT };
    struct HashFn {
        int kind = HK_IDENT;
        unsigned par = 0;
        size_t eval( int k ) const
        {
            size_t x = size_t( unsigned( k ));
            switch ( kind ) {
            case HK_MUL: return x * ( 2 * size_t( par ) + 1 );
            case HK_NOT: return ~x;
            case HK_AFFINE: return x * 7 + 3;
            case HK_SHL: return x << par;
            case HK_SHR: return x >> par;
            case HK_AND: return x & par;
            case HK_CONST: return par;
            default: return x;
            }
        }
        bool injective() const { return kind == HK_IDENT || kind == HK_MUL || kind == HK_NOT || kind == HK_AFFINE || kind == HK_SHL; }
    };
    inline const char* hash_kind_name( int k )
    {
        static const char* const n[] = { "ident", "mul_odd", "not", "affine", "shl", "shr", "and", "const" };
        return k >= 0 && k < HK_COUNT ? n[k] : "?";
    }

    // which kind of container asks for parameters (the decoders choose hash families per kind)
    enum ContKind { CK_CUCKOO, CK_STRIPED_THRESHOLD, CK_STRIPED_LOADFACTOR, CK_OTHER };

    struct Params {
        HashFn h[2];
        size_t init = 2;            // Cuckoo: nInitialSize; Striped: nCapacity ctor argument (the library clamps it to 16)
        unsigned probe = 2;         // Cuckoo: probe-set size for list probe sets (vector<N> probe sets force N)
        unsigned thr = 1;           // Cuckoo: probe-set threshold, 0 = library default (size - 1)
        size_t rt_policy = 1;       // run-time argument of load_factor_resizing<0> / single_bucket_size_threshold<0>
        size_t max_buckets = size_t( 1 ) << 16;   // growth guard: beyond it the case is rejected
        bool degenerate = false;    // the hash tuple is outside the injective family (C17 bookkeeping)
    };
    inline Params& params()
    {
        static Params p;
        return p;
    }
    // defined by the harness TU
    Params decode_params( Case const& c, ContKind kind );

    // growth guard (C17): set when a container grew beyond Params::max_buckets; the harness turns the case into V_REJECT
    inline bool& oversize()
    {
        static bool b = false;
        return b;
    }

    // default decoder of the C16 harnesses (lockhash*, seq_lockhash*): cfg[3]=init cfg[4]=probe cfg[5]=thr cfg[6]=hash
    // `few_keys`: the harness uses at most 4 keys (concurrent mode): then 2 * probe-set size >= number of keys and even
    // strongly colliding (but injective) tuples cannot run into the CuckooSet::resize() element drop (C17 finding), so they
    // are used to make resizes frequent; the sequential mode (8 keys) keeps to tuples with at least one low-bit bijection
    inline Params decode_params_c16( Case const& c, ContKind kind, bool few_keys )
    {
        Params p;
        int init = cfg_at( c, 3, 0 ), probe = cfg_at( c, 4, 0 ), thr = cfg_at( c, 5, 0 ), hs = cfg_at( c, 6, 0 );
        static const size_t inits[4] = { 1, 1, 2, 4 };
        p.init = inits[init & 3];
        p.probe = ( probe & 1 ) ? 4u : 2u;
        p.thr = unsigned( 1 + thr % 2 );                        // 1 or 2 (clamped below the probe-set size by the maker)
        if ( kind == CK_CUCKOO ) {
            // injective members only: the table stops growing once it has 2^k >= key-space buckets
            static const HashFn tuples[8][2] = {
                { { HK_IDENT, 0 }, { HK_AFFINE, 0 } }, { { HK_IDENT, 0 }, { HK_NOT, 0 } }, { { HK_MUL, 1 }, { HK_AFFINE, 0 } },
                { { HK_AFFINE, 0 }, { HK_IDENT, 0 } }, { { HK_SHL, 1 }, { HK_IDENT, 0 } }, { { HK_IDENT, 0 }, { HK_SHL, 2 } },
                { { HK_SHL, 2 }, { HK_SHL, 1 } }, { { HK_SHL, 1 }, { HK_SHL, 3 } },
            };
            int t = hs % ( few_keys ? 8 : 6 );
            p.h[0] = tuples[t][0];
            p.h[1] = tuples[t][1];
        }
        else {
            // Striped tables start at 16 buckets (c_nMinimalCapacity): k << s keeps the few keys of a case in one bucket
            // for the first s-3 doublings, so that single-bucket and rational-load-factor policies keep resizing
            p.h[0].kind = HK_SHL;
            p.h[0].par = unsigned( 4 + hs % 3 );                // 4..6
            p.h[1] = p.h[0];
        }
        p.rt_policy = size_t( 1 + thr % 2 );
        return p;
    }

    // ---------------------------------------------------------------------------------------
    // payloads, predicates, hash functors
    // ---------------------------------------------------------------------------------------
    struct HItem : Item {
        HItem() {}
        explicit HItem( int k ) : Item( k, -1 ) {}
        HItem( int k, int t ) : Item( k, t ) {}
    };
    inline int key_of( Item const& i ) { return i.key; }
    inline int key_of( int k ) { return k; }
    inline int tag_of( Item const& i ) { return i.tag; }

    // LOCKHASH_FUNCTOR_POINTS (harness lockhash_wide): every call of a key predicate or hash functor is a scheduling
    // point. The probe sets and buckets of these containers are plain memory that is read and written inside critical
    // sections only; the predicates are called from inside those sections (search of a probe set, relocation, resize),
    // so a thread can be pre-empted between two element visits and a modification made without the cell lock
    // (lock-discipline defect) becomes observable as a lost/duplicated element or as a sanitizer report.
#ifdef LOCKHASH_FUNCTOR_POINTS
#   define LOCKHASH_POINT() cdsverif::point()
#else
#   define LOCKHASH_POINT() (void) 0
#endif
    // Lock-discipline oracle (LOCKHASH_FUNCTOR_POINTS only): the Cuckoo mutex policies are wrapped (CheckedPolicy below)
    // so that every thread knows the hash arrays whose cell locks it holds. Whenever a key predicate is called while the
    // thread holds cell locks (and not the full/resize lock), each key it compares must be covered: for some table t one
    // of the held hash arrays selects the same lock cell as the key's t-th hash. The element compared lives in
    // bucket(t, hash_t(key)) for some t, and the library only ever walks buckets addressed by a hash array it has
    // locked, so correct code always satisfies this; a probe set walked or modified under the wrong cell lock does not.
    struct HeldLocks {
        struct H { size_t h[2]; size_t nlocks; };
        H held[8];
        int n = 0;
        int full = 0;
    };
    inline HeldLocks& held_locks()
    {
        static thread_local HeldLocks h;
        return h;
    }
    inline uint64_t& discipline_checks()
    {
        static uint64_t n = 0;
        return n;
    }
#ifdef LOCKHASH_FUNCTOR_POINTS
    inline void discipline_check_key( int key )
    {
        HeldLocks& st = held_locks();
        if ( st.full > 0 || st.n == 0 || st.n > 8 )
            return;
        size_t hk[2] = { params().h[0].eval( size_t( key )), params().h[1].eval( size_t( key )) };
        for ( int i = 0; i < st.n; ++i ) {
            size_t nl = st.held[i].nlocks;
            if ( nl == 0 || ( nl & ( nl - 1 )) != 0 )
                return;     // not a power of two: cell selection unknown, no verdict
            for ( int t = 0; t < 2; ++t )
                if ((( st.held[i].h[t] ^ hk[t] ) & ( nl - 1 )) == 0 )
                    return;
        }
        fail( "lock discipline: key " + std::to_string( key ) + " compared inside a critical section, but none of the " + std::to_string( st.n )
            + " cell-lock sets held by the thread covers either of its probe sets" );
    }
    template <typename A, typename B>
    inline void discipline_check( A const& a, B const& b )
    {
        HeldLocks& st = held_locks();
        if ( st.full == 0 && st.n > 0 )
            ++discipline_checks();
        discipline_check_key( key_of( a ));
        discipline_check_key( key_of( b ));
    }
#   undef LOCKHASH_POINT
#   define LOCKHASH_POINT() cdsverif::point()
#   define LOCKHASH_PRED_POINT( a, b ) do { cdsverif::point(); discipline_check( a, b ); } while ( 0 )
#else
#   define LOCKHASH_PRED_POINT( a, b ) (void) 0
#endif

    // wrapper of cuckoo::striping / cuckoo::refinable that records what the calling thread holds
    template <typename Base>
    class CheckedPolicy : public Base {
    public:
        using Base::Base;
        template <typename Stat2>
        struct rebind_statistics {
            typedef CheckedPolicy<typename Base::template rebind_statistics<Stat2>::other> other;
        };
        static void push( size_t const* h, size_t nlocks )
        {
            HeldLocks& st = held_locks();
            if ( st.n < 8 ) {
                st.held[st.n].h[0] = h[0];
                st.held[st.n].h[1] = h[1];
                st.held[st.n].nlocks = nlocks;
            }
            ++st.n;
        }
        static void pop() { --held_locks().n; }
        class scoped_cell_lock {
            typename Base::scoped_cell_lock m_l;
        public:
            scoped_cell_lock( CheckedPolicy& p, size_t const* h ) : m_l( p, h ) { push( h, p.lock_count()); }
            ~scoped_cell_lock() { pop(); }
        };
        class scoped_cell_trylock {
            typename Base::scoped_cell_trylock m_l;
            bool m_pushed;
        public:
            scoped_cell_trylock( CheckedPolicy& p, size_t const* h ) : m_l( p, h ), m_pushed( m_l.locked())
            {
                if ( m_pushed )
                    push( h, p.lock_count());
            }
            ~scoped_cell_trylock()
            {
                if ( m_pushed )
                    pop();
            }
            bool locked() const { return m_l.locked(); }
        };
        class scoped_full_lock {
            typename Base::scoped_full_lock m_l;
        public:
            scoped_full_lock( CheckedPolicy& p ) : m_l( p ) { ++held_locks().full; }
            ~scoped_full_lock() { --held_locks().full; }
        };
        class scoped_resize_lock {
            typename Base::scoped_resize_lock m_l;
        public:
            scoped_resize_lock( CheckedPolicy& p ) : m_l( p ) { ++held_locks().full; }
            ~scoped_resize_lock() { --held_locks().full; }
        };
    };

    struct HLess {
        template <typename A, typename B>
        bool operator()( A const& a, B const& b ) const { LOCKHASH_PRED_POINT( a, b ); return key_of( a ) < key_of( b ); }
    };
    struct HCmp {
        template <typename A, typename B>
        int operator()( A const& a, B const& b ) const { LOCKHASH_PRED_POINT( a, b ); return key_of( a ) < key_of( b ) ? -1 : key_of( a ) > key_of( b ) ? 1 : 0; }
    };
    struct HEq {
        template <typename A, typename B>
        bool operator()( A const& a, B const& b ) const { LOCKHASH_PRED_POINT( a, b ); return key_of( a ) == key_of( b ); }
    };
    template <int I>
    struct LhHash {
        size_t operator()( int k ) const { LOCKHASH_POINT(); return params().h[I].eval( k ); }
        size_t operator()( Item const& i ) const { LOCKHASH_POINT(); return params().h[I].eval( i.key ); }
    };
#ifdef LOCKHASH_FUNCTOR_POINTS
    typedef HLess MapLess;
    typedef HEq MapEq;
#else
    typedef std::less<int> MapLess;
    typedef std::equal_to<int> MapEq;
#endif

    // mapped value of the map flavours; the default constructor takes the tag the calling thread announced
    // (insert(key) default-constructs the mapped value inside the container)
    inline int& pending_tag()
    {
        static thread_local int t = -1;
        return t;
    }
    struct MVal {
        int tag;
        uint64_t canary = 0xabcdef;
        MVal() : tag( pending_tag()) {}
        explicit MVal( int t ) : tag( t ) {}
    };

    // ---------------------------------------------------------------------------------------
    // resize bookkeeping shared by all adapters: bucket_count() sampled at construction, at the first operation of a
    // worker thread and at destruction; doublings are reported as class counters
    // ---------------------------------------------------------------------------------------
    inline unsigned log2u( size_t n )
    {
        unsigned r = 0;
        while ( n > 1 ) {
            n >>= 1;
            ++r;
        }
        return r;
    }
    struct ResizeWatch {
        pthread_t main_thread;
        size_t at_ctor = 0;
        size_t at_first_worker_op = 0;
        void init( size_t bc )
        {
            main_thread = pthread_self();
            at_ctor = bc;
        }
        bool worker_first( ) const { return at_first_worker_op == 0 && !pthread_equal( pthread_self(), main_thread ); }
        void finish( size_t bc ) const
        {
            unsigned all = log2u( bc ) - log2u( at_ctor );
            if ( all )
                note_class( "resized", all );
            if ( at_first_worker_op ) {
                unsigned conc = log2u( bc ) - log2u( at_first_worker_op );
                if ( conc ) {
                    note_class( "resized_in_concurrent_phase", conc );
                    note_class( "cases_resized_in_concurrent_phase" );
                }
            }
            else if ( all )
                note_class( "cases_resized" );
        }
    };

    // key extraction from what the containers store
    struct KeyOfItem {
        template <typename T>
        int operator()( T const& v ) const { return v.key; }
    };
    struct KeyOfPair {
        template <typename T>
        int operator()( T const& v ) const { return v.first; }
    };

    // ---------------------------------------------------------------------------------------
    // Adapter for value sets: container::CuckooSet<HItem>, container::StripedSet<Bucket<HItem>>
    //   insert(val) / insert(val, f(HItem&)) / update(val, f(bool, HItem&, Q const&), bAllow) / emplace(k, tag)
    //   erase(key) / erase(key, f(HItem const&)) / find(key, f(HItem&, Q const&)) / contains(key)
    // `Probe` derives from the container and offers walk(f(key)) + check(); see below.
    // ---------------------------------------------------------------------------------------
    template <typename Probe>
    struct ValueSetAdapter : AdapterBase {
        std::unique_ptr<Probe> s;
        ResizeWatch rw;
        Params p;

        ValueSetAdapter( Probe* set, Params const& par ) : s( set ), p( par ) { rw.init( s->bucket_count()); }
        ~ValueSetAdapter() override
        {
            rw.finish( s->bucket_count());
            s->final_stats();
        }

        bool supports( int op ) const override
        {
            switch ( op ) {
            case O_INSERT: case O_INSERT_F: case O_UPDATE: case O_UPDATE_NOINS: case O_EMPLACE: case O_ERASE: case O_ERASE_F: case O_FIND_F: case O_CONTAINS:
                return true;
            default:
                return false;
            }
        }

        Res apply( int op, int key, int tag ) override
        {
            Res r;
            if ( oversize())
                return r;
            if ( rw.worker_first())
                rw.at_first_worker_op = s->bucket_count();
            switch ( op ) {
            case O_INSERT:
                r.r = ( tag & 1 ) ? s->insert( HItem( key, tag )) : s->insert( HItem( key, tag ), []( HItem& ) {} );
                break;
            case O_INSERT_F: {
                int calls = 0;
                r.r = s->insert( HItem( key, tag ), [&]( HItem& it ) { ++calls; r.key = it.key; } ) ? 1 : 0;
                r.fcalls = calls;
                break;
            }
            case O_UPDATE:
            case O_UPDATE_NOINS: {
                int calls = 0;
                std::pair<bool, bool> x = s->update( HItem( key, tag ), [&]( bool bNew, HItem& it, HItem const& ) {
                    ++calls;
                    r.fnew = bNew ? 1 : 0;
                    r.tag = it.tag;
                    r.key = it.key;
                }, op == O_UPDATE );
                r.fcalls = calls;
                r.r = !x.first ? 0 : x.second ? 2 : 1;
                if ( r.r == 2 )
                    r.tag = tag;
                break;
            }
            case O_EMPLACE:
                r.r = s->emplace( key, tag ) ? 1 : 0;
                break;
            case O_ERASE:
                r.r = s->erase( key ) ? 1 : 0;
                break;
            case O_ERASE_F: {
                int calls = 0;
                r.r = s->erase( key, [&]( HItem const& it ) { ++calls; r.tag = it.tag; r.key = it.key; } ) ? 1 : 0;
                r.fcalls = calls;
                break;
            }
            case O_FIND_F: {
                int calls = 0;
                r.r = s->find( key, [&]( HItem& it, int const& ) { ++calls; r.tag = it.tag; r.key = it.key; } ) ? 1 : 0;
                r.fcalls = calls;
                break;
            }
            case O_CONTAINS:
                r.r = s->contains( key ) ? 1 : 0;
                break;
            default:
                r.unsupported = true;
                break;
            }
            if ( s->bucket_count() > p.max_buckets )
                oversize() = true;
            return r;
        }

        bool has_counter() const override { return true; }
        size_t size() const override { return s->size(); }
        bool empty() const override { return s->empty(); }
        bool traverse( std::vector<int>& keys ) override
        {
            if ( oversize())
                return false;
            s->walk_keys( keys );
            return true;
        }
        void check_structure( bool ) override
        {
            if ( !oversize())
                s->check();
        }
    };

    // ---------------------------------------------------------------------------------------
    // Adapter for maps: container::CuckooMap<int, MVal>, container::StripedMap<Bucket<int, MVal>>
    //   insert(key) / insert(key, val) / insert_with(key, f(pair&)) / update(key, f(bool, pair&), bAllow) / emplace(key, tag)
    //   erase(key) / erase(key, f(pair&)) / find(key, f(pair&)) / contains(key)
    // ---------------------------------------------------------------------------------------
    template <typename Probe>
    struct MapAdapter : AdapterBase {
        typedef typename Probe::value_type pair_type;
        std::unique_ptr<Probe> s;
        ResizeWatch rw;
        Params p;

        MapAdapter( Probe* m, Params const& par ) : s( m ), p( par ) { rw.init( s->bucket_count()); }
        ~MapAdapter() override
        {
            rw.finish( s->bucket_count());
            s->final_stats();
        }

        bool supports( int op ) const override
        {
            switch ( op ) {
            case O_INSERT: case O_INSERT_F: case O_UPDATE: case O_UPDATE_NOINS: case O_EMPLACE: case O_ERASE: case O_ERASE_F: case O_FIND_F: case O_CONTAINS:
                return true;
            default:
                return false;
            }
        }

        static void check_canary( pair_type const& pr )
        {
            if ( pr.second.canary != 0xabcdef )
                fail( "mapped value handed to a functor has a bad canary" );
        }

        Res apply( int op, int key, int tag ) override
        {
            Res r;
            if ( oversize())
                return r;
            if ( rw.worker_first())
                rw.at_first_worker_op = s->bucket_count();
            switch ( op ) {
            case O_INSERT:
                if ( tag & 1 ) {
                    pending_tag() = tag;
                    r.r = s->insert( key ) ? 1 : 0;
                    pending_tag() = -1;
                }
                else
                    r.r = s->insert( key, MVal( tag )) ? 1 : 0;
                break;
            case O_INSERT_F: {
                int calls = 0;
                r.r = s->insert_with( key, [&]( pair_type& pr ) { ++calls; pr.second.tag = tag; r.key = pr.first; check_canary( pr ); } ) ? 1 : 0;
                r.fcalls = calls;
                break;
            }
            case O_UPDATE:
            case O_UPDATE_NOINS: {
                int calls = 0;
                std::pair<bool, bool> x = s->update( key, [&]( bool bNew, pair_type& pr ) {
                    ++calls;
                    r.fnew = bNew ? 1 : 0;
                    if ( bNew )
                        pr.second.tag = tag;
                    r.tag = pr.second.tag;
                    r.key = pr.first;
                    check_canary( pr );
                }, op == O_UPDATE );
                r.fcalls = calls;
                r.r = !x.first ? 0 : x.second ? 2 : 1;
                if ( r.r == 2 )
                    r.tag = tag;
                break;
            }
            case O_EMPLACE:
                r.r = s->emplace( key, tag ) ? 1 : 0;
                break;
            case O_ERASE:
                r.r = s->erase( key ) ? 1 : 0;
                break;
            case O_ERASE_F: {
                int calls = 0;
                r.r = s->erase( key, [&]( pair_type& pr ) { ++calls; r.tag = pr.second.tag; r.key = pr.first; check_canary( pr ); } ) ? 1 : 0;
                r.fcalls = calls;
                break;
            }
            case O_FIND_F: {
                int calls = 0;
                r.r = s->find( key, [&]( pair_type& pr ) { ++calls; r.tag = pr.second.tag; r.key = pr.first; check_canary( pr ); } ) ? 1 : 0;
                r.fcalls = calls;
                break;
            }
            case O_CONTAINS:
                r.r = s->contains( key ) ? 1 : 0;
                break;
            default:
                r.unsupported = true;
                break;
            }
            if ( s->bucket_count() > p.max_buckets )
                oversize() = true;
            return r;
        }

        bool has_counter() const override { return true; }
        size_t size() const override { return s->size(); }
        bool empty() const override { return s->empty(); }
        bool traverse( std::vector<int>& keys ) override
        {
            if ( oversize())
                return false;
            s->walk_keys( keys );
            return true;
        }
        void check_structure( bool ) override
        {
            if ( !oversize())
                s->check();
        }
    };

    // ---------------------------------------------------------------------------------------
    // Adapter for intrusive sets: intrusive::CuckooSet<Node>, intrusive::StripedSet<Bucket<Node>>
    //   insert(node&) / insert(node&, f) / update(node&, f(bool, Node& item, Node& val), bAllow) / unlink(node&)
    //   erase(key) -> Node* / erase(key, f) -> Node* / find(key, f(Node&, Q const&)) / contains(key) / clear_and_dispose(disp)
    // Ownership: a node removed by erase()/unlink() belongs to the caller again (the set has no disposer for them);
    // the adapter accounts it as disposed at once and buries it (payload stays readable for a concurrent unlink() that was
    // handed the same node by an earlier find(); the hook part is ASan-poisoned: the set must not touch it any more).
    // Nodes still linked when the adapter dies are disposed through clear_and_dispose().
    // Node requirements: derives from HItem, member `int id`, static hook_ptr()/hook_size.
    // ---------------------------------------------------------------------------------------
    template <typename Probe, typename Node>
    struct IntrusiveAdapter : AdapterBase {
        std::unique_ptr<Probe> s;
        ResizeWatch rw;
        Params p;

        IntrusiveAdapter( Probe* set, Params const& par ) : s( set ), p( par ) { rw.init( s->bucket_count()); }
        ~IntrusiveAdapter() override
        {
            rw.finish( s->bucket_count());
            s->final_stats();
            s->clear_and_dispose( []( Node* n ) { registry().on_dispose( n->id, "intrusive item" ); delete n; } );
            if ( s->size() != 0 )
                fail( "intrusive set reports a non-zero size after clear_and_dispose()" );
        }

        static Node* make_node( int key, int tag )
        {
            Node* n = new Node( key, tag );
            n->id = registry().add();
            return n;
        }
        static void discard( Node* n )
        {
            registry().drop( n->id );
            delete n;
        }
        static void owned_again( Node* n )
        {
            registry().on_dispose( n->id, "intrusive item" );
            graveyard().bury( n, n->hook_ptr(), Node::hook_size );
        }

        bool supports( int op ) const override
        {
            switch ( op ) {
            case O_INSERT: case O_INSERT_F: case O_UPDATE: case O_UPDATE_NOINS: case O_ERASE: case O_ERASE_F: case O_FIND_F: case O_CONTAINS: case O_UNLINK:
                return true;
            default:
                return false;
            }
        }

        Res apply( int op, int key, int tag ) override
        {
            Res r;
            if ( oversize())
                return r;
            if ( rw.worker_first())
                rw.at_first_worker_op = s->bucket_count();
            switch ( op ) {
            case O_INSERT: {
                Node* n = make_node( key, tag );
                r.r = s->insert( *n ) ? 1 : 0;
                if ( !r.r )
                    discard( n );
                break;
            }
            case O_INSERT_F: {
                Node* n = make_node( key, tag );
                int calls = 0;
                r.r = s->insert( *n, [&]( Node& it ) { ++calls; r.key = key_of( it ); if ( &it != n ) fail( "insert functor received a different object" ); } ) ? 1 : 0;
                r.fcalls = calls;
                if ( !r.r )
                    discard( n );
                break;
            }
            case O_UPDATE:
            case O_UPDATE_NOINS: {
                Node* n = make_node( key, tag );
                int calls = 0;
                std::pair<bool, bool> x = s->update( *n, [&]( bool bNew, Node& it, Node& val ) {
                    ++calls;
                    r.fnew = bNew ? 1 : 0;
                    r.tag = tag_of( it );
                    r.key = key_of( it );
                    if ( &val != n )
                        fail( "update functor: val is not the object passed to update()" );
                    if ( bNew && &it != n )
                        fail( "update functor: bNew but item is not the new object" );
                }, op == O_UPDATE );
                r.fcalls = calls;
                r.r = !x.first ? 0 : x.second ? 2 : 1;
                if ( r.r == 2 )
                    r.tag = tag;
                else
                    discard( n );
                break;
            }
            case O_ERASE: {
                Node* n = s->erase( key );
                if ( n ) {
                    r.r = 1;
                    r.tag = tag_of( *n );
                    r.key = key_of( *n );
                    if ( key_of( *n ) != key )
                        fail( "erase(key) returned an item with key " + std::to_string( key_of( *n ) ) + " for key " + std::to_string( key ));
                    owned_again( n );
                }
                break;
            }
            case O_ERASE_F: {
                int calls = 0;
                Node const* seen = nullptr;
                Node* n = s->erase( key, [&]( Node const& it ) { ++calls; r.tag = tag_of( it ); r.key = key_of( it ); seen = &it; } );
                r.fcalls = calls;
                if ( n ) {
                    r.r = 1;
                    if ( seen != n )
                        fail( "erase(key, f): the functor saw a different object than the one returned" );
                    owned_again( n );
                }
                break;
            }
            case O_FIND_F: {
                int calls = 0;
                r.r = s->find( key, [&]( Node& it, int const& ) { ++calls; r.tag = tag_of( it ); r.key = key_of( it ); } ) ? 1 : 0;
                r.fcalls = calls;
                break;
            }
            case O_CONTAINS:
                r.r = s->contains( key ) ? 1 : 0;
                break;
            case O_UNLINK: {
                Node* n = nullptr;
                s->find( key, [&]( Node& it, int const& ) { n = &it; } );
                if ( !n ) {
                    r.r = 2;        // nothing to unlink
                    break;
                }
                r.tag = tag_of( *n );
                r.key = key_of( *n );
                cdsverif::point();
                // n may have been removed (never freed: buried) by another thread meanwhile: unlink() must then return false
                r.r = s->unlink( *n ) ? 1 : 0;
                if ( r.r )
                    owned_again( n );
                break;
            }
            default:
                r.unsupported = true;
                break;
            }
            if ( s->bucket_count() > p.max_buckets )
                oversize() = true;
            return r;
        }

        bool has_counter() const override { return true; }
        size_t size() const override { return s->size(); }
        bool empty() const override { return s->empty(); }
        bool traverse( std::vector<int>& keys ) override
        {
            if ( oversize())
                return false;
            s->walk_keys( keys );
            return true;
        }
        void check_structure( bool ) override
        {
            if ( !oversize())
                s->check();
        }
    };
} // namespace fam_lockhash

// =============================================================================================
// Cuckoo
// =============================================================================================
#ifndef LOCKHASH_NO_CUCKOO
#include <cds/container/cuckoo_set.h>
#include <cds/container/cuckoo_map.h>

namespace fam_lockhash {
    namespace cc = cds::container;
    namespace ci = cds::intrusive;

#ifdef LOCKHASH_FUNCTOR_POINTS
    typedef CheckedPolicy<cds::intrusive::cuckoo::striping<>> LhStriping;
    typedef CheckedPolicy<cds::intrusive::cuckoo::refinable<>> LhRefinable;
#else
    typedef cds::intrusive::cuckoo::striping<> LhStriping;
    typedef cds::intrusive::cuckoo::refinable<> LhRefinable;
#endif
    // Probe over intrusive::CuckooSet (reached through the protected inheritance of the container flavours too).
    // Invariants checked at quiescence: an element of table t, bucket b hashes to b with hash #t; a probe set never exceeds
    // the probe-set size; ordered probe sets are strictly increasing; a stored hash equals the computed one; the item counter
    // equals the number of linked elements.
    template <typename Set, typename KeyOf, bool WithStat>
    struct CuckooProbe : Set {
        template <typename... A>
        explicit CuckooProbe( A&&... a ) : Set( std::forward<A>( a )... ) {}

        // f( table, bucket, position, bucket size, hook node, stored value ); container flavours store node_type{ m_val },
        // the intrusive flavour stores the user's type
        template <typename F>
        void walk( F f )
        {
            size_t n = this->bucket_count();
            for ( unsigned t = 0; t < Set::c_nArity; ++t )
                for ( size_t b = 0; b < n; ++b ) {
                    auto& bucket = this->m_BucketTable[t][b];
                    unsigned pos = 0;
                    for ( auto it = bucket.begin(); it != bucket.end(); ++it, ++pos )
                        f( t, b, pos, bucket.size(), *it, value_of_impl( *Set::node_traits::to_value_ptr( *it ), 0 ));
                }
        }
        template <typename N>
        static auto value_of_impl( N& n, int ) -> decltype(( n.m_val )) { return n.m_val; }
        template <typename N>
        static N& value_of_impl( N& n, long ) { return n; }

        void walk_keys( std::vector<int>& keys )
        {
            KeyOf ko;
            walk( [&]( unsigned, size_t, unsigned, unsigned, auto&, auto& val ) { keys.push_back( ko( val )); } );
        }

        void check()
        {
            KeyOf ko;
            size_t mask = this->bucket_count() - 1, total = 0;
            int prev_key = 0;
            walk( [&]( unsigned t, size_t b, unsigned pos, unsigned bsize, auto& node, auto& val ) {
                ++total;
                int k = ko( val );
                size_t h = params().h[t].eval( k );
                if (( h & mask ) != b )
                    fail( "Cuckoo: key " + std::to_string( k ) + " sits in table " + std::to_string( t ) + " bucket " + std::to_string( b ) + " but hashes to bucket "
                        + std::to_string( h & mask ));
                if ( bsize > this->m_nProbesetSize )
                    fail( "Cuckoo: a probe set holds " + std::to_string( bsize ) + " elements, probe-set size is " + std::to_string( this->m_nProbesetSize ));
                if ( Set::c_isSorted && pos > 0 && k <= prev_key )
                    fail( "Cuckoo: ordered probe set is not strictly increasing" );
                prev_key = k;
                check_stored_hash( node, t, h );
            } );
            if ( total != this->size())
                fail( "Cuckoo: " + std::to_string( total ) + " elements are linked in the tables but size() = " + std::to_string( this->size()));
        }
        template <typename N>
        static void check_stored_hash( N& node, unsigned t, size_t h )
        {
            if constexpr ( N::hash_array_size != 0 ) {
                if ( t < N::hash_array_size && node.m_arrHash[t] != h )
                    fail( "Cuckoo: stored hash differs from the computed hash" );
            }
        }
        void final_stats()
        {
            if constexpr ( WithStat ) {
                auto const& st = this->statistics();
                if ( st.m_nResizeCallCount.get())
                    note_class( "cuckoo_resize_calls", st.m_nResizeCallCount.get());
                if ( st.m_nRelocateCallCount.get())
                    note_class( "cuckoo_relocate_calls", st.m_nRelocateCallCount.get());
                if ( discipline_checks()) {
                    note_class( "lock_discipline_checks", discipline_checks());
                    discipline_checks() = 0;
                }
                if ( st.m_nRelocateAboveThresholdCount.get())
                    note_class( "cuckoo_relocate_second_round", st.m_nRelocateAboveThresholdCount.get());
                if ( st.m_nFailedRelocateCount.get())
                    note_class( "cuckoo_relocate_all_full", st.m_nFailedRelocateCount.get());
                if ( st.m_nResizeRelocateCall.get())
                    note_class( "cuckoo_relocate_from_resize", st.m_nResizeRelocateCall.get());
                if ( st.m_nFalseResizeCount.get())
                    note_class( "cuckoo_false_resize", st.m_nFalseResizeCount.get());
            }
        }
    };

    typedef cds::opt::hash_tuple<LhHash<0>, LhHash<1>> LhTuple;

    // ---- container::CuckooSet traits -----------------------------------------------------
    struct cus_list_eq_striping : cc::cuckoo::traits {
        typedef LhTuple hash;
        typedef HEq equal_to;
        typedef cc::cuckoo::stat stat;
        typedef LhStriping mutex_policy;
    };
    struct cus_list_cmp_refinable_sh : cc::cuckoo::traits {
        typedef LhTuple hash;
        typedef HCmp compare;
        typedef LhRefinable mutex_policy;
        static bool const store_hash = true;
    };
    struct cus_vec2_less_striping_sh : cc::cuckoo::traits {
        typedef LhTuple hash;
        typedef HLess less;
        typedef cc::cuckoo::vector<2> probeset_type;
        static bool const store_hash = true;
        typedef LhStriping mutex_policy;
    };
    struct cus_vec4_eq_refinable : cc::cuckoo::traits {
        typedef LhTuple hash;
        typedef HEq equal_to;
        typedef cc::cuckoo::vector<4> probeset_type;
        typedef LhRefinable mutex_policy;
        typedef cc::cuckoo::stat stat;
    };
    struct cus_list_eq_refinable_sh : cc::cuckoo::traits {
        typedef LhTuple hash;
        typedef HEq equal_to;
        typedef LhRefinable mutex_policy;
        static bool const store_hash = true;
        typedef cc::cuckoo::stat stat;
    };
    // ---- container::CuckooMap traits -----------------------------------------------------
    struct cum_list_less_refinable : cc::cuckoo::traits {
        typedef LhTuple hash;
        typedef MapLess less;
        typedef LhRefinable mutex_policy;
        typedef cc::cuckoo::stat stat;
    };
    struct cum_vec2_eq_striping_sh : cc::cuckoo::traits {
        typedef LhTuple hash;
        typedef MapEq equal_to;
        typedef cc::cuckoo::vector<2> probeset_type;
        static bool const store_hash = true;
        typedef LhStriping mutex_policy;
    };
    struct cum_list_eq_striping : cc::cuckoo::traits {
        typedef LhTuple hash;
        typedef MapEq equal_to;
        typedef cc::cuckoo::stat stat;
        typedef LhStriping mutex_policy;
    };
    struct cum_vec4_cmp_refinable : cc::cuckoo::traits {
        typedef LhTuple hash;
        typedef HCmp compare;
        typedef cc::cuckoo::vector<4> probeset_type;
        typedef LhRefinable mutex_policy;
    };

    // ---- intrusive::CuckooSet nodes and traits -------------------------------------------
    template <typename ProbeSet, unsigned StoreHash>
    struct CuBaseNode : HItem, ci::cuckoo::node<ProbeSet, StoreHash> {
        typedef ci::cuckoo::node<ProbeSet, StoreHash> hook_type;
        int id = -1;
        CuBaseNode( int k, int t ) : HItem( k, t ) {}
        void* hook_ptr() { return static_cast<hook_type*>( this ); }
        static constexpr size_t hook_size = std::is_empty<hook_type>::value ? 0 : sizeof( hook_type );
    };
    template <typename ProbeSet, unsigned StoreHash>
    struct CuMemberNode : HItem {
        typedef ci::cuckoo::node<ProbeSet, StoreHash> hook_type;
        int id = -1;
        hook_type hMember;
        CuMemberNode( int k, int t ) : HItem( k, t ) {}
        void* hook_ptr() { return &hMember; }
        static constexpr size_t hook_size = std::is_empty<hook_type>::value ? 0 : sizeof( hook_type );
    };

    typedef CuBaseNode<ci::cuckoo::list, 0> CuNode_list0;
    typedef CuBaseNode<ci::cuckoo::list, 2> CuNode_list2;
    typedef CuBaseNode<ci::cuckoo::vector<2>, 0> CuNode_vec2_0;
    typedef CuMemberNode<ci::cuckoo::vector<4>, 2> CuMNode_vec4_2;
    typedef CuMemberNode<ci::cuckoo::list, 0> CuMNode_list0;

    struct icu_list_eq_striping : ci::cuckoo::traits {
        typedef ci::cuckoo::base_hook<ci::cuckoo::probeset_type<ci::cuckoo::list>> hook;
        typedef LhTuple hash;
        typedef HEq equal_to;
        typedef ci::cuckoo::stat stat;
        typedef LhStriping mutex_policy;
    };
    struct icu_list_less_refinable_sh2 : ci::cuckoo::traits {
        typedef ci::cuckoo::base_hook<ci::cuckoo::probeset_type<ci::cuckoo::list>, ci::cuckoo::store_hash<2>> hook;
        typedef LhTuple hash;
        typedef HLess less;
        typedef LhRefinable mutex_policy;
        typedef ci::cuckoo::stat stat;
    };
    struct icu_vec2_eq_refinable : ci::cuckoo::traits {
        typedef ci::cuckoo::base_hook<ci::cuckoo::probeset_type<ci::cuckoo::vector<2>>> hook;
        typedef LhTuple hash;
        typedef HEq equal_to;
        typedef LhRefinable mutex_policy;
    };
    struct icu_mvec4_cmp_striping_sh2 : ci::cuckoo::traits {
        typedef ci::cuckoo::member_hook<offsetof( CuMNode_vec4_2, hMember ), ci::cuckoo::probeset_type<ci::cuckoo::vector<4>>, ci::cuckoo::store_hash<2>> hook;
        typedef LhTuple hash;
        typedef HCmp compare;
        typedef ci::cuckoo::stat stat;
        typedef LhStriping mutex_policy;
    };
    struct icu_mlist_eq_refinable : ci::cuckoo::traits {
        typedef ci::cuckoo::member_hook<offsetof( CuMNode_list0, hMember ), ci::cuckoo::probeset_type<ci::cuckoo::list>> hook;
        typedef LhTuple hash;
        typedef HEq equal_to;
        typedef LhRefinable mutex_policy;
    };

    template <typename Traits>
    constexpr bool cuckoo_has_stat() { return std::is_same<typename Traits::stat, ci::cuckoo::stat>::value; }

    // probe-set size / threshold as the constructors want them for a given probe-set type
    template <typename ProbeSetType>
    struct cuckoo_geometry {
        static void get( Params const& p, unsigned& size, unsigned& thr )
        {
            size = p.probe;
            thr = p.thr >= size ? size - 1 : p.thr;
        }
    };
    template <unsigned N>
    struct cuckoo_geometry<ci::cuckoo::vector<N>> {
        static void get( Params const& p, unsigned& size, unsigned& thr )
        {
            size = N;
            thr = p.thr >= N ? N - 1 : p.thr;
        }
    };

    template <typename Traits>
    AdapterBase* mk_cuckoo_set( Case const& c )
    {
        Params p = params() = decode_params( c, CK_CUCKOO );
        typedef CuckooProbe<cc::CuckooSet<HItem, Traits>, KeyOfItem, cuckoo_has_stat<Traits>()> probe;
        unsigned size, thr;
        cuckoo_geometry<typename Traits::probeset_type>::get( p, size, thr );
        return new ValueSetAdapter<probe>( new probe( p.init, size, thr ), p );
    }
    template <typename Traits>
    AdapterBase* mk_cuckoo_map( Case const& c )
    {
        Params p = params() = decode_params( c, CK_CUCKOO );
        typedef CuckooProbe<cc::CuckooMap<int, MVal, Traits>, KeyOfPair, cuckoo_has_stat<Traits>()> probe;
        unsigned size, thr;
        cuckoo_geometry<typename Traits::probeset_type>::get( p, size, thr );
        return new MapAdapter<probe>( new probe( p.init, size, thr ), p );
    }
    template <typename Node, typename Traits>
    AdapterBase* mk_cuckoo_intrusive( Case const& c )
    {
        Params p = params() = decode_params( c, CK_CUCKOO );
        typedef CuckooProbe<ci::CuckooSet<Node, Traits>, KeyOfItem, cuckoo_has_stat<Traits>()> probe;
        unsigned size, thr;
        cuckoo_geometry<typename Node::hook_type::probeset_type>::get( p, size, thr );
        return new IntrusiveAdapter<probe, Node>( new probe( p.init, size, thr ), p );
    }

#define LOCKHASH_CUCKOO_VARIANTS \
        { "CuckooSet_list_eq_striping", GC_NONE, 0, &fam_lockhash::mk_cuckoo_set<fam_lockhash::cus_list_eq_striping>, false }, \
        { "CuckooSet_list_cmp_refinable_storehash", GC_NONE, 0, &fam_lockhash::mk_cuckoo_set<fam_lockhash::cus_list_cmp_refinable_sh>, false }, \
        { "CuckooSet_vector2_less_striping_storehash", GC_NONE, 0, &fam_lockhash::mk_cuckoo_set<fam_lockhash::cus_vec2_less_striping_sh>, false }, \
        { "CuckooSet_vector4_eq_refinable", GC_NONE, 0, &fam_lockhash::mk_cuckoo_set<fam_lockhash::cus_vec4_eq_refinable>, false }, \
        { "CuckooSet_list_eq_refinable_storehash", GC_NONE, 0, &fam_lockhash::mk_cuckoo_set<fam_lockhash::cus_list_eq_refinable_sh>, false }, \
        { "CuckooMap_list_less_refinable", GC_NONE, 0, &fam_lockhash::mk_cuckoo_map<fam_lockhash::cum_list_less_refinable>, false }, \
        { "CuckooMap_vector2_eq_striping_storehash", GC_NONE, 0, &fam_lockhash::mk_cuckoo_map<fam_lockhash::cum_vec2_eq_striping_sh>, false }, \
        { "CuckooMap_list_eq_striping", GC_NONE, 0, &fam_lockhash::mk_cuckoo_map<fam_lockhash::cum_list_eq_striping>, false }, \
        { "CuckooMap_vector4_cmp_refinable", GC_NONE, 0, &fam_lockhash::mk_cuckoo_map<fam_lockhash::cum_vec4_cmp_refinable>, false }, \
        { "ICuckooSet_list_base_eq_striping", GC_NONE, 0, &fam_lockhash::mk_cuckoo_intrusive<fam_lockhash::CuNode_list0, fam_lockhash::icu_list_eq_striping>, false }, \
        { "ICuckooSet_list_base_less_refinable_storehash2", GC_NONE, 0, &fam_lockhash::mk_cuckoo_intrusive<fam_lockhash::CuNode_list2, fam_lockhash::icu_list_less_refinable_sh2>, false }, \
        { "ICuckooSet_vector2_base_eq_refinable", GC_NONE, 0, &fam_lockhash::mk_cuckoo_intrusive<fam_lockhash::CuNode_vec2_0, fam_lockhash::icu_vec2_eq_refinable>, false }, \
        { "ICuckooSet_vector4_member_cmp_striping_storehash2", GC_NONE, 0, &fam_lockhash::mk_cuckoo_intrusive<fam_lockhash::CuMNode_vec4_2, fam_lockhash::icu_mvec4_cmp_striping_sh2>, false }, \
        { "ICuckooSet_list_member_eq_refinable", GC_NONE, 0, &fam_lockhash::mk_cuckoo_intrusive<fam_lockhash::CuMNode_list0, fam_lockhash::icu_mlist_eq_refinable>, false },
} // namespace fam_lockhash
#else
#define LOCKHASH_CUCKOO_VARIANTS
#endif // LOCKHASH_NO_CUCKOO

// =============================================================================================
// Striped: adapter headers MUST precede striped_set.h / striped_map.h
// =============================================================================================
#if !defined(LOCKHASH_NO_STRIPED_STD) || !defined(LOCKHASH_NO_STRIPED_BOOST) || !defined(LOCKHASH_NO_STRIPED_INTRUSIVE)
#   define LOCKHASH_HAS_STRIPED
#endif

#ifndef LOCKHASH_NO_STRIPED_STD
#include <cds/container/striped_set/std_list.h>
#include <cds/container/striped_set/std_vector.h>
#include <cds/container/striped_set/std_set.h>
#include <cds/container/striped_set/std_hash_set.h>
#include <cds/container/striped_map/std_list.h>
#include <cds/container/striped_map/std_map.h>
#include <cds/container/striped_map/std_hash_map.h>
#endif
#ifndef LOCKHASH_NO_STRIPED_BOOST
#include <cds/container/striped_set/boost_slist.h>
#include <cds/container/striped_set/boost_list.h>
#include <cds/container/striped_set/boost_flat_set.h>
#include <cds/container/striped_set/boost_stable_vector.h>
#include <cds/container/striped_set/boost_vector.h>
#include <cds/container/striped_set/boost_set.h>
#include <cds/container/striped_set/boost_unordered_set.h>
#include <cds/container/striped_map/boost_slist.h>
#include <cds/container/striped_map/boost_list.h>
#include <cds/container/striped_map/boost_flat_map.h>
#include <cds/container/striped_map/boost_map.h>
#include <cds/container/striped_map/boost_unordered_map.h>
#endif
#ifndef LOCKHASH_NO_STRIPED_INTRUSIVE
#include <cds/intrusive/striped_set/boost_list.h>
#include <cds/intrusive/striped_set/boost_slist.h>
#include <cds/intrusive/striped_set/boost_set.h>
#include <cds/intrusive/striped_set/boost_avl_set.h>
#include <cds/intrusive/striped_set/boost_sg_set.h>
#include <cds/intrusive/striped_set/boost_splay_set.h>
#include <cds/intrusive/striped_set/boost_unordered_set.h>
#endif

#ifdef LOCKHASH_HAS_STRIPED
#include <cds/intrusive/striped_set.h>
#include <cds/container/striped_set.h>
#include <cds/container/striped_map.h>

namespace fam_lockhash {
    namespace cc = cds::container;
    namespace ci = cds::intrusive;
    namespace co = cds::opt;
    namespace ss = cds::intrusive::striped_set;

    // Probe over intrusive::StripedSet (base of every flavour). Invariants at quiescence: an element of bucket b hashes
    // to b; the item counter equals the number of stored elements.
    template <typename Set, typename KeyOf>
    struct StripedProbe : Set {
        template <typename... A>
        explicit StripedProbe( A&&... a ) : Set( std::forward<A>( a )... ) {}

        template <typename F>
        void walk( F f )
        {
            size_t n = this->bucket_count();
            for ( size_t b = 0; b < n; ++b ) {
                auto& bucket = this->m_Buckets[b];
                for ( auto it = bucket.begin(); it != bucket.end(); ++it )
                    f( b, *it );
            }
        }
        void walk_keys( std::vector<int>& keys )
        {
            KeyOf ko;
            walk( [&]( size_t, auto const& v ) { keys.push_back( ko( v )); } );
        }
        void check()
        {
            KeyOf ko;
            size_t mask = this->bucket_count() - 1, total = 0;
            walk( [&]( size_t b, auto const& v ) {
                ++total;
                int k = ko( v );
                size_t h = params().h[0].eval( k );
                if (( h & mask ) != b )
                    fail( "Striped: key " + std::to_string( k ) + " sits in bucket " + std::to_string( b ) + " but hashes to bucket " + std::to_string( h & mask ));
            } );
            if ( total != this->size())
                fail( "Striped: " + std::to_string( total ) + " elements are stored in the buckets but size() = " + std::to_string( this->size()));
        }
        void final_stats() {}
    };

    // resizing policies
    typedef ss::single_bucket_size_threshold<1> RP_T1;
    typedef ss::single_bucket_size_threshold<2> RP_T2;
    typedef ss::single_bucket_size_threshold<0> RP_T0;      // run-time threshold
    typedef ss::rational_load_factor_resizing<1, 16> RP_R16;
    typedef ss::rational_load_factor_resizing<1, 8> RP_R8;
    typedef ss::load_factor_resizing<1> RP_LF1;
    typedef ss::load_factor_resizing<0> RP_LF0;             // run-time load factor
    typedef ss::rational_load_factor_resizing<0, 1> RP_RAT0; // run-time rational load factor (1 / rt)

    template <typename P> struct policy_traits { static constexpr ContKind kind = CK_STRIPED_LOADFACTOR; template <typename S> static S* make( Params const& p ) { return new S( p.init ); } };
    template <size_t N> struct policy_traits<ss::single_bucket_size_threshold<N>> { static constexpr ContKind kind = CK_STRIPED_THRESHOLD; template <typename S> static S* make( Params const& p ) { return new S( p.init ); } };
    template <> struct policy_traits<RP_T0> { static constexpr ContKind kind = CK_STRIPED_THRESHOLD; template <typename S> static S* make( Params const& p ) { return new S( p.init, RP_T0( p.rt_policy )); } };
    template <> struct policy_traits<RP_LF0> { static constexpr ContKind kind = CK_STRIPED_LOADFACTOR; template <typename S> static S* make( Params const& p ) { RP_LF0 pol( p.rt_policy ); return new S( p.init, pol ); } };
    template <> struct policy_traits<RP_RAT0> { static constexpr ContKind kind = CK_STRIPED_LOADFACTOR; template <typename S> static S* make( Params const& p ) { return new S( p.init, RP_RAT0( 1, p.rt_policy * 8 )); } };

    typedef ss::striping<> MX_S;
    typedef ss::refinable<> MX_R;
    typedef ss::striping<cds::sync::spin> MX_SPIN;

    // hash functor used INSIDE hashed bucket containers (independent of the striping hash)
    struct InnerHash {
        size_t operator()( int k ) const { return size_t( unsigned( k )) * 2654435761u; }
        size_t operator()( Item const& i ) const { return ( *this )( i.key ); }
    };

    // value set over bucket container B; Opts: comparison / copy-policy options handed to the bucket adapter
    template <typename B, typename Policy, typename Mutex, typename... Opts>
    AdapterBase* mk_striped_set( Case const& c )
    {
        Params p = params() = decode_params( c, policy_traits<Policy>::kind );
        typedef cc::StripedSet<B, co::hash<LhHash<0>>, co::mutex_policy<Mutex>, co::resizing_policy<Policy>, Opts...> set_type;
        typedef StripedProbe<set_type, KeyOfItem> probe;
        return new ValueSetAdapter<probe>( policy_traits<Policy>::template make<probe>( p ), p );
    }
    template <typename B, typename Policy, typename Mutex, typename... Opts>
    AdapterBase* mk_striped_map( Case const& c )
    {
        Params p = params() = decode_params( c, policy_traits<Policy>::kind );
        typedef cc::StripedMap<B, co::hash<LhHash<0>>, co::mutex_policy<Mutex>, co::resizing_policy<Policy>, Opts...> map_type;
        typedef StripedProbe<map_type, KeyOfPair> probe;
        return new MapAdapter<probe>( policy_traits<Policy>::template make<probe>( p ), p );
    }
    template <typename Node, typename B, typename Policy, typename Mutex, typename... Opts>
    AdapterBase* mk_striped_intrusive( Case const& c )
    {
        Params p = params() = decode_params( c, policy_traits<Policy>::kind );
        typedef ci::StripedSet<B, co::hash<LhHash<0>>, co::mutex_policy<Mutex>, co::resizing_policy<Policy>, Opts...> set_type;
        typedef StripedProbe<set_type, KeyOfItem> probe;
        return new IntrusiveAdapter<probe, Node>( policy_traits<Policy>::template make<probe>( p ), p );
    }

    typedef std::pair<int const, MVal> MPair;
    typedef co::less<HLess> O_LESS;
    typedef co::compare<HCmp> O_CMP;
    typedef co::copy_policy<cc::striped_set::copy_item> O_COPY;
    typedef co::copy_policy<cc::striped_set::swap_item> O_SWAP;
    typedef co::copy_policy<cc::striped_set::move_item> O_MOVE;
} // namespace fam_lockhash
#endif // LOCKHASH_HAS_STRIPED

#define LH_V( NAME, ... ) { NAME, mh::GC_NONE, 0, &fam_lockhash::__VA_ARGS__, false },

#ifndef LOCKHASH_NO_STRIPED_STD
namespace fam_lockhash {
    typedef std::list<HItem> B_std_list;
    typedef std::vector<HItem> B_std_vector;
    typedef std::set<HItem, HLess> B_std_set;
    typedef std::unordered_set<HItem, InnerHash, HEq> B_std_uset;
    typedef std::list<MPair> BM_std_list;
    typedef std::map<int, MVal> BM_std_map;
    typedef std::unordered_map<int, MVal, InnerHash> BM_std_umap;
}
#define LOCKHASH_STRIPED_STD_VARIANTS \
    LH_V( "StripedSet_std_list_less_striping_T1", mk_striped_set<fam_lockhash::B_std_list, fam_lockhash::RP_T1, fam_lockhash::MX_S, fam_lockhash::O_LESS> ) \
    LH_V( "StripedSet_std_list_cmp_refinable_T2_swap", mk_striped_set<fam_lockhash::B_std_list, fam_lockhash::RP_T2, fam_lockhash::MX_R, fam_lockhash::O_CMP, fam_lockhash::O_SWAP> ) \
    LH_V( "StripedSet_std_vector_cmp_refinable_R16_copy", mk_striped_set<fam_lockhash::B_std_vector, fam_lockhash::RP_R16, fam_lockhash::MX_R, fam_lockhash::O_CMP, fam_lockhash::O_COPY> ) \
    LH_V( "StripedSet_std_set_striping_T2_swap", mk_striped_set<fam_lockhash::B_std_set, fam_lockhash::RP_T2, fam_lockhash::MX_S, fam_lockhash::O_SWAP> ) \
    LH_V( "StripedSet_std_unordered_set_refinable_T0", mk_striped_set<fam_lockhash::B_std_uset, fam_lockhash::RP_T0, fam_lockhash::MX_R> ) \
    LH_V( "StripedMap_std_list_less_striping_T2", mk_striped_map<fam_lockhash::BM_std_list, fam_lockhash::RP_T2, fam_lockhash::MX_S, fam_lockhash::O_LESS> ) \
    LH_V( "StripedMap_std_map_refinable_T1_copy", mk_striped_map<fam_lockhash::BM_std_map, fam_lockhash::RP_T1, fam_lockhash::MX_R, fam_lockhash::O_COPY> ) \
    LH_V( "StripedMap_std_unordered_map_spin_R16_swap", mk_striped_map<fam_lockhash::BM_std_umap, fam_lockhash::RP_R16, fam_lockhash::MX_SPIN, fam_lockhash::O_SWAP> )
#else
#define LOCKHASH_STRIPED_STD_VARIANTS
#endif

#ifndef LOCKHASH_NO_STRIPED_BOOST
namespace fam_lockhash {
    typedef boost::container::slist<HItem> B_b_slist;
    typedef boost::container::list<HItem> B_b_list;
    typedef boost::container::flat_set<HItem, HLess> B_b_flat_set;
    typedef boost::container::stable_vector<HItem> B_b_stable_vector;
    typedef boost::container::vector<HItem> B_b_vector;
    typedef boost::container::set<HItem, HLess> B_b_set;
    typedef boost::unordered_set<HItem, InnerHash, HEq> B_b_uset;
    typedef boost::container::slist<MPair> BM_b_slist;
    typedef boost::container::list<MPair> BM_b_list;
    typedef boost::container::flat_map<int, MVal, std::less<int>> BM_b_flat_map;
    typedef boost::container::map<int, MVal, std::less<int>> BM_b_map;
    typedef boost::unordered_map<int, MVal, InnerHash, std::equal_to<int>> BM_b_umap;
}
#define LOCKHASH_STRIPED_BOOST_VARIANTS \
    LH_V( "StripedSet_boost_slist_less_striping_R16", mk_striped_set<fam_lockhash::B_b_slist, fam_lockhash::RP_R16, fam_lockhash::MX_S, fam_lockhash::O_LESS> ) \
    LH_V( "StripedSet_boost_list_cmp_refinable_T1_move", mk_striped_set<fam_lockhash::B_b_list, fam_lockhash::RP_T1, fam_lockhash::MX_R, fam_lockhash::O_CMP, fam_lockhash::O_MOVE> ) \
    LH_V( "StripedSet_boost_flat_set_striping_T1", mk_striped_set<fam_lockhash::B_b_flat_set, fam_lockhash::RP_T1, fam_lockhash::MX_S> ) \
    LH_V( "StripedSet_boost_stable_vector_less_refinable_T2_swap", mk_striped_set<fam_lockhash::B_b_stable_vector, fam_lockhash::RP_T2, fam_lockhash::MX_R, fam_lockhash::O_LESS, fam_lockhash::O_SWAP> ) \
    LH_V( "StripedSet_boost_vector_cmp_striping_T0_copy", mk_striped_set<fam_lockhash::B_b_vector, fam_lockhash::RP_T0, fam_lockhash::MX_S, fam_lockhash::O_CMP, fam_lockhash::O_COPY> ) \
    LH_V( "StripedSet_boost_set_refinable_R8", mk_striped_set<fam_lockhash::B_b_set, fam_lockhash::RP_R8, fam_lockhash::MX_R> ) \
    LH_V( "StripedSet_boost_unordered_set_striping_T1_copy", mk_striped_set<fam_lockhash::B_b_uset, fam_lockhash::RP_T1, fam_lockhash::MX_S, fam_lockhash::O_COPY> ) \
    LH_V( "StripedMap_boost_slist_less_refinable_T1", mk_striped_map<fam_lockhash::BM_b_slist, fam_lockhash::RP_T1, fam_lockhash::MX_R, fam_lockhash::O_LESS> ) \
    LH_V( "StripedMap_boost_list_cmp_striping_R16_swap", mk_striped_map<fam_lockhash::BM_b_list, fam_lockhash::RP_R16, fam_lockhash::MX_S, fam_lockhash::O_CMP, fam_lockhash::O_SWAP> ) \
    LH_V( "StripedMap_boost_flat_map_refinable_T1", mk_striped_map<fam_lockhash::BM_b_flat_map, fam_lockhash::RP_T1, fam_lockhash::MX_R> ) \
    LH_V( "StripedMap_boost_map_striping_T0_swap", mk_striped_map<fam_lockhash::BM_b_map, fam_lockhash::RP_T0, fam_lockhash::MX_S, fam_lockhash::O_SWAP> ) \
    LH_V( "StripedMap_boost_unordered_map_refinable_T2", mk_striped_map<fam_lockhash::BM_b_umap, fam_lockhash::RP_T2, fam_lockhash::MX_R> )
#else
#define LOCKHASH_STRIPED_BOOST_VARIANTS
#endif

#ifndef LOCKHASH_NO_STRIPED_INTRUSIVE
namespace fam_lockhash {
    namespace bi = boost::intrusive;
    template <typename Hook>
    struct BiNode : HItem, Hook {
        typedef Hook hook_type;
        int id = -1;
        BiNode( int k, int t ) : HItem( k, t ) {}
        // boost_unordered_set adapter: unlink() copy-constructs a search key from the node
        BiNode( BiNode const& s ) : HItem( s ), Hook(), id( -1 ) {}
        void* hook_ptr() { return static_cast<Hook*>( this ); }
        static constexpr size_t hook_size = sizeof( Hook );
    };
    template <typename Hook>
    struct BiMemberNode : HItem {
        typedef Hook hook_type;
        int id = -1;
        Hook hMember;
        BiMemberNode( int k, int t ) : HItem( k, t ) {}
        BiMemberNode( BiMemberNode const& s ) : HItem( s ), id( -1 ), hMember() {}
        void* hook_ptr() { return &hMember; }
        static constexpr size_t hook_size = sizeof( Hook );
    };
    typedef BiNode<bi::list_base_hook<>> N_bi_list;
    typedef BiMemberNode<bi::slist_member_hook<>> N_bi_slist;
    typedef BiNode<bi::set_base_hook<>> N_bi_set;
    typedef BiMemberNode<bi::avl_set_member_hook<>> N_bi_avl;
    typedef BiNode<bi::bs_set_base_hook<>> N_bi_bs;
    typedef BiNode<bi::unordered_set_base_hook<>> N_bi_uset;

    typedef bi::list<N_bi_list, bi::constant_time_size<true>> BI_list;
    typedef bi::slist<N_bi_slist, bi::member_hook<N_bi_slist, bi::slist_member_hook<>, &N_bi_slist::hMember>, bi::constant_time_size<true>> BI_slist;
    typedef bi::set<N_bi_set, bi::compare<HLess>> BI_set;
    typedef bi::avl_set<N_bi_avl, bi::member_hook<N_bi_avl, bi::avl_set_member_hook<>, &N_bi_avl::hMember>, bi::compare<HLess>> BI_avl_set;
    typedef bi::sg_set<N_bi_bs, bi::compare<HLess>> BI_sg_set;
    typedef bi::splay_set<N_bi_bs, bi::compare<HLess>> BI_splay_set;
    typedef bi::unordered_set<N_bi_uset, bi::hash<InnerHash>, bi::equal<HEq>, bi::power_2_buckets<true>, bi::incremental<true>> BI_uset;
    typedef co::buffer<co::v::initialized_static_buffer<cds::any_type, 8>> O_BUF8;
}
#define LOCKHASH_STRIPED_INTRUSIVE_VARIANTS \
    LH_V( "IStripedSet_bi_list_less_striping_T1", mk_striped_intrusive<fam_lockhash::N_bi_list, fam_lockhash::BI_list, fam_lockhash::RP_T1, fam_lockhash::MX_S, fam_lockhash::O_LESS> ) \
    LH_V( "IStripedSet_bi_slist_member_cmp_refinable_R16", mk_striped_intrusive<fam_lockhash::N_bi_slist, fam_lockhash::BI_slist, fam_lockhash::RP_R16, fam_lockhash::MX_R, fam_lockhash::O_CMP> ) \
    LH_V( "IStripedSet_bi_set_striping_T2", mk_striped_intrusive<fam_lockhash::N_bi_set, fam_lockhash::BI_set, fam_lockhash::RP_T2, fam_lockhash::MX_S> ) \
    LH_V( "IStripedSet_bi_avl_set_member_refinable_T1", mk_striped_intrusive<fam_lockhash::N_bi_avl, fam_lockhash::BI_avl_set, fam_lockhash::RP_T1, fam_lockhash::MX_R> ) \
    LH_V( "IStripedSet_bi_sg_set_refinable_T0", mk_striped_intrusive<fam_lockhash::N_bi_bs, fam_lockhash::BI_sg_set, fam_lockhash::RP_T0, fam_lockhash::MX_R> ) \
    LH_V( "IStripedSet_bi_splay_set_striping_R16", mk_striped_intrusive<fam_lockhash::N_bi_bs, fam_lockhash::BI_splay_set, fam_lockhash::RP_R16, fam_lockhash::MX_S> ) \
    LH_V( "IStripedSet_bi_unordered_set_striping_T1", mk_striped_intrusive<fam_lockhash::N_bi_uset, fam_lockhash::BI_uset, fam_lockhash::RP_T1, fam_lockhash::MX_S, fam_lockhash::O_BUF8> )
#else
#define LOCKHASH_STRIPED_INTRUSIVE_VARIANTS
#endif

#define LOCKHASH_STRIPED_VARIANTS LOCKHASH_STRIPED_STD_VARIANTS LOCKHASH_STRIPED_BOOST_VARIANTS LOCKHASH_STRIPED_INTRUSIVE_VARIANTS

#endif
