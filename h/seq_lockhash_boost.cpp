// C16 family in sequential differential mode (keys 0..7): Striped over boost::container / boost::intrusive buckets
#define LOCKHASH_HARNESS_NAME "seq_lockhash_boost"
#define LOCKHASH_SEQUENTIAL 1
#define LOCKHASH_BOOST_PART
#include "lockhash_body.h"
