// C25 (pure_bits): reference cursor + driver for split_bitstring / byte_splitter / number_splitter.
#ifndef CDSVERIF_H_PURE_BITS_SPLIT_H
#define CDSVERIF_H_PURE_BITS_SPLIT_H

#include "pure_bits_ref.h"

namespace pb {

    // little-endian byte image of the source; bit i of the bit-string = bytes[i/8] >> (i%8) & 1
    struct Image {
        std::vector<uint8_t> bytes;
        size_t bits() const { return bytes.size() * 8; }
        bool trivial() const
        {
            bool z = true, o = true;
            for ( uint8_t b : bytes ) {
                z = z && b == 0;
                o = o && b == 0xff;
            }
            return z || o;
        }
        std::string hex() const
        {
            std::string s = "[";
            char b[4];
            for ( size_t i = 0; i < bytes.size(); ++i ) {
                snprintf( b, sizeof( b ), "%02x", bytes[i] );
                s += b;
            }
            return s + " (bytes in memory order)]";
        }
    };

    // naive field extraction: bits [pos, pos+n) with bit pos as the LSB of the result
    static inline uint64_t ref_extract( Image const& im, size_t pos, unsigned n )
    {
        uint64_t r = 0;
        for ( unsigned i = 0; i < n; ++i ) {
            size_t p = pos + i;
            if (( im.bytes[p >> 3] >> ( p & 7 )) & 1 )
                r |= uint64_t( 1 ) << i;
        }
        return r;
    }

    struct WStep {
        unsigned w;
        int act;        // 0 = cut, 1 = safe_cut
    };

    struct Plan {
        std::vector<WStep> expl;    // explicit prefix (from preceding "w" ops)
        size_t next = 0;
        uint64_t rng = 0;
        int mode = 0;               // 0 mixed, 1 uniform width, 2 small widths, 3 mixed
        unsigned uniform_w = 1;
        std::vector<WStep> done;    // executed calls (for messages)
    };

    struct Policy {
        unsigned gran;          // widths are multiples of gran (1 or 8)
        unsigned cap;           // documented upper bound of a single cut
        unsigned narrow_max;    // widths above are excluded from this op (== cap: no exclusion)
        unsigned wide_min;      // != 0: the first generated width is drawn from [wide_min, cap]
        bool tail_safe_cut;     // safe_cut(w) with w >= remaining bits allowed
    };

    static std::string trail( Plan const& pl )
    {
        std::string s = " calls so far:";
        size_t from = pl.done.size() > 24 ? pl.done.size() - 24 : 0;
        if ( from )
            s += " ...";
        for ( size_t i = from; i < pl.done.size(); ++i )
            s += ( pl.done[i].act == 2 ? " reset" : pl.done[i].act ? " safe_cut(" : " cut(" ) + ( pl.done[i].act == 2 ? std::string() : std::to_string( pl.done[i].w ) + ")" );
        return s;
    }

    __attribute__(( noinline, cold )) static void split_fail( const char* who, Image const& im, Plan const& pl, std::string const& what )
    {
        g_bad = true;
        fail( std::string( who ) + ": " + what + "; source " + im.hex() + ";" + trail( pl ));
    }

    template <typename Sp>
    static bool check_state( Sp const& sp, size_t pos, size_t total, const char* who, Image const& im, Plan const& pl )
    {
        const bool eos = pos >= total;
        if ( sp.bit_offset() != pos ) {
            split_fail( who, im, pl, "bit_offset() is " + std::to_string( sp.bit_offset()) + ", reference cursor is at " + std::to_string( pos ));
            return false;
        }
        if ( sp.rest_count() != total - pos ) {
            split_fail( who, im, pl, "rest_count() is " + std::to_string( sp.rest_count()) + ", expected " + std::to_string( total - pos ));
            return false;
        }
        if ( sp.eos() != eos ) {
            split_fail( who, im, pl, std::string( "eos() is " ) + ( sp.eos() ? "true" : "false" ) + " with " + std::to_string( total - pos ) + " bits remaining" );
            return false;
        }
        if ( static_cast<bool>( sp ) == eos ) {
            split_fail( who, im, pl, "operator bool() disagrees with !eos()" );
            return false;
        }
        return true;
    }

    static inline unsigned gen_width( Plan& pl, Policy const& po, size_t rest, uint32_t r )
    {
        if ( pl.mode == 1 )
            return pl.uniform_w;
        unsigned cap = po.cap, w;
        unsigned sel = r & 15;
        r >>= 4;
        if ( pl.mode == 2 )
            sel = 1 + sel % 8;
        switch ( sel ) {
        case 0: w = 0; break;
        case 1: case 2: case 3: case 4: case 5: w = 1 + r % 8; break;
        case 6: case 7: case 8: w = 1 + r % 16; break;
        case 9: case 10: w = 1 + r % cap; break;
        case 11: w = cap; break;
        case 12: w = unsigned( rest ); break;
        case 13: w = unsigned( rest ) + 1 + r % 9; break;
        case 14: w = 8 * ( 1 + r % ( cap / 8 )); break;
        default: w = cap - 1; break;
        }
        if ( po.gran == 8 && w )
            w = ( w + 7 ) / 8 * 8;
        return w;
    }

    // Drives one splitter over the whole source, comparing every call with the reference cursor.
    template <typename Sp>
    static bool drive( Sp& sp, Image const& im, size_t start, Plan& pl, Policy const& po, const char* who )
    {
        typedef typename std::make_unsigned<typename Sp::uint_type>::type ures;
        const size_t total = im.bits();
        size_t pos = start;
        std::vector<uint8_t> recon( im.bytes.size(), 0 );
        size_t recon_from = start;
        pl.done.clear();
        if ( !check_state( sp, pos, total, who, im, pl ))
            return false;
        int eos_calls = 0;
        bool first = true;
        bool reached_eos = false;
        for ( int step = 0; step < 400; ++step ) {
            const bool at_eos = pos >= total;
            const size_t rest = at_eos ? 0 : total - pos;
            unsigned w;
            int act;
            if ( pl.next < pl.expl.size()) {
                w = pl.expl[pl.next].w;
                act = pl.expl[pl.next].act;
                ++pl.next;
            }
            else {
                if ( at_eos && eos_calls >= 2 ) {
                    reached_eos = true;
                    break;
                }
                uint32_t r = uint32_t( splitmix( pl.rng ));
                uint32_t r2 = uint32_t( splitmix( pl.rng ));
                if (( r2 & 63 ) == 63 && step > 0 ) {
                    sp.reset();
                    pl.done.push_back( WStep{ 0, 2 } );
                    pos = 0;
                    recon_from = 0;
                    recon.assign( im.bytes.size(), 0 );
                    eos_calls = 0;
                    if ( !check_state( sp, pos, total, who, im, pl ))
                        return false;
                    continue;
                }
                w = gen_width( pl, po, rest, r );
                act = ( r2 >> 6 ) % 3 == 0 ? 1 : 0;
                if ( first && po.wide_min && po.wide_min <= po.cap )
                    w = po.wide_min + ( r >> 8 ) % ( po.cap - po.wide_min + 1 );
            }
            first = false;
            // keep the call inside the documented domain of this splitter
            unsigned lim = po.cap < po.narrow_max ? po.cap : po.narrow_max;
            lim -= lim % po.gran;
            if ( w > lim )
                w = lim;
            w -= w % po.gran;
            while ( w > 0 && !Sp::is_correct( w ))
                w -= po.gran;
            if ( !Sp::is_correct( w ))
                continue;
            if ( act == 0 && ( at_eos || w > rest ))
                act = 1;                            // cut() is specified only inside the bit-string
            if ( act == 1 && !po.tail_safe_cut && !at_eos && w >= rest ) {
                // shape reserved for the op bytesplit_safecut_tail
                w = unsigned( rest );
                act = 0;
            }
            const unsigned n = act == 0 ? w : ( at_eos ? 0 : ( w < rest ? w : unsigned( rest )));
            const uint64_t want = ref_extract( im, pos, n );
            pl.done.push_back( WStep{ w, act } );
            const uint64_t got = uint64_t( ures( act == 0 ? sp.cut( w ) : sp.safe_cut( w )));
            if ( got != want ) {
                char buf[200];
                snprintf( buf, sizeof( buf ), "%s(%u) at bit offset %zu (%zu bits remaining) returned 0x%llx, expected 0x%llx", act ? "safe_cut" : "cut",
                    w, pos, rest, (unsigned long long) got, (unsigned long long) want );
                split_fail( who, im, pl, buf );
                return false;
            }
            for ( unsigned i = 0; i < n; ++i )
                if (( got >> i ) & 1 )
                    recon[( pos + i ) >> 3] = uint8_t( recon[( pos + i ) >> 3] | ( 1u << (( pos + i ) & 7 )));
            pos += n;
            if ( at_eos )
                ++eos_calls;
            if ( !check_state( sp, pos, total, who, im, pl ))
                return false;
        }
        if ( !reached_eos && pos < total ) {
            note_class( "splitter_step_budget" );
            return true;
        }
        // the pieces cut since the last (re)start reassemble the source
        for ( size_t p = recon_from; p < total; ++p )
            if (((( recon[p >> 3] ^ im.bytes[p >> 3] ) >> ( p & 7 )) & 1 ) != 0 ) {
                split_fail( who, im, pl, "the concatenated fields differ from the source at bit " + std::to_string( p ));
                return false;
            }
        return true;
    }

    // ---- sources ----------------------------------------------------------------------------
    template <size_t N>
    struct Arr {
        uint8_t b[N];
    };

    // Byte sources live in an exact-size heap block: an over-read by one byte hits the ASan redzone.
    template <typename Sp, typename Src>
    static bool run_heap( Image const& im, size_t start, bool offs, Plan& pl, Policy const& po, const char* who )
    {
        static_assert( Sp::c_bitstring_size == sizeof( Src ), "size" );
        void* mem = malloc( sizeof( Src ));
        memcpy( mem, im.bytes.data(), sizeof( Src ));
        Src const& src = *static_cast<Src const*>( mem );
        bool ok;
        if ( offs ) {
            Sp sp( src, start );
            ok = drive( sp, im, start, pl, po, who );
            if ( ok && sp.source() != &src ) {
                split_fail( who, im, pl, "source() does not return the address of the bit-string" );
                ok = false;
            }
        }
        else {
            Sp sp( src );
            ok = drive( sp, im, 0, pl, po, who );
            if ( ok && sp.source() != &src ) {
                split_fail( who, im, pl, "source() does not return the address of the bit-string" );
                ok = false;
            }
        }
        free( mem );
        return ok;
    }

    template <typename Sp, typename T>
    static bool run_number( Image const& im, size_t start, bool offs, Plan& pl, Policy const& po, const char* who )
    {
        T n;
        memcpy( &n, im.bytes.data(), sizeof( T ));
        if ( offs ) {
            Sp sp( n, start );
            if ( !drive( sp, im, start, pl, po, who ))
                return false;
            if ( sp.source() != n ) {
                split_fail( who, im, pl, "source() does not return the number" );
                return false;
            }
            return true;
        }
        Sp sp( n );
        if ( !drive( sp, im, 0, pl, po, who ))
            return false;
        if ( sp.source() != n ) {
            split_fail( who, im, pl, "source() does not return the number" );
            return false;
        }
        return true;
    }

    // source kinds of the byte-oriented splitters
    static const size_t kSrcBytes[8] = { 1, 2, 4, 8, 12, 20, 3, 6 };
    static const char* const kSrcName[8] = { "uint8_t", "uint16_t", "uint32_t", "uint64_t", "12 bytes", "20 bytes", "3 bytes", "6 bytes" };

    template <template <typename, size_t, typename> class SP, typename UInt>
    static bool dispatch_src( int kind, Image const& im, size_t start, bool offs, Plan& pl, Policy const& po, const char* who )
    {
        switch ( kind ) {
        case 0: return run_heap<SP<uint8_t, sizeof( uint8_t ), UInt>, uint8_t>( im, start, offs, pl, po, who );
        case 1: return run_heap<SP<uint16_t, sizeof( uint16_t ), UInt>, uint16_t>( im, start, offs, pl, po, who );
        case 2: return run_heap<SP<uint32_t, 0, UInt>, uint32_t>( im, start, offs, pl, po, who );
        case 3: return run_heap<SP<uint64_t, sizeof( uint64_t ), UInt>, uint64_t>( im, start, offs, pl, po, who );
        case 4: return run_heap<SP<Arr<12>, 12, UInt>, Arr<12>>( im, start, offs, pl, po, who );
        case 5: return run_heap<SP<Arr<20>, 0, UInt>, Arr<20>>( im, start, offs, pl, po, who );
        case 6: return run_heap<SP<Arr<3>, 0, UInt>, Arr<3>>( im, start, offs, pl, po, who );
        default: return run_heap<SP<Arr<6>, 6, UInt>, Arr<6>>( im, start, offs, pl, po, who );
        }
    }

    // Source image from a selector: structured table mixed with direct values and hashed randoms.
    static Image make_image( size_t nbytes, uint32_t sv )
    {
        Image im;
        im.bytes.assign( nbytes, 0 );
        const unsigned smode = sv % 4;
        const uint32_t val = sv / 4;
        const size_t nbits = nbytes * 8;
        if ( smode == 0 ) {
            const unsigned pat = val % 8;
            const size_t p = ( val / 8 ) % nbits;
            for ( size_t i = 0; i < nbytes; ++i ) {
                switch ( pat ) {
                case 0: im.bytes[i] = 0xff; break;
                case 1: im.bytes[i] = 0x00; break;
                case 2: im.bytes[i] = uint8_t( 0x10 + 0x22 * ( i % 8 )); break;     // 0xFEDCBA9876543210
                case 3: im.bytes[i] = 0xaa; break;
                case 4: im.bytes[i] = 0x55; break;
                case 5: im.bytes[i] = 0x00; break;
                case 6: im.bytes[i] = 0xff; break;
                default: im.bytes[i] = uint8_t( i + 1 ); break;
                }
            }
            if ( pat == 5 || pat == 6 )
                im.bytes[p >> 3] = uint8_t( im.bytes[p >> 3] ^ ( 1u << ( p & 7 )));
        }
        else {
            uint64_t s = uint64_t( val ) * 4 + smode;
            for ( size_t i = 0; i < nbytes; ++i )
                im.bytes[i] = uint8_t( splitmix( s ) >> 24 );
            if ( smode == 1 )   // direct value in the leading bytes: every 8/16-bit source is reachable
                for ( size_t i = 0; i < nbytes && i < 4; ++i )
                    im.bytes[i] = uint8_t( val >> ( 8 * i ));
        }
        return im;
    }
} // namespace pb

#endif
