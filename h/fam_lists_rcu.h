// Family `lists_rcu` (C13 + the container clause of C04): MichaelList / LazyList as value sets, key-value lists and
// intrusive lists over the four user-space RCU flavours, plus the insert-only cds::gc::nogc variants.
//
// RCU protocol followed by the adapters (from the doxygen of the RCU specialisations):
//   * insert / update / emplace / find / contains lock RCU internally. They are called UNLOCKED here: MichaelList's
//     `position` destructor retires the nodes it helped to unlink and asserts !is_locked().
//   * erase / unlink: "RCU should not be locked" (check_deadlock_policy asserts + throws) -> unlocked.
//   * extract: MichaelList (c_bExtractLockExternal == false) must be called unlocked; LazyList
//     (c_bExtractLockExternal == true) must be called under the RCU lock. In both cases the exempt_ptr is
//     dereferenced and then release()d outside the lock (release() = retire_ptr, asserts !is_locked()).
//   * get: RCU must be locked; the result (MichaelList: raw_ptr object, LazyList: plain pointer) is dereferenced
//     inside the lock only; MichaelList's raw_ptr is move-assigned inside the lock (operator= asserts is_locked())
//     and release()d outside (its disposer retires the helped chain and asserts !is_locked()).
//   * iterators: only under the RCU lock. scan() = RCU::synchronize() outside any lock.
// nogc: nothing is ever removed; insert/update/emplace/contains return iterators (value containers) or pointers
// (intrusive contains); the items they denote stay valid until the list is destroyed.
#ifndef CDSVERIF_H_FAM_LISTS_RCU_H
#define CDSVERIF_H_FAM_LISTS_RCU_H

#include "mapcommon.h"

#include <mutex>
#include <type_traits>

#include <cds/container/michael_list_rcu.h>
#include <cds/container/lazy_list_rcu.h>
#include <cds/container/michael_kvlist_rcu.h>
#include <cds/container/lazy_kvlist_rcu.h>
#include <cds/container/michael_list_nogc.h>
#include <cds/container/lazy_list_nogc.h>
#include <cds/container/michael_kvlist_nogc.h>
#include <cds/container/lazy_kvlist_nogc.h>
#include <cds/intrusive/michael_list_rcu.h>
#include <cds/intrusive/lazy_list_rcu.h>
#include <cds/intrusive/michael_list_nogc.h>
#include <cds/intrusive/lazy_list_nogc.h>

namespace fam_lists_rcu {
    using namespace mh;
    namespace cc = cds::container;
    namespace ci = cds::intrusive;
    typedef cds::gc::nogc NOGC;

    constexpr uint64_t kLive = 0xabcdef;            // the value hold_and_check() expects
    constexpr uint64_t kDead = 0xdead0000deadull;

    // ---- per-case observation counters (non-trivial rule of the sequential insert-only variants) ----
    struct OpCounters {
        unsigned ins_ok = 0, ins_fail = 0, find_hit = 0, find_miss = 0;
    };
    inline OpCounters& counters()
    {
        static OpCounters c;
        return c;
    }

    // ---- payloads --------------------------------------------------------------------------------
    // key-value lists: key int, mapped {tag, canary}. tag 0 = "not initialised yet": insert_with()/update() create
    // the mapped value by default and let the functor (nogc update: the caller) fill it in AFTER the node became
    // reachable (documented "insert item troubleshooting" race of MichaelList; LazyList calls the functor under the
    // node lock) - a reader that still sees tag 0 reports "tag not observable" (-1), never a wrong tag.
    struct Mapped {
        int tag = 0;
        uint64_t canary = kLive;
        Mapped() {}
        explicit Mapped( int t ) : tag( t ) {}
    };
    typedef std::pair<int const, Mapped> KV;

    // intrusive payload; the hook is a base class or a member of the concrete node type
    struct NodeData {
        int ikey = 0;       // (the libcds hook types have a member type `tag`)
        int itag = 0;
        uint64_t canary = kLive;
        int id = -1;
    };

    inline int key_of( Item const& i ) { return i.key; }
    inline int tag_of( Item const& i ) { return i.tag; }
    inline Item const* payload( Item const& i ) { return &i; }
    inline int key_of( KV const& p ) { return p.first; }
    inline int tag_of( KV const& p ) { return p.second.tag ? p.second.tag : -1; }
    inline Mapped const* payload( KV const& p ) { return &p.second; }
    inline int key_of( NodeData const& n ) { return n.ikey; }
    inline int tag_of( NodeData const& n ) { return n.itag; }
    inline NodeData const* payload( NodeData const& n ) { return &n; }

    template <typename V>
    inline void observe( Res& r, V const& v )
    {
        if ( payload( v )->canary != kLive )
            fail( "the container handed an item with a bad canary to the client (already disposed?)" );
        r.tag = tag_of( v );
        r.key = key_of( v );
    }

    // ---- comparators for intrusive nodes: the list must never look at a node it has already disposed -------
    // (disposed RCU nodes are buried, not freed: their payload stays readable, see NodeDisposer). The only legal
    // exception is the ARGUMENT of unlink(val): the client may pass an item that is no longer in the list.
    inline std::vector<void const*>& exempt_nodes()
    {
        static std::vector<void const*> v;
        return v;
    }
    inline void cmp_arg( NodeData const& n )
    {
        if ( n.canary == kLive )
            return;
        for ( void const* p : exempt_nodes())
            if ( p == &n )
                return;
        fail( "the list compared the key of a node that has already been disposed" );
    }
    struct NodeCmp {
        static int c( int a, int b ) { return a < b ? -1 : a > b ? 1 : 0; }
        int operator()( NodeData const& a, NodeData const& b ) const { cmp_arg( a ); cmp_arg( b ); return c( a.ikey, b.ikey ); }
        int operator()( NodeData const& a, int b ) const { cmp_arg( a ); return c( a.ikey, b ); }
        int operator()( int a, NodeData const& b ) const { cmp_arg( b ); return c( a, b.ikey ); }
    };
    struct NodeLess {
        bool operator()( NodeData const& a, NodeData const& b ) const { cmp_arg( a ); cmp_arg( b ); return a.ikey < b.ikey; }
        bool operator()( NodeData const& a, int b ) const { cmp_arg( a ); return a.ikey < b; }
        bool operator()( int a, NodeData const& b ) const { cmp_arg( b ); return a < b.ikey; }
    };

    // ---- intrusive node types ----------------------------------------------------------------------
    template <typename Hook>
    struct BaseNode : Hook, NodeData {
        void* hook_addr() { return static_cast<Hook*>( this ); }
        size_t hook_bytes()
        {
            return size_t( reinterpret_cast<char*>( static_cast<NodeData*>( this )) - reinterpret_cast<char*>( static_cast<Hook*>( this )));
        }
    };
    template <typename Hook>
    struct MemberNode : NodeData {
        Hook hook;
        void* hook_addr() { return &hook; }
        size_t hook_bytes() { return sizeof( Hook ); }
    };

    // Disposer: accounts the disposal, marks the payload dead and
    //  - RCU lists: buries the node (hook part ASan-poisoned: any later access by the list is reported, the payload
    //    stays readable so that a pointer a client still holds *legally or not* shows the dead canary instead of
    //    crashing, and unlink() of an item that has left the list stays well defined); freed at the end of the case;
    //  - nogc lists: really deletes (the disposer only runs from clear()/the destructor).
    template <typename N, bool Bury>
    struct NodeDisposer {
        void operator()( N* p ) const
        {
            NodeData* d = p;
            registry().on_dispose( d->id, "list node" );
            if ( d->canary != kLive ) {
                fail( "disposer called for a node with a bad canary (disposed twice?)" );
                return;
            }
            d->canary = kDead;
            if ( Bury )
                graveyard().bury( p, p->hook_addr(), p->hook_bytes());
            else
                delete p;
        }
    };

    // ---- traits ------------------------------------------------------------------------------------
    enum { TR_LESS_IC = 0, TR_CMP = 1, TR_CMP_IC = 2, TR_LESS = 3 };
    template <int TR> struct tr_sel {
        static constexpr bool less = ( TR == TR_LESS_IC || TR == TR_LESS );
        static constexpr bool ic = ( TR == TR_LESS_IC || TR == TR_CMP_IC );
        typedef typename std::conditional<ic, cds::atomicity::item_counter, cds::atomicity::empty_item_counter>::type item_counter;
        // secondary rotation: back-off / memory model (Michael), node lock (Lazy)
        typedef typename std::conditional<TR == TR_CMP, cds::backoff::yield, typename std::conditional<TR == TR_LESS, cds::backoff::empty, cds::backoff::Default>::type>::type back_off;
        typedef typename std::conditional<TR == TR_CMP_IC, cds::opt::v::sequential_consistent, cds::opt::v::relaxed_ordering>::type memory_model;
        typedef typename std::conditional<TR == TR_LESS, std::mutex, cds::sync::spin>::type lock_type;
    };

    // value containers and key-value lists (ItemLess / ItemCmp also order plain int keys)
    template <int TR>
    struct ml_traits : cc::michael_list::traits {
        typedef typename std::conditional<tr_sel<TR>::less, ItemLess, cds::opt::none>::type less;
        typedef typename std::conditional<tr_sel<TR>::less, cds::opt::none, ItemCmp>::type compare;
        typedef typename tr_sel<TR>::item_counter item_counter;
        typedef typename tr_sel<TR>::back_off back_off;
        typedef typename tr_sel<TR>::memory_model memory_model;
    };
    template <int TR>
    struct ll_traits : cc::lazy_list::traits {
        typedef typename std::conditional<tr_sel<TR>::less, ItemLess, cds::opt::none>::type less;
        typedef typename std::conditional<tr_sel<TR>::less, cds::opt::none, ItemCmp>::type compare;
        typedef typename tr_sel<TR>::item_counter item_counter;
        typedef typename tr_sel<TR>::memory_model memory_model;
        typedef typename tr_sel<TR>::lock_type lock_type;
    };

    // intrusive
    template <typename GC> using MHook = ci::michael_list::node<GC>;
    template <typename GC, int TR> using LHook = ci::lazy_list::node<GC, typename tr_sel<TR>::lock_type>;

    template <typename GC, int TR, bool Member>
    struct mi_types {
        typedef MemberNode<MHook<GC>> mnode;
        typedef typename std::conditional<Member, mnode, BaseNode<MHook<GC>>>::type node;
        static constexpr bool bury = !std::is_same<GC, NOGC>::value;
        struct traits : ci::michael_list::traits {
            typedef typename std::conditional<Member,
                ci::michael_list::member_hook<offsetof( mnode, hook ), cds::opt::gc<GC>>,
                ci::michael_list::base_hook<cds::opt::gc<GC>>>::type hook;
            typedef NodeDisposer<node, bury> disposer;
            typedef typename std::conditional<tr_sel<TR>::less, NodeLess, cds::opt::none>::type less;
            typedef typename std::conditional<tr_sel<TR>::less, cds::opt::none, NodeCmp>::type compare;
            typedef typename tr_sel<TR>::item_counter item_counter;
            typedef typename tr_sel<TR>::back_off back_off;
            typedef typename tr_sel<TR>::memory_model memory_model;
        };
        typedef ci::MichaelList<GC, node, traits> list;
    };
    template <typename GC, int TR, bool Member>
    struct li_types {
        typedef typename tr_sel<TR>::lock_type lock_type;
        typedef MemberNode<LHook<GC, TR>> mnode;
        typedef typename std::conditional<Member, mnode, BaseNode<LHook<GC, TR>>>::type node;
        static constexpr bool bury = !std::is_same<GC, NOGC>::value;
        struct traits : ci::lazy_list::traits {
            typedef typename std::conditional<Member,
                ci::lazy_list::member_hook<offsetof( mnode, hook ), cds::opt::gc<GC>, cds::opt::lock_type<lock_type>>,
                ci::lazy_list::base_hook<cds::opt::gc<GC>, cds::opt::lock_type<lock_type>>>::type hook;
            typedef NodeDisposer<node, bury> disposer;
            typedef typename std::conditional<tr_sel<TR>::less, NodeLess, cds::opt::none>::type less;
            typedef typename std::conditional<tr_sel<TR>::less, cds::opt::none, NodeCmp>::type compare;
            typedef typename tr_sel<TR>::item_counter item_counter;
            typedef typename tr_sel<TR>::memory_model memory_model;
        };
        typedef ci::LazyList<GC, node, traits> list;
    };

    // ---- RCU helpers -------------------------------------------------------------------------------
    template <typename P> inline void release_raw( P& p ) { p.release(); }     // MichaelList: raw_ptr object, release outside the lock
    template <typename T> inline void release_raw( T*& p ) { p = nullptr; }    // LazyList: plain pointer, just forget it

    template <typename L>
    constexpr bool counted()
    {
        return !std::is_same<typename L::item_counter, cds::atomicity::empty_item_counter>::value;
    }

    // Operations whose shape is the same for RCU value sets, key-value lists and intrusive lists
    template <typename L>
    struct RcuListBase : AdapterBase {
        typedef typename L::gc RCU;
        typedef typename L::rcu_lock rcu_lock;
        L s;
        int hold;

        explicit RcuListBase( Case const& c ) : hold( cfg_at( c, 2, 0 )) { counters() = OpCounters(); }

        void lock_must_be_free( const char* where )
        {
            if ( RCU::is_locked())
                fail( std::string( "RCU read-side lock of the calling thread still held after " ) + where );
        }

        // returns true when `op` was handled. Every client functor starts with an explicit scheduling point: the functor is
        // client code, the thread may be pre-empted on its first instruction, before it touches the item it was given.
        bool common( int op, int key, Res& r )
        {
            switch ( op ) {
            case O_ERASE:
                r.r = s.erase( key ) ? 1 : 0;
                return true;
            case O_ERASE_F: {
                int calls = 0;
                r.r = s.erase( key, [&]( auto const& v ) { ++calls; cdsverif::point(); observe( r, v ); } ) ? 1 : 0;
                r.fcalls = calls;
                return true;
            }
            case O_EXTRACT: {
                typename L::exempt_ptr xp;
                if ( L::c_bExtractLockExternal ) {
                    // LazyList: "You should manually lock RCU before calling this function"
                    rcu_lock l;
                    xp = s.extract( key );
                    if ( xp )
                        hold_and_check( payload( *xp ), hold ? 1 : 0 );
                }
                else {
                    // MichaelList: "You shouldn't lock RCU for current thread before calling this function"
                    xp = s.extract( key );
                }
                if ( xp ) {
                    // the extracted item belongs to the exempt_ptr until release(): nobody may dispose it meanwhile
                    r.r = 1;
                    observe( r, *xp );
                    hold_and_check( payload( *xp ), hold );
                }
                xp.release();   // outside the lock: retire_ptr
                return true;
            }
            case O_GET: {
                typename L::raw_ptr rp{};
                {
                    rcu_lock l;
                    rp = s.get( key );
                    if ( rp ) {
                        r.r = 1;
                        observe( r, *rp );
                        hold_and_check( payload( *rp ), hold );
                    }
                }
                release_raw( rp );
                return true;
            }
            case O_FIND_F: {
                int calls = 0;
                r.r = s.find( key, [&]( auto& v, auto const&... ) { ++calls; cdsverif::point(); observe( r, v ); } ) ? 1 : 0;
                r.fcalls = calls;
                return true;
            }
            case O_CONTAINS:
                r.r = s.contains( key ) ? 1 : 0;
                return true;
            default:
                return false;
            }
        }

        bool has_counter() const override { return counted<L>(); }
        size_t size() const override { return s.size(); }
        bool empty() const override { return s.empty(); }
        bool traverse( std::vector<int>& keys ) override
        {
            rcu_lock l;     // "You may safely use iterators in multi-threaded environment only under RCU lock"
            for ( auto it = s.begin(); it != s.end(); ++it )
                keys.push_back( key_of( *it ));
            return true;
        }
        void check_structure( bool ) override
        {
            if (( s.begin() == s.end()) != s.empty())
                fail( "begin() == end() disagrees with empty() at a quiescent point" );
            lock_must_be_free( "a completed operation" );
        }
        void scan() override { RCU::synchronize(); }
    };

    // ---- container::MichaelList / LazyList <RCU, Item> -----------------------------------------------
    template <typename L>
    struct RcuSetAdapter : RcuListBase<L> {
        using RcuListBase<L>::s;
        explicit RcuSetAdapter( Case const& c ) : RcuListBase<L>( c ) {}
        bool supports( int op ) const override { return op != O_UNLINK && op != O_EXTRACT_MIN && op != O_EXTRACT_MAX; }
        Res apply( int op, int key, int tag ) override
        {
            Res r;
            if ( this->common( op, key, r ))
                return r;
            switch ( op ) {
            case O_INSERT:
                r.r = s.insert( Item( key, tag )) ? 1 : 0;
                break;
            case O_INSERT_F: {
                int calls = 0;
                r.r = s.insert( Item( key, tag ), [&]( Item& it ) { ++calls; cdsverif::point(); r.key = it.key; if ( it.tag != tag ) fail( "insert functor received a foreign item" ); } ) ? 1 : 0;
                r.fcalls = calls;
                break;
            }
            case O_UPDATE:
            case O_UPDATE_NOINS: {
                int calls = 0;
                std::pair<bool, bool> p = s.update( Item( key, tag ), [&]( bool bNew, Item& it, Item const& ) {
                    ++calls; cdsverif::point();
                    r.fnew = bNew ? 1 : 0;
                    observe( r, it );
                }, op == O_UPDATE );
                r.fcalls = calls;
                r.r = !p.first ? 0 : p.second ? 2 : 1;
                if ( r.r == 2 ) {
                    if ( calls && r.tag != tag )
                        fail( "update functor (bNew) received a foreign item" );
                    r.tag = tag;
                }
                break;
            }
            case O_EMPLACE:
                r.r = s.emplace( key, tag ) ? 1 : 0;
                break;
            default:
                r.unsupported = true;
                break;
            }
            return r;
        }
    };

    // ---- container::MichaelKVList / LazyKVList <RCU, int, Mapped> -----------------------------------
    template <typename L>
    struct RcuKVAdapter : RcuListBase<L> {
        using RcuListBase<L>::s;
        explicit RcuKVAdapter( Case const& c ) : RcuListBase<L>( c ) {}
        bool supports( int op ) const override { return op != O_UNLINK && op != O_EXTRACT_MIN && op != O_EXTRACT_MAX; }
        Res apply( int op, int key, int tag ) override
        {
            Res r;
            if ( this->common( op, key, r ))
                return r;
            switch ( op ) {
            case O_INSERT:
                r.r = s.insert( key, Mapped( tag )) ? 1 : 0;
                break;
            case O_INSERT_F: {
                int calls = 0;
                r.r = s.insert_with( key, [&]( KV& p ) {
                    ++calls; cdsverif::point();
                    r.key = p.first;
                    if ( p.second.tag != 0 )
                        fail( "insert_with functor received an item that is not the fresh one" );
                    p.second.tag = tag;
                } ) ? 1 : 0;
                r.fcalls = calls;
                break;
            }
            case O_UPDATE:
            case O_UPDATE_NOINS: {
                int calls = 0;
                std::pair<bool, bool> p = s.update( key, [&]( bool bNew, KV& kv ) {
                    ++calls; cdsverif::point();
                    r.fnew = bNew ? 1 : 0;
                    if ( bNew ) {
                        if ( kv.second.tag != 0 )
                            fail( "update functor (bNew) received an item that is not the fresh one" );
                        kv.second.tag = tag;
                    }
                    observe( r, kv );
                }, op == O_UPDATE );
                r.fcalls = calls;
                r.r = !p.first ? 0 : p.second ? 2 : 1;
                if ( r.r == 2 )
                    r.tag = tag;
                break;
            }
            case O_EMPLACE:
                r.r = s.emplace( key, tag ) ? 1 : 0;
                break;
            default:
                r.unsupported = true;
                break;
            }
            return r;
        }
    };

    // ---- intrusive::MichaelList / LazyList <RCU, node> ------------------------------------------------
    template <typename L>
    struct RcuIntrusiveAdapter : RcuListBase<L> {
        using RcuListBase<L>::s;
        typedef typename L::value_type N;
        typedef typename L::rcu_lock rcu_lock;
        explicit RcuIntrusiveAdapter( Case const& c ) : RcuListBase<L>( c ) { exempt_nodes().clear(); }

        static N* make_node( int key, int tag )
        {
            N* n = new N;
            n->ikey = key;
            n->itag = tag;
            n->id = registry().add();
            return n;
        }
        // the node was never linked: it stays ours
        static void discard( N* n )
        {
            registry().drop( n->id );
            delete n;
        }

        bool supports( int op ) const override { return op != O_EMPLACE && op != O_EXTRACT_MIN && op != O_EXTRACT_MAX; }
        Res apply( int op, int key, int tag ) override
        {
            Res r;
            if ( this->common( op, key, r ))
                return r;
            switch ( op ) {
            case O_INSERT: {
                N* n = make_node( key, tag );
                r.r = s.insert( *n ) ? 1 : 0;
                if ( !r.r )
                    discard( n );
                break;
            }
            case O_INSERT_F: {
                N* n = make_node( key, tag );
                int calls = 0;
                r.r = s.insert( *n, [&]( N& it ) { ++calls; cdsverif::point(); r.key = it.ikey; if ( &it != n ) fail( "insert functor received a foreign item" ); } ) ? 1 : 0;
                r.fcalls = calls;
                if ( !r.r )
                    discard( n );
                break;
            }
            case O_UPDATE:
            case O_UPDATE_NOINS: {
                N* n = make_node( key, tag );
                int calls = 0;
                std::pair<bool, bool> p = s.update( *n, [&]( bool bNew, N& it, N& val ) {
                    ++calls; cdsverif::point();
                    r.fnew = bNew ? 1 : 0;
                    if ( &val != n )
                        fail( "update functor: third argument is not the update() argument" );
                    if ( bNew && &it != n )
                        fail( "update functor (bNew): item and val differ" );
                    observe( r, it );
                }, op == O_UPDATE );
                r.fcalls = calls;
                r.r = !p.first ? 0 : p.second ? 2 : 1;
                if ( r.r == 2 )
                    r.tag = tag;
                else
                    discard( n );
                break;
            }
            case O_UNLINK: {
                // find the current item of the key under the lock, then ask the list to unlink exactly that object
                N* p = nullptr;
                typename L::raw_ptr rp{};
                {
                    rcu_lock l;
                    rp = s.get( key );
                    if ( rp ) {
                        p = &*rp;
                        observe( r, *p );
                        hold_and_check( payload( *p ), this->hold );
                    }
                }
                release_raw( rp );
                if ( !p ) {
                    r.r = 2;
                    break;
                }
                cdsverif::point();
                // from here on the item may have been removed (and disposed = buried) by somebody else: unlink must then return false
                // the comparators see the NodeData sub-object (not the first base of a base-hook node)
                void const* pData = static_cast<NodeData const*>( &*p );
                exempt_nodes().push_back( pData );
                r.r = s.unlink( *p ) ? 1 : 0;
                for ( size_t i = 0; i < exempt_nodes().size(); ++i )
                    if ( exempt_nodes()[i] == pData ) {
                        exempt_nodes().erase( exempt_nodes().begin() + long( i ));
                        break;
                    }
                break;
            }
            default:
                r.unsupported = true;
                break;
            }
            return r;
        }
    };

    // ---- nogc: insert-only lists ----------------------------------------------------------------------
    template <typename L>
    struct NogcBase : AdapterBase {
        L s;
        int hold;
        explicit NogcBase( Case const& c ) : hold( cfg_at( c, 2, 0 )) { counters() = OpCounters(); }
        bool supports( int op ) const override
        {
            switch ( op ) {
            case O_INSERT: case O_UPDATE: case O_UPDATE_NOINS: case O_FIND_F: case O_CONTAINS:
                return true;
            default:
                return false;
            }
        }
        static void count_insert( bool ok ) { ++( ok ? counters().ins_ok : counters().ins_fail ); }
        static void count_find( bool ok ) { ++( ok ? counters().find_hit : counters().find_miss ); }
        bool has_counter() const override { return counted<L>(); }
        size_t size() const override { return s.size(); }
        bool empty() const override { return s.empty(); }
        bool traverse( std::vector<int>& keys ) override
        {
            for ( auto it = s.begin(); it != s.end(); ++it )
                keys.push_back( key_of( *it ));
            return true;
        }
        void check_structure( bool had_removals ) override
        {
            if ( had_removals )
                fail( "harness error: a removal was recorded on an insert-only list" );
            if (( s.begin() == s.end()) != s.empty())
                fail( "begin() == end() disagrees with empty() at a quiescent point" );
        }
    };

    // value containers and kv lists: iterators. KVOps selects the key-value spelling of the operations.
    template <typename L, bool KVOps>
    struct NogcIterAdapter : NogcBase<L> {
        using NogcBase<L>::s;
        using NogcBase<L>::hold;
        explicit NogcIterAdapter( Case const& c ) : NogcBase<L>( c ) {}
        bool supports( int op ) const override
        {
            return NogcBase<L>::supports( op ) || op == O_EMPLACE || ( KVOps && op == O_INSERT_F );
        }

        template <typename It>
        void inserted( Res& r, It it, int key, int tag )
        {
            r.r = it != s.end() ? 1 : 0;
            this->count_insert( r.r != 0 );
            if ( r.r ) {
                if ( key_of( *it ) != key || ( tag && tag_of( *it ) != tag ))
                    fail( "insert returned an iterator to a different item" );
                hold_and_check( payload( *it ), hold );
            }
        }

        template <bool B = KVOps>
        typename std::enable_if<!B>::type modify( int op, int key, int tag, Res& r )
        {
            switch ( op ) {
            case O_INSERT:
                inserted( r, s.insert( Item( key, tag )), key, tag );
                break;
            case O_EMPLACE:
                inserted( r, s.emplace( key, tag ), key, tag );
                break;
            default: {
                auto p = s.update( Item( key, tag ), op == O_UPDATE );
                finish_update( r, p, key, tag );
                break;
            }
            }
        }
        template <bool B = KVOps>
        typename std::enable_if<B>::type modify( int op, int key, int tag, Res& r )
        {
            switch ( op ) {
            case O_INSERT:
                inserted( r, s.insert( key, Mapped( tag )), key, tag );
                break;
            case O_EMPLACE:
                inserted( r, s.emplace( key, tag ), key, tag );
                break;
            case O_INSERT_F: {
                int calls = 0;
                auto it = s.insert_with( key, [&]( KV& p ) {
                    ++calls; cdsverif::point();
                    r.key = p.first;
                    if ( p.second.tag != 0 )
                        fail( "insert_with functor received an item that is not the fresh one" );
                    p.second.tag = tag;
                } );
                inserted( r, it, key, tag );
                r.fcalls = calls;
                break;
            }
            default: {
                auto p = s.update( key, op == O_UPDATE );
                if ( p.second && p.first != s.end()) {
                    // update() has no functor: the caller initialises the fresh (default constructed) value
                    if ( p.first->second.tag != 0 )
                        fail( "update reported an insertion but returned an iterator to an initialised item" );
                    p.first->second.tag = tag;
                }
                finish_update( r, p, key, tag );
                break;
            }
            }
        }

        template <typename P>
        void finish_update( Res& r, P const& p, int key, int tag )
        {
            bool found = p.first != s.end();
            if ( p.second && !found )
                fail( "update reported an insertion but returned end()" );
            r.r = p.second ? 2 : found ? 1 : 0;
            if ( found ) {
                if ( key_of( *p.first ) != key )
                    fail( "update returned an iterator to an item with a different key" );
                r.key = key;
                r.tag = tag_of( *p.first );
                if ( r.r == 2 && r.tag != tag )
                    fail( "update reported an insertion but the iterator does not denote the new item" );
                hold_and_check( payload( *p.first ), hold );
            }
            if ( r.r == 2 )
                r.tag = tag;
            this->count_insert( r.r == 2 );
        }

        Res apply( int op, int key, int tag ) override
        {
            Res r;
            switch ( op ) {
            case O_FIND_F:
            case O_CONTAINS: {
                auto it = s.contains( key );
                if ( it != s.end()) {
                    r.r = 1;
                    observe( r, *it );
                    if ( op == O_FIND_F )
                        hold_and_check( payload( *it ), hold );
                }
                this->count_find( r.r != 0 );
                break;
            }
            case O_INSERT: case O_EMPLACE: case O_UPDATE: case O_UPDATE_NOINS:
                modify( op, key, tag, r );
                break;
            case O_INSERT_F:
                if ( KVOps ) {
                    modify( op, key, tag, r );
                    break;
                }
                // fall through
            default:
                r.unsupported = true;
                break;
            }
            return r;
        }
    };

    // intrusive nogc: insert(val), update(val, f, allow), find(key, f), contains(key) -> value_type*
    template <typename L>
    struct NogcIntrusiveAdapter : NogcBase<L> {
        using NogcBase<L>::s;
        using NogcBase<L>::hold;
        typedef typename L::value_type N;
        explicit NogcIntrusiveAdapter( Case const& c ) : NogcBase<L>( c ) { exempt_nodes().clear(); }

        static N* make_node( int key, int tag )
        {
            N* n = new N;
            n->ikey = key;
            n->itag = tag;
            n->id = registry().add();
            return n;
        }
        static void discard( N* n )
        {
            registry().drop( n->id );
            delete n;
        }

        Res apply( int op, int key, int tag ) override
        {
            Res r;
            switch ( op ) {
            case O_INSERT: {
                N* n = make_node( key, tag );
                r.r = s.insert( *n ) ? 1 : 0;
                this->count_insert( r.r != 0 );
                if ( !r.r )
                    discard( n );
                break;
            }
            case O_UPDATE:
            case O_UPDATE_NOINS: {
                N* n = make_node( key, tag );
                int calls = 0;
                std::pair<bool, bool> p = s.update( *n, [&]( bool bNew, N& it, N& val ) {
                    ++calls; cdsverif::point();
                    r.fnew = bNew ? 1 : 0;
                    if ( &val != n )
                        fail( "update functor: third argument is not the update() argument" );
                    if ( bNew && &it != n )
                        fail( "update functor (bNew): item and val differ" );
                    observe( r, it );
                }, op == O_UPDATE );
                r.fcalls = calls;
                r.r = !p.first ? 0 : p.second ? 2 : 1;
                this->count_insert( r.r == 2 );
                if ( r.r == 2 )
                    r.tag = tag;
                else
                    discard( n );
                break;
            }
            case O_FIND_F: {
                int calls = 0;
                N* seen = nullptr;
                r.r = s.find( key, [&]( N& it, auto const&... ) { ++calls; cdsverif::point(); observe( r, it ); seen = &it; } ) ? 1 : 0;
                r.fcalls = calls;
                if ( seen )
                    hold_and_check( payload( *seen ), hold );    // nothing is ever disposed before the list dies
                this->count_find( r.r != 0 );
                break;
            }
            case O_CONTAINS: {
                N* p = s.contains( key );
                if ( p ) {
                    r.r = 1;
                    observe( r, *p );
                }
                this->count_find( r.r != 0 );
                break;
            }
            default:
                r.unsupported = true;
                break;
            }
            return r;
        }
    };

    // ---- variant table -------------------------------------------------------------------------------
    template <typename A>
    AdapterBase* mk( Case const& c ) { return new A( c ); }

#define LR_RCU4( PFX, KIND, ADAPT, TYPE_OF, T0, T1, T2, T3, N0, N1, N2, N3 ) \
    { PFX "_GPI_" N0, GC_GPI, 0, &mk<ADAPT<TYPE_OF( RCU_GPI, T0 )>>, true }, \
    { PFX "_GPB_" N1, GC_GPB, 0, &mk<ADAPT<TYPE_OF( RCU_GPB, T1 )>>, true }, \
    { PFX "_GPT_" N2, GC_GPT, 0, &mk<ADAPT<TYPE_OF( RCU_GPT, T2 )>>, true }, \
    { PFX "_SHB_" N3, GC_SHB, 0, &mk<ADAPT<TYPE_OF( RCU_SHB, T3 )>>, true }

#define LR_ML( GC, TR ) cc::MichaelList<GC, Item, ml_traits<TR>>
#define LR_LL( GC, TR ) cc::LazyList<GC, Item, ll_traits<TR>>
#define LR_MKV( GC, TR ) cc::MichaelKVList<GC, int, Mapped, ml_traits<TR>>
#define LR_LKV( GC, TR ) cc::LazyKVList<GC, int, Mapped, ll_traits<TR>>
#define LR_MI( GC, TR ) typename mi_types<GC, TR, ( TR == TR_CMP )>::list
#define LR_LI( GC, TR ) typename li_types<GC, TR, ( TR == TR_CMP_IC )>::list

    template <typename L> using NogcSet = NogcIterAdapter<L, false>;
    template <typename L> using NogcKV = NogcIterAdapter<L, true>;

    // traits names: less|cmp, ic = item counter; Michael: cmp -> back-off yield, cmp_ic -> seq_cst memory model, less -> empty back-off;
    // Lazy: less -> std::mutex node lock, cmp_ic -> seq_cst memory model; intrusive: "mh" = member hook (otherwise base hook)
    static const MapVariant kListsRcuVariants[] = {
        LR_RCU4( "MichaelList", 0, RcuSetAdapter, LR_ML, TR_LESS_IC, TR_CMP, TR_CMP_IC, TR_LESS, "less_ic", "cmp_boYield", "cmp_ic_sc", "less_boEmpty" ),
        { "MichaelList_NOGC_cmp_ic_sc", GC_NOGC, 0, &mk<NogcSet<LR_ML( NOGC, TR_CMP_IC )>>, true },
        LR_RCU4( "LazyList", 1, RcuSetAdapter, LR_LL, TR_CMP, TR_CMP_IC, TR_LESS, TR_LESS_IC, "cmp", "cmp_ic_sc", "less_mutex", "less_ic" ),
        { "LazyList_NOGC_less_ic", GC_NOGC, 0, &mk<NogcSet<LR_LL( NOGC, TR_LESS_IC )>>, true },
        LR_RCU4( "MichaelKVList", 2, RcuKVAdapter, LR_MKV, TR_CMP_IC, TR_LESS, TR_LESS_IC, TR_CMP, "cmp_ic_sc", "less_boEmpty", "less_ic", "cmp_boYield" ),
        { "MichaelKVList_NOGC_less_ic", GC_NOGC, 0, &mk<NogcKV<LR_MKV( NOGC, TR_LESS_IC )>>, true },
        LR_RCU4( "LazyKVList", 3, RcuKVAdapter, LR_LKV, TR_LESS, TR_LESS_IC, TR_CMP, TR_CMP_IC, "less_mutex", "less_ic", "cmp", "cmp_ic_sc" ),
        { "LazyKVList_NOGC_cmp", GC_NOGC, 0, &mk<NogcKV<LR_LKV( NOGC, TR_CMP )>>, true },
        LR_RCU4( "iMichaelList", 4, RcuIntrusiveAdapter, LR_MI, TR_LESS_IC, TR_CMP, TR_CMP_IC, TR_LESS, "less_ic", "cmp_boYield_mh", "cmp_ic_sc", "less_boEmpty" ),
        { "iMichaelList_NOGC_cmp_boYield_mh", GC_NOGC, 0, &mk<NogcIntrusiveAdapter<LR_MI( NOGC, TR_CMP )>>, true },
        LR_RCU4( "iLazyList", 5, RcuIntrusiveAdapter, LR_LI, TR_CMP, TR_CMP_IC, TR_LESS, TR_LESS_IC, "cmp", "cmp_ic_sc_mh", "less_mutex", "less_ic" ),
        { "iLazyList_NOGC_cmp_ic_sc_mh", GC_NOGC, 0, &mk<NogcIntrusiveAdapter<LR_LI( NOGC, TR_CMP_IC )>>, true },
    };
    static const size_t kListsRcuCount = sizeof( kListsRcuVariants ) / sizeof( kListsRcuVariants[0] );

    inline bool is_nogc_variant( int v )
    {
        return v >= 0 && size_t( v ) < kListsRcuCount && kListsRcuVariants[v].gc == GC_NOGC;
    }

#undef LR_RCU4
} // namespace fam_lists_rcu

#endif
