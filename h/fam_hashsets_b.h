// C14 part b: SplitListSet / SplitListMap variants: static and expandable bucket tables over MichaelList, LazyList,
// IterableList; HP, DHP, RCU, nogc. The table starts with 2 buckets (bucket 0 initialised) and doubles up to the
// capacity while items are inserted; buckets are initialised lazily (recursively through their parents).
#ifndef CDSVERIF_H_FAM_HASHSETS_B_H
#define CDSVERIF_H_FAM_HASHSETS_B_H

#include "fam_hashsets.h"

#include <cds/container/michael_list_hp.h>
#include <cds/container/michael_list_dhp.h>
#include <cds/container/michael_list_rcu.h>
#include <cds/container/michael_list_nogc.h>
#include <cds/container/lazy_list_hp.h>
#include <cds/container/lazy_list_dhp.h>
#include <cds/container/lazy_list_rcu.h>
#include <cds/container/lazy_list_nogc.h>
#include <cds/container/iterable_list_hp.h>
#include <cds/container/iterable_list_dhp.h>
#include <cds/container/split_list_set.h>
#include <cds/container/split_list_set_rcu.h>
#include <cds/container/split_list_set_nogc.h>
#include <cds/container/split_list_map.h>
#include <cds/container/split_list_map_rcu.h>
#include <cds/container/split_list_map_nogc.h>

namespace fam_hashsets {
    namespace cc = cds::container;

    // split-list traits: LIST tag, ordered-list traits base, comparator, dynamic table yes/no, statistics yes/no
    template <typename ListTag, typename ListTraits, typename Cmp, bool UseLess, bool Dynamic, bool Stat>
    struct b_traits;

    template <typename ListTag, typename ListTraits, typename Cmp, bool Dynamic, bool Stat>
    struct b_traits<ListTag, ListTraits, Cmp, false, Dynamic, Stat> : cc::split_list::traits {
        typedef ListTag ordered_list;
        typedef KeyHash hash;
        enum { dynamic_bucket_table = Dynamic };
        typedef typename std::conditional<Stat, cc::split_list::stat<>, cc::split_list::empty_stat>::type stat;
        struct ordered_list_traits : ListTraits {
            typedef Cmp compare;
        };
    };
    template <typename ListTag, typename ListTraits, typename Cmp, bool Dynamic, bool Stat>
    struct b_traits<ListTag, ListTraits, Cmp, true, Dynamic, Stat> : cc::split_list::traits {
        typedef ListTag ordered_list;
        typedef KeyHash hash;
        enum { dynamic_bucket_table = Dynamic };
        typedef typename std::conditional<Stat, cc::split_list::stat<>, cc::split_list::empty_stat>::type stat;
        struct ordered_list_traits : ListTraits {
            typedef Cmp less;
        };
    };

    typedef cc::michael_list_tag b_ML;
    typedef cc::lazy_list_tag b_LL;
    typedef cc::iterable_list_tag b_IL;
    typedef cc::michael_list::traits b_MLT;
    typedef cc::lazy_list::traits b_LLT;
    typedef cc::iterable_list::traits b_ILT;

#define B_SET( NAME, GC, TAG, LTR, CMP, USELESS, DYN, STAT ) \
    typedef SplitProbe<cc::SplitListSet<GC, Item, b_traits<TAG, LTR, CMP, USELESS, DYN, STAT>>> NAME
    //              name          gc             list  list traits comparator  less?  dynamic stat
    B_SET( BS_HP_ML_dyn, HP, b_ML, b_MLT, ItemCmp, false, true, true );
    B_SET( BS_HP_ML_st, HP, b_ML, b_MLT, ItemLess, true, false, true );
    B_SET( BS_DHP_ML_dyn, DHP, b_ML, b_MLT, ItemLess, true, true, false );
    B_SET( BS_HP_LL_dyn, HP, b_LL, b_LLT, ItemLess, true, true, true );
    B_SET( BS_DHP_LL_st, DHP, b_LL, b_LLT, ItemCmp, false, false, true );
    B_SET( BS_HP_IL_dyn, HP, b_IL, b_ILT, ItemCmp, false, true, true );
    B_SET( BS_DHP_IL_st, DHP, b_IL, b_ILT, ItemLess, true, false, true );
    B_SET( BS_HP_IL_st, HP, b_IL, b_ILT, ItemLess, true, false, false );
    B_SET( BS_GPB_ML_dyn, RCU_GPB, b_ML, b_MLT, ItemCmp, false, true, true );
    B_SET( BS_GPB_LL_st, RCU_GPB, b_LL, b_LLT, ItemLess, true, false, true );
    B_SET( BS_GPI_ML_st, RCU_GPI, b_ML, b_MLT, ItemLess, true, false, true );
    B_SET( BS_GPT_LL_dyn, RCU_GPT, b_LL, b_LLT, ItemCmp, false, true, true );
    B_SET( BS_SHB_ML_dyn, RCU_SHB, b_ML, b_MLT, ItemCmp, false, true, false );
    B_SET( BS_NOGC_ML_dyn, cds::gc::nogc, b_ML, b_MLT, ItemCmp, false, true, true );
    B_SET( BS_NOGC_LL_st, cds::gc::nogc, b_LL, b_LLT, ItemLess, true, false, true );
#undef B_SET

#define B_MAP( NAME, GC, TAG, LTR, CMP, USELESS, DYN, STAT ) \
    typedef SplitProbe<cc::SplitListMap<GC, int, MVal, b_traits<TAG, LTR, CMP, USELESS, DYN, STAT>>> NAME
    B_MAP( BM_HP_ML_dyn, HP, b_ML, b_MLT, ItemCmp, false, true, true );
    B_MAP( BM_DHP_LL_st, DHP, b_LL, b_LLT, std::less<int>, true, false, true );
    B_MAP( BM_HP_IL_dyn, HP, b_IL, b_ILT, ItemCmp, false, true, true );
    B_MAP( BM_GPB_ML_st, RCU_GPB, b_ML, b_MLT, std::less<int>, true, false, true );
    B_MAP( BM_GPI_LL_dyn, RCU_GPI, b_LL, b_LLT, ItemCmp, false, true, true );
    B_MAP( BM_NOGC_ML_dyn, cds::gc::nogc, b_ML, b_MLT, ItemCmp, false, true, true );
#undef B_MAP

#define B_G( NAME, GCK, T, ... ) { NAME, GCK, T::c_nHazardPtrCount + 3, &mk_split<__VA_ARGS__>, false }
#define B_N( NAME, GCK, ... ) { NAME, GCK, 0, &mk_split<__VA_ARGS__>, false }
    static const MapVariant kHashsetsBVariants[] = {
        B_G( "SplitSet_HP_MichaelList_dyn_cmp_stat", GC_HP, BS_HP_ML_dyn, GSetAd<BS_HP_ML_dyn, L_STD, SplitHooks> ),
        B_G( "SplitSet_HP_MichaelList_static_less_stat", GC_HP, BS_HP_ML_st, GSetAd<BS_HP_ML_st, L_STD, SplitHooks> ),
        B_G( "SplitSet_DHP_MichaelList_dyn_less", GC_DHP, BS_DHP_ML_dyn, GSetAd<BS_DHP_ML_dyn, L_STD, SplitHooks> ),
        B_G( "SplitSet_HP_LazyList_dyn_less_stat", GC_HP, BS_HP_LL_dyn, GSetAd<BS_HP_LL_dyn, L_STD, SplitHooks> ),
        B_G( "SplitSet_DHP_LazyList_static_cmp_stat", GC_DHP, BS_DHP_LL_st, GSetAd<BS_DHP_LL_st, L_STD, SplitHooks> ),
        B_G( "SplitSet_HP_IterableList_dyn_cmp_stat", GC_HP, BS_HP_IL_dyn, GSetAd<BS_HP_IL_dyn, L_ITERABLE, SplitHooks> ),
        B_G( "SplitSet_DHP_IterableList_static_less_stat", GC_DHP, BS_DHP_IL_st, GSetAd<BS_DHP_IL_st, L_ITERABLE, SplitHooks> ),
        B_G( "SplitSet_HP_IterableList_static_less", GC_HP, BS_HP_IL_st, GSetAd<BS_HP_IL_st, L_ITERABLE, SplitHooks> ),
        B_N( "SplitSet_GPB_MichaelList_dyn_cmp_stat", GC_GPB, RSetAd<BS_GPB_ML_dyn, SplitHooks> ),
        B_N( "SplitSet_GPB_LazyList_static_less_stat", GC_GPB, RSetAd<BS_GPB_LL_st, SplitHooks> ),
        B_N( "SplitSet_GPI_MichaelList_static_less_stat", GC_GPI, RSetAd<BS_GPI_ML_st, SplitHooks> ),
        B_N( "SplitSet_GPT_LazyList_dyn_cmp_stat", GC_GPT, RSetAd<BS_GPT_LL_dyn, SplitHooks> ),
        B_N( "SplitSet_SHB_MichaelList_dyn_cmp", GC_SHB, RSetAd<BS_SHB_ML_dyn, SplitHooks> ),
        B_N( "SplitSet_nogc_MichaelList_dyn_stat", GC_NOGC, NSetAd<BS_NOGC_ML_dyn, SplitHooks> ),
        B_N( "SplitSet_nogc_LazyList_static_stat", GC_NOGC, NSetAd<BS_NOGC_LL_st, SplitHooks> ),
        B_G( "SplitMap_HP_MichaelList_dyn_cmp_stat", GC_HP, BM_HP_ML_dyn, GMapAd<BM_HP_ML_dyn, L_STD, SplitHooks> ),
        B_G( "SplitMap_DHP_LazyList_static_less_stat", GC_DHP, BM_DHP_LL_st, GMapAd<BM_DHP_LL_st, L_STD, SplitHooks> ),
        B_G( "SplitMap_HP_IterableList_dyn_cmp_stat", GC_HP, BM_HP_IL_dyn, GMapAd<BM_HP_IL_dyn, L_ITERABLE, SplitHooks> ),
        B_N( "SplitMap_GPB_MichaelList_static_less_stat", GC_GPB, RMapAd<BM_GPB_ML_st, SplitHooks> ),
        B_N( "SplitMap_GPI_LazyList_dyn_cmp_stat", GC_GPI, RMapAd<BM_GPI_LL_dyn, SplitHooks> ),
        B_N( "SplitMap_nogc_MichaelList_dyn_stat", GC_NOGC, NMapAd<BM_NOGC_ML_dyn, SplitHooks> ),
    };
#undef B_G
#undef B_N
    static const size_t kHashsetsBCount = sizeof( kHashsetsBVariants ) / sizeof( kHashsetsBVariants[0] );
} // namespace fam_hashsets

#endif
