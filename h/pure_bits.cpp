// C25: bit-manipulation helpers are correct for every input.
//   cds/algo/bit_reversal.h (swar, lookup, muldiv; 32/64 bit), cds/algo/bitop.h + generic and amd64
//   back ends, cds/algo/int_algo.h, cds/algo/split_bitstring.h (split_bitstring, byte_splitter,
//   number_splitter). Sequential harness, no scheduler. Oracles: naive bit-loop references,
//   involution, cross-agreement, a reference cursor over the little-endian byte image of a source.
//
// Decoding of a program (one thread). a, b are in 0..2^31-2.
//   top:a          register for the following 64-bit raw ops: bits 0-1 -> bits 62-63 of the value,
//                  bit 2 -> invert the 31 bits taken from a, bit 3 -> invert the 31 bits taken from b
//   w:a:b          appends (width a, action b: 0 cut / 1 safe_cut) to the pending explicit width list,
//                  which the next splitter op consumes before it continues with its PRNG plan
//   rev32/bitop32  x = decode32(a,b): b bit0 = bit 31, (b>>1)&7 = 0 raw, 1 ~raw, 2.. structured
//   rev64/bitop64/intalgo      x = a | b<<31 | top bits (raw)
//   rev64s/bitop64s/intalgos   structured 64-bit value: single/double bit, 2^k, 2^k+-1, replicated bytes ...
//   bitsplit / bytesplit / bytesplit_safecut_tail:  a%8 source kind, a/8 source value selector,
//                  b bit0 start-offset constructor, (b>>1)&3 plan mode, (b>>3)&3 result type, b>>5 PRNG seed
//   numsplit / numsplit_wide:  a%8 integer type, a/8 value selector, b as above
// Known-defect shapes have their own ops: numsplit_wide (cuts of >= 31 bits) and
// bytesplit_safecut_tail (byte_splitter::safe_cut asking for >= the remaining bits).
#include "pure_bits_split.h"

using namespace cdsverif;
using namespace pb;

namespace {

    enum {
        OP_TOP, OP_W, OP_REV32, OP_REV64, OP_REV64S, OP_BITOP32, OP_BITOP64, OP_BITOP64S, OP_INTALGO, OP_INTALGOS,
        OP_BITSPLIT, OP_BYTESPLIT, OP_NUMSPLIT, OP_NUMSPLIT_WIDE, OP_BYTESPLIT_TAIL, OP_COUNT
    };
    constexpr int kArgMax = 0x7ffffffe;      // the drivers compute amax + 1 in int

    // ---- value decoders ----------------------------------------------------------------------
    uint32_t decode32( int a, int b )
    {
        const uint32_t ua = uint32_t( a ), ub = uint32_t( b );
        const uint32_t raw = ua | (( ub & 1 ) << 31 );
        uint32_t x;
        switch (( ub >> 1 ) & 7 ) {
        case 0: return raw;
        case 1: return ~raw;
        case 2: x = uint32_t( 1 ) << ( ua & 31 ); break;
        case 3: x = ( uint32_t( 1 ) << ( ua & 31 )) | ( uint32_t( 1 ) << (( ua >> 5 ) & 31 )); break;
        case 4: x = ( ua & 0xff ) * 0x01010101u; break;
        case 5: x = ( uint32_t( 1 ) << ( ua & 31 )) - 1; break;
        case 6: x = ( uint32_t( 1 ) << ( ua & 31 )) + 1; break;
        default: x = ( ua & 0xff ) << ( 8 * (( ua >> 8 ) & 3 )); break;
        }
        return (( ub >> 4 ) & 1 ) ? ~x : x;
    }

    // inverse of decode32 for the raw modes (used when an enumeration reports a failing input)
    void encode32( uint32_t x, int& a, int& b )
    {
        if (( x & 0x7fffffffu ) != 0x7fffffffu ) {
            a = int( x & 0x7fffffffu );
            b = int( x >> 31 );
        }
        else {
            uint32_t y = ~x;
            a = int( y & 0x7fffffffu );
            b = int(( y >> 31 ) | 2u );
        }
    }

    uint64_t raw64( int a, int b, unsigned top )
    {
        uint64_t lo = uint32_t( a ), mid = uint32_t( b );
        if ( top & 4 )
            lo ^= 0x7fffffffu;
        if ( top & 8 )
            mid ^= 0x7fffffffu;
        return lo | ( mid << 31 ) | ( uint64_t( top & 3 ) << 62 );
    }

    uint64_t structured64( int a, int b )
    {
        const uint32_t ua = uint32_t( a ), ub = uint32_t( b );
        const unsigned kind = ua % 12, p = ( ua / 12 ) % 64, q = ub % 64;
        const uint64_t r = ub / 64;
        const uint64_t one = 1;
        switch ( kind ) {
        case 0: return one << p;
        case 1: return ( one << p ) | ( one << q );
        case 2: return ~( one << p );
        case 3: return ~(( one << p ) | ( one << q ));
        case 4: return ( r & 0xff ) * 0x0101010101010101ull;
        case 5: return ( one << p ) - 1;
        case 6: return ( one << p ) + 1;
        case 7: {   // run of ones of length q+1 starting at bit p (cut at bit 63)
            uint64_t run = q == 63 ? ~uint64_t( 0 ) : (( one << ( q + 1 )) - 1 );
            return run << p;
        }
        case 8: {
            uint64_t s = ( uint64_t( ua ) << 32 ) | ub;
            return splitmix( s );
        }
        case 9: return ( r & 0xffff ) * 0x0001000100010001ull;
        case 10: return 0xaaaaaaaaaaaaaaaaull ^ ( one << p ) ^ (( r & 1 ) ? ~uint64_t( 0 ) : 0 );
        default: return ( r & 0xff ) << ( 8 * ( p % 8 ));
        }
    }

    // ---- program interpreter -------------------------------------------------------------------
    struct Ctx {
        unsigned top = 0;
        std::vector<WStep> pend;
        bool nontrivial = false;
    };

    void do_rev32( uint32_t x ) { check_rev32( x, ref_rev32( x )); }
    void do_rev64( uint64_t x ) { check_rev64( x, ref_rev64( x )); }
    void do_bitop32( uint32_t x, int bit ) { check_bitop32( x, ref_msb( x ), ref_lsb( x ), ref_sbc( x ), ref_rev32( x ), bit & 31 ); }
    void do_bitop64( uint64_t x, int bit ) { check_bitop64( x, ref_msb( x ), ref_lsb( x ), ref_sbc( x ), ref_rev64( x ), bit & 63 ); }
    void do_intalgo( uint64_t x ) { check_intalgo( size_t( x ), ref_msb( x ), ref_sbc( x )); }

    Plan make_plan( Ctx& cx, int b, unsigned cap, unsigned gran )
    {
        Plan pl;
        pl.expl.swap( cx.pend );
        pl.rng = ( uint64_t( uint32_t( b ) >> 5 ) << 8 ) | 0x5b;
        pl.mode = ( b >> 1 ) & 3;
        uint64_t s = pl.rng ^ 0xabcdef;
        unsigned lim = cap < 16 ? cap : 16;
        pl.uniform_w = 1 + unsigned( splitmix( s ) % lim );
        if ( gran == 8 )
            pl.uniform_w = 8 * ( 1 + pl.uniform_w % ( cap / 8 ));
        return pl;
    }
    size_t pick_start( int b, size_t nchoices, size_t gran )
    {
        uint64_t s = ( uint64_t( uint32_t( b )) << 3 ) ^ 0x77;
        return size_t( splitmix( s ) % nchoices ) * gran;
    }

    template <typename UInt>
    void bitsplit_u( int kind, Image const& im, int b, Ctx& cx, const char* uname )
    {
        const unsigned cap = sizeof( UInt ) * 8;
        Plan pl = make_plan( cx, b, cap, 1 );
        Policy po{ 1, cap, cap, 0, true };
        const bool offs = b & 1;
        const size_t start = offs ? pick_start( b, im.bits() + 1, 1 ) : 0;
        std::string who = std::string( "split_bitstring<" ) + kSrcName[kind] + "," + uname + ">";
        dispatch_src<cds::algo::split_bitstring, UInt>( kind, im, start, offs, pl, po, who.c_str());
    }
    void do_bitsplit( int a, int b, Ctx& cx )
    {
        const int kind = a % 8;
        Image im = make_image( kSrcBytes[kind], uint32_t( a ) / 8 );
        cx.nontrivial = cx.nontrivial || !im.trivial();
        switch (( b >> 3 ) & 3 ) {
        case 0: bitsplit_u<unsigned>( kind, im, b, cx, "unsigned" ); break;
        case 2: bitsplit_u<uint16_t>( kind, im, b, cx, "uint16_t" ); break;
        default: bitsplit_u<uint64_t>( kind, im, b, cx, "uint64_t" ); break;
        }
    }

    template <typename UInt>
    void bytesplit_u( int kind, Image const& im, int b, Ctx& cx, bool tail, const char* uname )
    {
        const unsigned cap = sizeof( UInt ) * 8;
        Plan pl = make_plan( cx, b, cap, 8 );
        Policy po{ 8, cap, cap, 0, tail };
        const bool offs = b & 1;
        const size_t start = offs ? pick_start( b, im.bytes.size(), 8 ) : 0;      // the constructor requires !eos()
        std::string who = std::string( "byte_splitter<" ) + kSrcName[kind] + "," + uname + ">";
        dispatch_src<cds::algo::byte_splitter, UInt>( kind, im, start, offs, pl, po, who.c_str());
    }
    void do_bytesplit( int a, int b, Ctx& cx, bool tail )
    {
        const int kind = a % 8;
        Image im = make_image( kSrcBytes[kind], uint32_t( a ) / 8 );
        cx.nontrivial = cx.nontrivial || !im.trivial();
        if (( b >> 3 ) & 1 )
            bytesplit_u<uint64_t>( kind, im, b, cx, tail, "uint64_t" );
        else
            bytesplit_u<unsigned>( kind, im, b, cx, tail, "unsigned" );
    }

    template <typename T>
    void numsplit_t( uint32_t sv, int b, Ctx& cx, bool wide, const char* tname )
    {
        const unsigned bits = sizeof( T ) * 8;
        Image im = make_image( sizeof( T ), sv );
        cx.nontrivial = cx.nontrivial || !im.trivial();
        const bool offs = b & 1;
        const size_t start = offs ? pick_start( b, bits, 1 ) % ( wide ? 8 : bits ) : 0;
        std::string who = std::string( "number_splitter<" ) + tname + ">";
        if ( !wide ) {
            Plan pl = make_plan( cx, b, bits, 1 );
            Policy po{ 1, bits, 30, 0, true };
            run_number<cds::algo::number_splitter<T>, T>( im, start, offs, pl, po, who.c_str());
            return;
        }
        Policy po{ 1, bits, bits, 31, true };
        Plan pl = make_plan( cx, b, bits, 1 );
        if ( pl.mode == 1 )
            pl.mode = 0;
        Plan pl2 = pl;
        // 1. copy of the header compiled without UBSan: are the delivered values right?
        std::string who1 = who + " (copy compiled without UBSan)";
        if ( !run_number<pb_nosan::cds::algo::number_splitter<T>, T>( im, start, offs, pl, po, who1.c_str()))
            return;
        // 2. the instrumented original: any remaining UB in the mask computation aborts here
        run_number<cds::algo::number_splitter<T>, T>( im, start, offs, pl2, po, who.c_str());
    }
    void do_numsplit( int a, int b, Ctx& cx )
    {
        const uint32_t sv = uint32_t( a ) / 8;
        switch ( a % 8 ) {
        case 0: numsplit_t<uint8_t>( sv, b, cx, false, "uint8_t" ); break;
        case 1: numsplit_t<uint16_t>( sv, b, cx, false, "uint16_t" ); break;
        case 2: numsplit_t<uint32_t>( sv, b, cx, false, "uint32_t" ); break;
        case 3: numsplit_t<uint64_t>( sv, b, cx, false, "uint64_t" ); break;
        case 4: numsplit_t<short>( sv, b, cx, false, "short" ); break;
        case 5: numsplit_t<int>( sv, b, cx, false, "int" ); break;
        case 6: numsplit_t<long>( sv, b, cx, false, "long" ); break;
        default: numsplit_t<long long>( sv, b, cx, false, "long long" ); break;
        }
    }
    void do_numsplit_wide( int a, int b, Ctx& cx )
    {
        const uint32_t sv = uint32_t( a ) / 8;
        switch ( a % 8 ) {
        case 0: numsplit_t<uint32_t>( sv, b, cx, true, "uint32_t" ); break;
        case 2: numsplit_t<int>( sv, b, cx, true, "int" ); break;
        case 3: numsplit_t<long>( sv, b, cx, true, "long" ); break;
        case 4: numsplit_t<long long>( sv, b, cx, true, "long long" ); break;
        case 5: numsplit_t<unsigned long long>( sv, b, cx, true, "unsigned long long" ); break;
        default: numsplit_t<uint64_t>( sv, b, cx, true, "uint64_t" ); break;
        }
    }

    void exec_op( Op const& op, Ctx& cx )
    {
        switch ( op.code ) {
        case OP_TOP: cx.top = unsigned( op.a ) & 15; break;
        case OP_W:
            if ( cx.pend.size() < 200 )
                cx.pend.push_back( WStep{ unsigned( op.a ) > 64 ? 64u : unsigned( op.a ), op.b & 1 } );
            break;
        case OP_REV32: {
            uint32_t x = decode32( op.a, op.b );
            cx.nontrivial = cx.nontrivial || ( x != 0 && x != ~uint32_t( 0 ));
            do_rev32( x );
            break;
        }
        case OP_BITOP32: {
            uint32_t x = decode32( op.a, op.b );
            cx.nontrivial = cx.nontrivial || ( x != 0 && x != ~uint32_t( 0 ));
            do_bitop32( x, op.b >> 5 );
            break;
        }
        case OP_REV64: case OP_REV64S: case OP_BITOP64: case OP_BITOP64S: case OP_INTALGO: case OP_INTALGOS: {
            const bool st = op.code == OP_REV64S || op.code == OP_BITOP64S || op.code == OP_INTALGOS;
            uint64_t x = st ? structured64( op.a, op.b ) : raw64( op.a, op.b, cx.top );
            cx.nontrivial = cx.nontrivial || ( x != 0 && x != ~uint64_t( 0 ));
            if ( op.code == OP_REV64 || op.code == OP_REV64S )
                do_rev64( x );
            else if ( op.code == OP_BITOP64 || op.code == OP_BITOP64S )
                do_bitop64( x, int(( uint32_t( op.a ) >> 7 ) ^ ( uint32_t( op.b ) >> 11 )));
            else
                do_intalgo( x );
            break;
        }
        case OP_BITSPLIT: do_bitsplit( op.a, op.b, cx ); break;
        case OP_BYTESPLIT: do_bytesplit( op.a, op.b, cx, false ); break;
        case OP_BYTESPLIT_TAIL: do_bytesplit( op.a, op.b, cx, true ); break;
        case OP_NUMSPLIT: do_numsplit( op.a, op.b, cx ); break;
        case OP_NUMSPLIT_WIDE: do_numsplit_wide( op.a, op.b, cx ); break;
        default: break;
        }
    }

    const char* const kClass[OP_COUNT] = { "op_top", "op_w", "op_rev", "op_rev", "op_rev", "op_bitop", "op_bitop", "op_bitop", "op_intalgo", "op_intalgo",
        "op_split_bitstring", "op_byte_splitter", "op_number_splitter", "op_number_splitter_wide", "op_byte_splitter_safecut_tail" };

    // runs a program; returns true when nothing failed
    bool eval_ops( Op const* ops, size_t n, bool& nontrivial, uint64_t& hash, bool classes )
    {
        Ctx cx;
        uint64_t h = 0xc25c25;
        for ( size_t i = 0; i < n; ++i ) {
            Op const& op = ops[i];
            h = hash_mix( hash_mix( hash_mix( h, uint64_t( op.code )), uint64_t( uint32_t( op.a ))), uint64_t( uint32_t( op.b )));
            if ( op.code < 0 || op.code >= OP_COUNT )
                continue;
            if ( op.a < 0 || op.b < 0 )
                continue;
            if ( classes )
                note_class( kClass[op.code] );
            exec_op( op, cx );
        }
        nontrivial = cx.nontrivial;
        hash = h;
        return !failed();
    }
}

namespace cdsverif {
    Schema const& harness_schema()
    {
        static Schema s = []() {
            Schema x;
            x.name = "pure_bits";
            x.variants = { "all" };
            const int M = kArgMax;
            x.ops = {
                { "top", 2, 15, 0 },
                { "w", 6, 64, 1 },
                { "rev32", 6, M, M },
                { "rev64", 6, M, M },
                { "rev64s", 4, M, M },
                { "bitop32", 6, M, M },
                { "bitop64", 6, M, M },
                { "bitop64s", 4, M, M },
                { "intalgo", 5, M, M },
                { "intalgos", 4, M, M },
                { "bitsplit", 8, M, M },
                { "bytesplit", 5, M, M },
                { "numsplit", 7, M, M },
                { "numsplit_wide", 2, M, M },
                { "bytesplit_safecut_tail", 2, M, M },
            };
            x.sequential = true;
            x.min_threads = 1;
            x.max_threads_quick = x.max_threads_thorough = 1;
            x.max_ops_quick = 60;
            x.max_ops_thorough = 120;
            x.max_preempt_quick = x.max_preempt_thorough = 0;
            x.nontrivial_rule = "at least one evaluated input (value, or source bit-string of a splitter op) is neither all-zero nor all-one bits; "
                                "distinct = distinct hashes of the (op code, a, b) sequence";
            return x;
        }();
        return s;
    }

    Verdict run_case( Case const& c )
    {
        case_reset();
        pb::g_bad = false;
        std::vector<Op> all;
        for ( auto const& t : c.prog )
            all.insert( all.end(), t.begin(), t.end());
        bool nt = false;
        uint64_t h = 0;
        eval_ops( all.data(), all.size(), nt, h, true );
        Verdict v;
        v.classes = case_classes();
        v.trace_hash = h;
        v.nontrivial = nt;
        if ( failed()) {
            v.kind = V_FAIL;
            v.msg = fail_msg();
        }
        return v;
    }
}

#include "pure_bits_extra.h"
