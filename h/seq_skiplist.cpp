// C15 (skip-list part) + C18: SkipListSet/Map - sequential differential harness (exact std::map model, exact extract_min/max)
#include "mapcommon_impl.h"
#include "fam_skiplist.h"

using namespace mh;

namespace {
    const MapHarnessConfig kConfig = { "seq_skiplist", fam_skiplist::kSkiplistVariants, fam_skiplist::kSkiplistCount, 7, true, true };
}

namespace cdsverif {
    Schema const& harness_schema()
    {
        static Schema s = make_map_schema( kConfig, { { "levels", 0, 3 } }, fam_skiplist::kSkiplistRule );
        return s;
    }
    Verdict run_case( Case const& c ) { return run_map_case( kConfig, c ); }
}
