// C13 / C20 (sequential differential part): the lists_hp variants, single-threaded, every step compared with an exact std::map model
#include "mapcommon_impl.h"
#include "fam_lists_hp.h"

using namespace mh;

namespace {
    const MapHarnessConfig kConfig = { "seq_lists_hp", fam_lists_hp::kListsHpVariants, fam_lists_hp::kListsHpCount, 7, /*sequential*/ true, /*check_minmax*/ false };
}

namespace cdsverif {
    Schema const& harness_schema()
    {
        static Schema s = make_map_schema( kConfig, {},
            "the program applied an operation to a present key, an operation to an absent key and performed a successful removal" );
        return s;
    }
    Verdict run_case( Case const& c ) { return run_map_case( kConfig, c ); }
}
