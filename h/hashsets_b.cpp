// C14 part b (concurrent): SplitListSet / SplitListMap - see fam_hashsets.h for the cfg layout
#include "mapcommon_impl.h"
#include "fam_hashsets_b.h"

using namespace mh;

namespace {
    const MapHarnessConfig kConfig = { "hashsets_b", fam_hashsets::kHashsetsBVariants, fam_hashsets::kHashsetsBCount, 7, false, false };
}

namespace cdsverif {
    Schema const& harness_schema()
    {
        static Schema s = make_map_schema( kConfig, fam_hashsets::extra_cfg(), fam_hashsets::kRule );
        return s;
    }
    Verdict run_case( Case const& c ) { return run_map_case( kConfig, c ); }
}
