// C11 (part): MSPriorityQueue (intrusive and container): conservation, push-failure rule,
// linearizability to a bounded max-priority queue for histories in which no push overlaps a pop.
#include "common.h"

#include <algorithm>
#include <map>
#include <mutex>
#include <type_traits>

#include <cds/intrusive/mspriority_queue.h>
#include <cds/container/mspriority_queue.h>

namespace hv {
    Registry& registry()
    {
        static Registry r;
        return r;
    }
    Graveyard& graveyard()
    {
        static Graveyard g;
        return g;
    }
}

using namespace hv;
namespace cc = cds::container;
namespace ci = cds::intrusive;

namespace {

    const char* const kOpNames[] = { "push", "pop" };

    long g_live = 0;

    // value: (priority, unique id); ordered by priority only
    struct PV {
        int prio;
        int id;
        PV() : prio( -1 ), id( -1 ) { ++g_live; }
        PV( int p, int i ) : prio( p ), id( i ) { ++g_live; }
        PV( PV const& o ) : prio( o.prio ), id( o.id ) { ++g_live; }
        PV( PV&& o ) noexcept : prio( o.prio ), id( o.id ) { ++g_live; }
        PV& operator=( PV const& ) = default;
        PV& operator=( PV&& ) = default;
        ~PV() { --g_live; }
    };
    struct pv_cmp {
        int operator()( PV const& a, PV const& b ) const { return a.prio < b.prio ? -1 : ( a.prio > b.prio ? 1 : 0 ); }
    };
    struct pv_less {
        bool operator()( PV const& a, PV const& b ) const { return a.prio < b.prio; }
    };

    enum { N_FREE = 0, N_IN = 1, N_POPPED = 2 };
    struct PNode : PV {
        int state = N_FREE;
        uint64_t canary = 0xc0ffee;
        PNode( int p, int i ) : PV( p, i ) {}
    };

    struct PopRes {
        int prio = -1;
        int id = 0;
    };

    struct QStat {
        size_t push_swap = 0, pop_swap = 0, moved_top = 0, moved_up = 0, empty_pass = 0;
        size_t push_ok = 0, pop_ok = 0, push_fail = 0, pop_fail = 0;
    };
    template <typename S>
    QStat read_stat( S const& st )
    {
        QStat s;
        s.push_swap = st.m_nPushHeapifySwapCount.get();
        s.pop_swap = st.m_nPopHeapifySwapCount.get();
        s.moved_top = st.m_nItemMovedTop.get();
        s.moved_up = st.m_nItemMovedUp.get();
        s.empty_pass = st.m_nPushEmptyPass.get();
        s.push_ok = st.m_nPushCount.get();
        s.pop_ok = st.m_nPopCount.get();
        s.push_fail = st.m_nPushFailCount.get();
        s.pop_fail = st.m_nPopFailCount.get();
        return s;
    }

    // ---- adapters -------------------------------------------------------------------------------
    template <typename Q>
    struct IntrPQ {
        std::vector<PNode*> nodes;      // owned by the client, released after the queue is gone
        std::unique_ptr<Q> qp;
        Q& q;
        explicit IntrPQ( size_t cap ) : qp( new Q( cap )), q( *qp ) {}
        ~IntrPQ()
        {
            qp.reset();                 // the destructor of the queue calls clear()
            for ( PNode* n : nodes )
                delete n;
        }
        bool push( int prio, int id, int )
        {
            PNode* n = new PNode( prio, id );
            nodes.push_back( n );
            n->state = N_IN;            // a concurrent pop may return it before push() returns
            bool ok = q.push( *n );
            if ( !ok ) {
                if ( n->state != N_IN )
                    fail( "push reported failure but the item #" + std::to_string( id ) + " was popped" );
                n->state = N_FREE;
            }
            return ok;
        }
        PopRes pop( int )
        {
            PopRes r;
            PNode* p = q.pop();
            if ( !p )
                return r;
            if ( p->canary != 0xc0ffee )
                fail( "popped intrusive item has a bad canary" );
            if ( p->state != N_IN )
                fail( "popped intrusive item #" + std::to_string( p->id ) + " is not in the queue (state " + std::to_string( p->state ) + ")" );
            p->state = N_POPPED;
            r.prio = p->prio;
            r.id = p->id;
            return r;
        }
    };

    template <typename Q>
    struct ValPQ {
        std::unique_ptr<Q> qp;
        Q& q;
        explicit ValPQ( size_t cap ) : qp( new Q( cap )), q( *qp ) {}
        bool push( int prio, int id, int flavour )
        {
            if ( flavour == 1 )
                return q.push_with( [prio, id]( PV& dst ) { dst.prio = prio; dst.id = id; } );
            if ( flavour == 2 )
                return q.emplace( prio, id );
            return q.push( PV( prio, id ));
        }
        PopRes pop( int flavour )
        {
            PopRes r;
            if ( flavour == 1 ) {
                q.pop_with( [&r]( PV& src ) { r.prio = src.prio; r.id = src.id; } );
                return r;
            }
            PV dst;
            if ( q.pop( dst )) {
                r.prio = dst.prio;
                r.id = dst.id;
            }
            return r;
        }
    };

    // ---- oracle (free shape): conservative history invariants -----------------------------------
    CDSVERIF_NOCOV void check_conservation( std::vector<Ev> const& h, size_t first_drain )
    {
        auto text = [&h]() { return history_text( h, kOpNames ); };
        std::map<int64_t, size_t> pushed;     // id -> push event (successful)
        std::map<int64_t, size_t> all_push;
        for ( size_t i = 0; i < h.size(); ++i )
            if ( h[i].op == Q_ENQ ) {
                all_push[h[i].b] = i;
                if ( h[i].r )
                    pushed[h[i].b] = i;
            }
        std::map<int64_t, size_t> popped;
        for ( size_t i = 0; i < h.size(); ++i ) {
            Ev const& e = h[i];
            if ( e.op != Q_DEQ || e.r < 0 )
                continue;
            auto it = pushed.find( e.r2 );
            if ( it == pushed.end()) {
                fail( "pop #" + std::to_string( i ) + " returned item id " + std::to_string( e.r2 ) +
                    ( all_push.count( e.r2 ) ? " whose push reported failure: " : " that was never pushed: " ) + text());
                return;
            }
            if ( h[it->second].a != e.r ) {
                fail( "pop #" + std::to_string( i ) + " returned item id " + std::to_string( e.r2 ) + " with a changed priority: " + text());
                return;
            }
            if ( popped.count( e.r2 )) {
                fail( "item id " + std::to_string( e.r2 ) + " popped twice (second time by #" + std::to_string( i ) + "): " + text());
                return;
            }
            if ( e.resp < h[it->second].inv ) {
                fail( "item id " + std::to_string( e.r2 ) + " popped before its push began: " + text());
                return;
            }
            popped[e.r2] = i;
        }
        for ( auto const& kv : pushed )
            if ( !popped.count( kv.first )) {
                fail( "item id " + std::to_string( kv.first ) + " was pushed but neither popped nor drained (lost item): " + text());
                return;
            }
        // the final drain is sequential: priorities must be non-increasing
        int64_t last = 1 << 20;
        for ( size_t i = first_drain; i < h.size(); ++i ) {
            if ( h[i].op != Q_DEQ || h[i].r < 0 )
                continue;
            if ( h[i].r > last ) {
                fail( "sequential drain at quiescence returned priority " + std::to_string( h[i].r ) + " after " + std::to_string( last ) + " (heap order broken): " + text());
                return;
            }
            last = h[i].r;
        }
    }

    CDSVERIF_NOCOV void check_bounds( std::vector<Ev> const& h, size_t cap )
    {
        auto text = [&h]() { return history_text( h, kOpNames ); };
        std::map<int64_t, size_t> pop_of;
        for ( size_t i = 0; i < h.size(); ++i )
            if ( h[i].op == Q_DEQ && h[i].r >= 0 )
                pop_of[h[i].r2] = i;
        for ( size_t i = 0; i < h.size(); ++i ) {
            Ev const& e = h[i];
            if ( e.op == Q_ENQ && !e.r ) {
                // upper bound of the item count at any instant of the call
                long ub = 0;
                for ( size_t j = 0; j < h.size(); ++j ) {
                    if ( j == i )
                        continue;
                    if ( h[j].op == Q_ENQ && h[j].r && h[j].inv < e.resp )
                        ++ub;
                    else if ( h[j].op == Q_DEQ && h[j].r >= 0 && h[j].resp < e.inv )
                        --ub;
                }
                if ( ub < long( cap )) {
                    fail( "push #" + std::to_string( i ) + " failed although at most " + std::to_string( ub ) + " items (capacity " + std::to_string( cap ) +
                        ") could be in the queue during the call: " + text());
                    return;
                }
            }
            else if ( e.op == Q_DEQ && e.r < 0 ) {
                for ( size_t j = 0; j < h.size(); ++j ) {
                    if ( h[j].op != Q_ENQ || !h[j].r || !( h[j].resp < e.inv ))
                        continue;
                    auto it = pop_of.find( h[j].b );
                    if ( it == pop_of.end() || h[it->second].inv > e.resp ) {
                        fail( "pop #" + std::to_string( i ) + " reported empty although item id " + std::to_string( h[j].b ) +
                            " was in the queue during the whole call: " + text());
                        return;
                    }
                }
            }
        }
    }

    template <typename Adapter>
    Verdict run_pq( Case const& c )
    {
        lib_init();
        case_reset();
        registry().reset();
        CaseRng::seed( c.seed );
        g_live = 0;
        History hist;
        SchedStats st;
        QStat qs;
        size_t cap = 0;
        size_t first_drain = 0;
        bool phased = cfg_at( c, 1, 0 ) != 0;
        {
            session_begin( sched_params( c ));
            {
                int req = cfg_at( c, 0, 4 );
                if ( req < 2 )
                    req = 2;            // the heap buffer needs at least 2 cells (cell 0 is not used)
                Adapter ad{ size_t( req ) };
                {
                    cap = ad.q.capacity();
                    if ( cap < 1 )
                        fail( "capacity() is 0" );
                    int next_id = 1;
                    long count = 0;
                    auto do_push = [&]( int thread, int prio, int flavour ) {
                        int id = next_id++;
                        size_t e = hist.begin( thread, Q_ENQ, prio, id );
                        bool ok = ad.push( prio, id, flavour );
                        hist.end( e, ok ? 1 : 0 );
                        if ( ok )
                            ++count;
                        return ok;
                    };
                    auto do_pop = [&]( int thread, int flavour ) {
                        size_t e = hist.begin( thread, Q_DEQ );
                        PopRes r = ad.pop( flavour );
                        hist.end( e, r.prio, r.prio < 0 ? 0 : r.id );
                        if ( r.prio >= 0 )
                            --count;
                        return r.prio;
                    };
                    size_t prefill = cap * size_t( cfg_at( c, 2, 0 )) / 4;
                    if ( prefill > 10 )
                        prefill = 10;
                    for ( size_t i = 0; i < prefill; ++i )
                        if ( !do_push( 0, int( CaseRng::next() % 3 ), 0 ))
                            fail( "sequential prefill push failed below capacity" );

                    size_t T = c.prog.size();
                    // phased shape: push-only phases (even) and pop-only phases (odd); every op keeps its
                    // program order, a thread moves to the next phase when the kind of its next op changes
                    std::vector<std::vector<int>> phase_of( T );
                    int nphases = 0;
                    for ( size_t t = 0; t < T; ++t ) {
                        int cur = 0;
                        for ( Op const& op : c.prog[t] ) {
                            int parity = op.code == 1 ? 1 : 0;
                            if (( cur & 1 ) != parity )
                                ++cur;
                            phase_of[t].push_back( cur );
                            if ( cur + 1 > nphases )
                                nphases = cur + 1;
                        }
                    }
                    size_t arrived = 0;
                    std::vector<std::function<void()>> bodies;
                    for ( size_t t = 0; t < T; ++t ) {
                        bodies.push_back( [&, t]() {
                            auto exec = [&]( Op const& op ) {
                                if ( op.code == 0 )
                                    do_push( int( t ) + 1, op.a, op.b );
                                else
                                    do_pop( int( t ) + 1, op.b );
                            };
                            if ( !phased ) {
                                for ( Op const& op : c.prog[t] )
                                    exec( op );
                                return;
                            }
                            size_t k = 0;
                            for ( int p = 0; p < nphases; ++p ) {
                                while ( k < c.prog[t].size() && phase_of[t][k] == p )
                                    exec( c.prog[t][k++] );
                                ++arrived;
                                size_t need = size_t( p + 1 ) * T;
                                cdsverif::wait_until( [&arrived, need]() { return arrived >= need; } );
                            }
                        } );
                    }
                    run_threads( bodies );
                    // quiescent checks
                    size_t sz = ad.q.size();
                    if ( sz != size_t( count ))
                        fail( "size() at quiescence is " + std::to_string( sz ) + " but " + std::to_string( count ) + " items are in the queue: " + history_text( hist.ev, kOpNames ));
                    if ( ad.q.empty() != ( count == 0 ))
                        fail( "empty() at quiescence disagrees with the number of items in the queue" );
                    if ( ad.q.full() != ( size_t( count ) == cap ))
                        fail( "full() at quiescence disagrees with the number of items in the queue" );
                    // drain
                    first_drain = hist.ev.size();
                    size_t drained = 0;
                    for ( ;; ) {
                        if ( do_pop( 0, 0 ) < 0 )
                            break;
                        if ( ++drained > 1000 ) {
                            fail( "drain does not terminate" );
                            break;
                        }
                    }
                    if ( !ad.q.empty() || ad.q.size() != 0 )
                        fail( "queue is not empty after it was drained" );
                    qs = read_stat( ad.q.statistics());
                }
            }   // queue destroyed, then the client's nodes
            st = session_end();
        }
        if ( g_live != 0 )
            fail( "value instances alive after the queue was destroyed: " + std::to_string( g_live ));

        std::vector<Ev> const& h = hist.ev;
        // does any push overlap a pop?
        unsigned push_pop_ov = 0, ov_succ = 0;
        for ( size_t i = 0; i < h.size(); ++i )
            for ( size_t j = i + 1; j < h.size(); ++j ) {
                if ( h[i].thread == h[j].thread || !( h[i].inv < h[j].resp && h[j].inv < h[i].resp ))
                    continue;
                if ( h[i].op != h[j].op )
                    ++push_pop_ov;
                bool si = h[i].op == Q_ENQ ? h[i].r != 0 : h[i].r >= 0;
                bool sj = h[j].op == Q_ENQ ? h[j].r != 0 : h[j].r >= 0;
                if ( si && sj )
                    ++ov_succ;
            }
        if ( phased && push_pop_ov )
            fail( "harness error: a push overlaps a pop in the phased shape: " + history_text( h, kOpNames ));
        if ( !failed())
            check_conservation( h, first_drain );
        if ( !failed())
            check_bounds( h, cap );
        if ( !failed() && push_pop_ov == 0 ) {
            MaxPQModel init;
            init.cap = int64_t( cap );
            LinChecker<MaxPQModel> lc( h );
            if ( !lc.check( init ))
                fail( "no push overlaps a pop but the history is not linearizable to a max-priority queue of capacity " + std::to_string( cap ) + ": " + history_text( h, kOpNames ));
            if ( lc.gave_up())
                note_class( "lin_gave_up" );
            else
                note_class( "lin_checked" );
        }
        unsigned ov = hist.overlaps();
        if ( ov )
            note_class( "overlap" );
        if ( st.preemptions )
            note_class( "preempted" );
        note_class( phased ? "shape_phased" : "shape_free" );
        if ( push_pop_ov )
            note_class( "push_overlaps_pop" );
        if ( qs.push_swap )
            note_class( "push_heapify_swap" );
        if ( qs.pop_swap )
            note_class( "pop_heapify_swap" );
        if ( qs.moved_top )
            note_class( "item_moved_top" );
        if ( qs.moved_up )
            note_class( "item_moved_up" );
        if ( qs.empty_pass )
            note_class( "push_empty_pass" );
        for ( Ev const& e : h )
            if ( e.thread > 0 && e.op == Q_ENQ && !e.r ) {
                note_class( "worker_push_failed" );
                break;
            }
        for ( Ev const& e : h )
            if ( e.thread > 0 && e.op == Q_DEQ && e.r < 0 ) {
                note_class( "worker_pop_empty" );
                break;
            }
        {
            std::string k = "cap_" + std::to_string( cap );
            note_class( k.c_str());
        }
        bool nontrivial = ov_succ > 0 && st.preemptions > 0 && ( qs.push_swap + qs.pop_swap ) > 0;
        return finish( st, hist.hash(), nontrivial );
    }

    // ---- variant table --------------------------------------------------------------------------
    typedef cds::opt::v::initialized_dynamic_buffer<void*> dyn_buffer;

    template <typename Lock, bool UseCompare, typename Buffer = dyn_buffer>
    struct itraits : ci::mspriority_queue::traits {
        typedef Buffer buffer;
        typedef Lock lock_type;
        typedef typename std::conditional<UseCompare, pv_cmp, cds::opt::none>::type compare;
        typedef typename std::conditional<UseCompare, cds::opt::none, pv_less>::type less;
        typedef ci::mspriority_queue::stat<> stat;
    };
    template <typename Lock, bool UseCompare, typename Buffer = dyn_buffer>
    struct ctraits : cc::mspriority_queue::traits {
        typedef Buffer buffer;
        typedef Lock lock_type;
        typedef typename std::conditional<UseCompare, pv_cmp, cds::opt::none>::type compare;
        typedef typename std::conditional<UseCompare, cds::opt::none, pv_less>::type less;
        typedef cc::mspriority_queue::stat<> stat;
    };

    struct Variant {
        const char* name;
        Verdict (*run)( Case const& );
    };
    typedef cds::sync::spin spin;

#define IPQ( ... ) run_pq<IntrPQ<ci::MSPriorityQueue<PNode, itraits<__VA_ARGS__>>>>
#define CPQ( ... ) run_pq<ValPQ<cc::MSPriorityQueue<PV, ctraits<__VA_ARGS__>>>>
    const Variant kVariants[] = {
        { "intrusive_spin_compare", IPQ( spin, true ) },
        { "intrusive_mutex_less", IPQ( std::mutex, false ) },
        { "container_spin_less", CPQ( spin, false ) },
        { "container_mutex_compare", CPQ( std::mutex, true ) },
        { "intrusive_spin_static8", IPQ( spin, false, cds::opt::v::initialized_static_buffer<void*, 8> ) },
        { "container_spin_static4", CPQ( spin, true, cds::opt::v::initialized_static_buffer<void*, 4> ) },
    };
    const size_t kNumVariants = sizeof( kVariants ) / sizeof( kVariants[0] );
}

namespace cdsverif {
    Schema const& harness_schema()
    {
        static Schema s = []() {
            Schema x;
            x.name = "mspq";
            for ( size_t i = 0; i < kNumVariants; ++i )
                x.variants.push_back( kVariants[i].name );
            // capacity: constructor argument (>= 2 enforced; the buffer rounds it, the oracle uses q.capacity());
            // shape: 0 = free (any overlap), 1 = phased (push-only / pop-only phases separated by barriers);
            // prefill: quarters of the capacity pushed by main before the threads start (at most 10 items)
            x.cfg = { { "capacity", 1, 16 }, { "shape", 0, 1 }, { "prefill", 0, 4 } };
            // push: a = priority, b = API flavour (container: push/push_with/emplace); pop: b = flavour (pop/pop_with)
            x.ops = { { "push", 6, 2, 2 }, { "pop", 5, 0, 1 } };
            x.max_ops_quick = 5;
            x.max_ops_thorough = 7;
            x.nontrivial_rule = "approximation of 'two heapify passes overlapped': >=1 pair of overlapping SUCCESSFUL operations (push that "
                "inserted / pop that returned an item) of different threads, >=1 pre-emptive switch, and >=1 heapify swap "
                "(stat m_nPushHeapifySwapCount + m_nPopHeapifySwapCount > 0)";
            return x;
        }();
        return s;
    }

    Verdict run_case( Case const& c )
    {
        size_t v = size_t( c.variant ) < kNumVariants ? size_t( c.variant ) : 0;
        return kVariants[v].run( c );
    }
}
