// C17, second TU (compile time): StripedSet/Map over boost::container buckets and intrusive::StripedSet over
// boost::intrusive buckets. See rehash_body.h.
#define REHASH_BOOST_PART
#include "rehash_body.h"
