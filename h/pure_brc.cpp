// C26: cds::bitop::bit_reverse_counter (the heap slot counter of MSPriorityQueue).
//
// Sequential harness. A case is a Dyck-like word over inc/dec (never dec below 0).
// "ramp" ops restart from a fresh counter and go straight up to a count next to a power of
// two (2^k + b - 16, k <= 20), so that the following inc/dec ops hover around the level
// boundaries of the heap.
//
// Oracle (stack of snapshots + map of outstanding slots):
//   inc at count n-1 -> n (h = floor(log2 n), the bottom heap level):
//     * value() == n, the returned slot == reversed_value()
//     * the slot lies in level h: 2^h <= slot < 2^(h+1)
//     * the slot is not outstanding (returned by an earlier inc and not yet undone)
//     * its heap parent slot/2 is outstanding (all levels above the bottom one are full)
//       => the outstanding set is {1..2^h-1} plus n-2^h+1 distinct slots of level h; it is
//          exactly {1..n} whenever n = 2^k-1 (also verified by an explicit scan)
//     * reference model: slot == 2^h | reverse_h( n - 2^h ), high_bit() == h
//   dec at count n -> n-1:
//     * returns the slot produced by the most recent inc that is not yet undone
//     * value()/reversed_value()/high_bit() are exactly what they were before that inc
//
// NB the literal sentence "the first n slots are a permutation of 1..n for every n" is not
// what a bit-reversed counter does (the first five slots are 1,2,3,4,6): it holds at full
// levels n = 2^k-1 only; the harness asserts the level-wise statement above.
//
// Cost: the word inc^T of a ramp is evaluated (fully checked) once per process and variant
// and memoised ("prefix run": the counter object after every i <= T increments and the owner
// of every slot); a case that ramps to T continues from a copy of the counter after inc^T.
// The verdict of a case is still a pure function of the case: it fails at the ramp iff
// inc^T violates a check.
#include "common.h"

#include <cds/details/bit_reverse_counter.h>

#include "stats.h"

using namespace hv;

namespace {

    constexpr unsigned kMaxK = 20;
    constexpr uint64_t kMaxCount = ( uint64_t( 1 ) << kMaxK ) + 64;     // highest count a case can reach
    constexpr uint64_t kSlotLimit = uint64_t( 1 ) << ( kMaxK + 1 );     // every legal slot at counts <= kMaxCount is below this

    enum { OP_INC = 0, OP_DEC = 1, OP_RAMP = 2, OP_DRAIN = 3 };

    inline int floor_log2( uint64_t n ) { return 63 - __builtin_clzll( n ); }

    // independent reference: slot of the n-th item of a Hunt et al. heap
    inline uint64_t ref_slot( uint64_t n )
    {
        int h = floor_log2( n );
        uint64_t low = n ^ ( uint64_t( 1 ) << h );
        uint64_t r = 0;
        for ( int i = 0; i < h; ++i )
            if (( low >> i ) & 1 )
                r |= uint64_t( 1 ) << ( h - 1 - i );
        return ( uint64_t( 1 ) << h ) | r;
    }

    std::string hex( uint64_t v )
    {
        char b[32];
        snprintf( b, sizeof( b ), "0x%llx", (unsigned long long) v );
        return b;
    }

    struct Snap {
        uint64_t slot;      // slot returned by the inc
        uint64_t value;     // observers before the inc
        uint64_t rev;
        int high;
    };

    // checks on the result of the m-th net increment that do not need the outstanding set
    template <typename Counter>
    bool check_inc_result( Counter const& ctr, uint64_t slot, uint64_t m, std::string& msg )
    {
        int h = floor_log2( m );
        if ( uint64_t( ctr.value()) != m ) {
            msg = "inc: value() = " + std::to_string( uint64_t( ctr.value())) + ", expected " + std::to_string( m );
            return false;
        }
        if ( uint64_t( ctr.reversed_value()) != slot ) {
            msg = "inc returned slot " + hex( slot ) + " but reversed_value() = " + hex( uint64_t( ctr.reversed_value()));
            return false;
        }
        if ( slot < ( uint64_t( 1 ) << h ) || slot >= ( uint64_t( 2 ) << h )) {
            msg = "inc: slot " + hex( slot ) + " for item #" + std::to_string( m ) + " is outside the bottom heap level " + std::to_string( h ) + " = [" + hex( uint64_t( 1 ) << h )
                  + ", " + hex( uint64_t( 2 ) << h ) + "): the outstanding slots cannot be {1..n} at the next full level";
            return false;
        }
        return true;
    }
    template <typename Counter>
    bool check_inc_reference( Counter const& ctr, uint64_t slot, uint64_t m, std::string& msg )
    {
        int h = floor_log2( m );
        if ( slot != ref_slot( m ) || ctr.high_bit() != h ) {
            msg = "inc: item #" + std::to_string( m ) + " got slot " + hex( slot ) + " high_bit " + std::to_string( ctr.high_bit())
                  + ", reference (bit-reversed position within the level) is " + hex( ref_slot( m )) + " high_bit " + std::to_string( h );
            return false;
        }
        return true;
    }

    // ---- memoised evaluation of the words inc^T ------------------------------------------
    template <typename C>
    struct Prefix {
        typedef cds::bitop::bit_reverse_counter<C> counter;
        std::vector<counter> at;        // at[i] = counter object after i increments of a fresh counter
        std::vector<uint32_t> owner;    // owner[slot] = i when the i-th increment returned slot, 0 = never returned
        counter run;
        uint64_t fail_at = 0;           // inc^fail_at violates a check
        std::string fail_msg;

        Prefix()
            : owner( kSlotLimit, 0 )
        {
            at.push_back( run );
        }
        static Prefix& get()
        {
            static Prefix p;
            return p;
        }
        uint64_t size() const { return at.size() - 1; }

        // true when inc^T is evaluated and holds
        bool ensure( uint64_t T )
        {
            while ( size() < T && !fail_at ) {
                uint64_t m = size() + 1;
                uint64_t slot = uint64_t( run.inc());
                std::string msg;
                bool ok = check_inc_result( run, slot, m, msg );
                if ( ok && owner[slot] ) {
                    msg = "inc: slot " + hex( slot ) + " for item #" + std::to_string( m ) + " was already returned for item #" + std::to_string( owner[slot] ) + " and not undone";
                    ok = false;
                }
                if ( ok && slot > 1 && !owner[slot >> 1] ) {
                    msg = "inc: slot " + hex( slot ) + " for item #" + std::to_string( m ) + " has no outstanding parent slot " + hex( slot >> 1 );
                    ok = false;
                }
                if ( ok )
                    ok = check_inc_reference( run, slot, m, msg );
                if ( ok ) {
                    owner[slot] = uint32_t( m );
                    if (( m & ( m + 1 )) == 0 )
                        for ( uint64_t i = 1; i <= m && ok; ++i )
                            if ( !owner[i] ) {
                                msg = "after " + std::to_string( m ) + " increments slot " + std::to_string( i ) + " was never returned: the slots are not a permutation of 1.." + std::to_string( m );
                                ok = false;
                            }
                }
                if ( !ok ) {
                    fail_at = m;
                    fail_msg = msg + " [word inc^" + std::to_string( m ) + " on a fresh counter]";
                    break;
                }
                at.push_back( run );
            }
            return !( fail_at && fail_at <= T );
        }
    };

    std::vector<uint8_t>& local_bitmap()
    {
        static std::vector<uint8_t> b( kSlotLimit, 0 );
        return b;
    }
    std::vector<Snap>& local_stack()
    {
        static std::vector<Snap> s;
        return s;
    }

    // state: fresh counter + inc^p (memoised) + the increments in `st` that are not yet undone
    template <typename C>
    struct Checker {
        typedef cds::bitop::bit_reverse_counter<C> counter;
        counter ctr;
        Prefix<C>& pre = Prefix<C>::get();
        std::vector<uint8_t>& bm = local_bitmap();
        std::vector<Snap>& st = local_stack();
        uint64_t p = 0;             // length of the memoised part of the stack
        uint64_t n = 0;             // model count = p + st.size()
        uint64_t steps = 0;
        // what happened (non-trivial rule, classes)
        uint64_t cross_up = 0, cross_down = 0, inc_after_dec = 0, full_levels = 0;
        bool seen_dec = false;

        std::string where() const { return " [library call #" + std::to_string( steps ) + " of the case, count before it " + std::to_string( n ) + "]"; }

        bool outstanding( uint64_t slot ) const
        {
            if ( slot >= kSlotLimit )
                return false;
            return bm[slot] || ( pre.owner[slot] && pre.owner[slot] <= p );
        }

        // restart: fresh counter, then inc^T
        bool restart( uint64_t T )
        {
            cleanup();
            if ( !pre.ensure( T )) {
                fail( pre.fail_msg );
                return false;
            }
            ctr = pre.at[T];
            p = n = T;
            seen_dec = false;
            return true;
        }

        bool inc_step()
        {
            Snap s{ 0, uint64_t( ctr.value()), uint64_t( ctr.reversed_value()), ctr.high_bit() };
            uint64_t slot = uint64_t( ctr.inc());
            ++steps;
            uint64_t m = n + 1;
            s.slot = slot;
            std::string msg;
            if ( !check_inc_result( ctr, slot, m, msg )) {
                fail( msg + where());
                return false;
            }
            if ( outstanding( slot )) {
                fail( "inc: slot " + hex( slot ) + " for item #" + std::to_string( m ) + " is already outstanding (returned by an earlier inc and not undone)" + where());
                return false;
            }
            if ( slot > 1 && !outstanding( slot >> 1 )) {
                fail( "inc: slot " + hex( slot ) + " for item #" + std::to_string( m ) + " has no outstanding parent slot " + hex( slot >> 1 ) + where());
                return false;
            }
            if ( !check_inc_reference( ctr, slot, m, msg )) {
                fail( msg + where());
                return false;
            }
            bm[slot] = 1;
            st.push_back( s );
            if ( seen_dec )
                ++inc_after_dec;
            if ( n > 0 && floor_log2( n ) != floor_log2( m ))
                ++cross_up;
            n = m;
            if (( m & ( m + 1 )) == 0 ) {
                // n = 2^k - 1: the outstanding set must be exactly {1..n}
                ++full_levels;
                if ( m < 2048 ) {
                    for ( uint64_t i = 1; i <= m; ++i )
                        if ( !outstanding( i )) {
                            fail( "after " + std::to_string( m ) + " net increments slot " + std::to_string( i ) + " is not outstanding: the slots are not a permutation of 1.." + std::to_string( m ) + where());
                            return false;
                        }
                }
            }
            return true;
        }

        bool dec_step()
        {
            // precondition (MSPriorityQueue::pop checks value() first): n > 0
            Snap s;
            bool local = !st.empty();
            if ( local )
                s = st.back();
            else {
                // the p-th increment of the memoised run
                auto const& before = pre.at[p - 1];
                s = Snap{ uint64_t( pre.at[p].reversed_value()), uint64_t( before.value()), uint64_t( before.reversed_value()), before.high_bit() };
            }
            uint64_t ret = uint64_t( ctr.dec());
            ++steps;
            if ( ret != s.slot ) {
                fail( "dec at count " + std::to_string( n ) + " returned slot " + hex( ret ) + ", the most recent inc not yet undone produced " + hex( s.slot ) + where());
                return false;
            }
            if ( uint64_t( ctr.value()) != s.value || uint64_t( ctr.reversed_value()) != s.rev || ctr.high_bit() != s.high ) {
                fail( "dec at count " + std::to_string( n ) + " does not undo the inc exactly: value/reversed_value/high_bit = " + std::to_string( uint64_t( ctr.value())) + "/"
                      + hex( uint64_t( ctr.reversed_value())) + "/" + std::to_string( ctr.high_bit()) + ", before that inc they were " + std::to_string( s.value ) + "/" + hex( s.rev )
                      + "/" + std::to_string( s.high ) + where());
                return false;
            }
            if ( local ) {
                bm[ret] = 0;
                st.pop_back();
            }
            else
                --p;
            seen_dec = true;
            if ( n > 1 && floor_log2( n ) != floor_log2( n - 1 ))
                ++cross_down;
            --n;
            return true;
        }

        // harness-side clean-up (no library call)
        void cleanup()
        {
            for ( Snap const& s : st )
                if ( s.slot < bm.size())
                    bm[s.slot] = 0;
            st.clear();
        }
    };

    inline uint64_t ramp_target( int k, int b )
    {
        if ( k < 0 )
            k = 0;
        if ( k > int( kMaxK ))
            k = int( kMaxK );
        int64_t t = ( int64_t( 1 ) << k ) + b - 16;
        if ( t < 0 )
            t = 0;
        if ( uint64_t( t ) > kMaxCount - 64 )
            t = int64_t( kMaxCount - 64 );
        return uint64_t( t );
    }

    template <typename C>
    void interpret( Checker<C>& ck, std::vector<Op> const& ops )
    {
        for ( Op const& op : ops ) {
            if ( failed())
                break;
            switch ( op.code ) {
            case OP_INC:
                for ( int i = 0; i <= op.a && !failed() && ck.n < kMaxCount; ++i )
                    ck.inc_step();
                break;
            case OP_DEC:
                for ( int i = 0; i <= op.a && !failed() && ck.n > 0; ++i )
                    ck.dec_step();
                break;
            case OP_RAMP:
                ck.restart( ramp_target( op.a, op.b ));
                note_class( "ramp" );
                break;
            default: {
                // drain: up to 2^a decrements
                uint64_t cnt = uint64_t( 1 ) << ( op.a < 0 ? 0 : op.a > 21 ? 21 : op.a );
                for ( uint64_t i = 0; i < cnt && !failed() && ck.n > 0; ++i )
                    ck.dec_step();
                note_class( "drain" );
                break;
            }
            }
        }
    }

    uint64_t input_hash( Case const& c )
    {
        uint64_t h = hash_mix( 0x26, uint64_t( c.variant ));
        if ( !c.prog.empty())
            for ( Op const& op : c.prog[0] )
                h = hash_mix( h, ( uint64_t( op.code ) << 48 ) ^ ( uint64_t( uint32_t( op.a )) << 16 ) ^ ( op.code == OP_RAMP ? uint64_t( uint32_t( op.b )) : 0 ));
        return h;
    }

    template <typename C>
    Verdict run_brc( Case const& c )
    {
        case_reset();
        Checker<C> ck;
        if ( !c.prog.empty())
            interpret( ck, c.prog[0] );
        // the rule looks at the generated word only, not at the final drain
        bool nontrivial = ck.cross_down > 0 && ck.inc_after_dec > 0;
        // final drain through the library (bounded: long descents are the job of the drain op / `ramp` enumeration)
        for ( int i = 0; i < 200 && ck.n > 0 && !failed(); ++i )
            ck.dec_step();
        if ( !failed() && ck.n == 0 && ( ck.ctr.value() != 0 || ck.ctr.reversed_value() != 0 || ck.ctr.high_bit() != -1 ))
            fail( "after undoing every inc the counter is not in its initial state (value/reversed_value/high_bit = " + std::to_string( uint64_t( ck.ctr.value())) + "/"
                  + hex( uint64_t( ck.ctr.reversed_value())) + "/" + std::to_string( ck.ctr.high_bit()) + ")" );
        ck.cleanup();
        if ( ck.cross_up )
            note_class( "cross_up", ck.cross_up );
        if ( ck.cross_down )
            note_class( "cross_down", ck.cross_down );
        if ( ck.full_levels )
            note_class( "full_level", ck.full_levels );
        note_class( "steps", ck.steps );
        return finish( SchedStats(), input_hash( c ), nontrivial );
    }

    struct Variant {
        const char* name;
        Verdict (*run)( Case const& );
    };
    const Variant kVariants[] = {
        { "size_t", run_brc<size_t> },
        { "uint32", run_brc<uint32_t> },
    };
    const size_t kNumVariants = sizeof( kVariants ) / sizeof( kVariants[0] );

    // ---- enumeration --------------------------------------------------------------------
    struct Dfs {
        Checker<size_t> ck;
        int maxlen = 0;
        uint64_t nodes = 0;
        uint64_t nt = 0;
        std::vector<int> word;      // +1 / -1
        RunStats* stats = nullptr;
        bool stop = false;
        static constexpr size_t kHashCap = size_t( 1 ) << 19;

        void visit( uint64_t h )
        {
            ++nodes;
            if ( ck.cross_down > 0 && ck.inc_after_dec > 0 ) {
                ++nt;
                if ( stats->nt_hashes.size() < kHashCap )
                    stats->nt_hashes.insert( h );
            }
        }

        void go( int depth, uint64_t h )
        {
            if ( depth == maxlen || stop )
                return;
            // child "inc"
            {
                auto saved = ck.ctr;
                uint64_t s_up = ck.cross_up, s_iad = ck.inc_after_dec, s_fl = ck.full_levels;
                word.push_back( +1 );
                if ( !ck.inc_step()) {
                    stop = true;
                    return;
                }
                uint64_t hh = hash_mix( h, 1 );
                visit( hh );
                go( depth + 1, hh );
                if ( stop )
                    return;
                word.pop_back();
                // backtrack without the library
                Snap s = ck.st.back();
                ck.st.pop_back();
                ck.bm[s.slot] = 0;
                ck.ctr = saved;
                --ck.n;
                ck.cross_up = s_up;
                ck.inc_after_dec = s_iad;
                ck.full_levels = s_fl;
            }
            // child "dec"
            if ( ck.n > 0 ) {
                auto saved = ck.ctr;
                uint64_t s_down = ck.cross_down;
                bool s_seen = ck.seen_dec;
                bool local = !ck.st.empty();
                Snap s{};
                if ( local )
                    s = ck.st.back();
                word.push_back( -1 );
                if ( !ck.dec_step()) {
                    stop = true;
                    return;
                }
                uint64_t hh = hash_mix( h, 2 );
                visit( hh );
                go( depth + 1, hh );
                if ( stop )
                    return;
                word.pop_back();
                if ( local ) {
                    ck.st.push_back( s );
                    ck.bm[s.slot] = 1;
                }
                else
                    ++ck.p;
                ck.ctr = saved;
                ++ck.n;
                ck.cross_down = s_down;
                ck.seen_dec = s_seen;
            }
        }
    };

    void push_base( std::vector<Op>& p, uint64_t base )
    {
        if ( base > 64 ) {
            // the nearest ramp target below, then single incs
            int k = floor_log2( base );
            for ( int kk = k + 1 > int( kMaxK ) ? k : k + 1; kk >= k; --kk ) {
                uint64_t lo = ( uint64_t( 1 ) << kk ) - 16;
                if ( base >= lo ) {
                    uint64_t b = base - lo > 32 ? 32 : base - lo;
                    p.push_back( Op{ OP_RAMP, kk, int( b ) } );
                    base -= lo + b;
                    break;
                }
            }
        }
        while ( base > 0 ) {
            uint64_t r = base > 64 ? 64 : base;
            p.push_back( Op{ OP_INC, int( r - 1 ), 0 } );
            base -= r;
        }
    }

    // a replayable case: count `base`, then the word
    Case word_case( uint64_t base, std::vector<int> const& word )
    {
        Case c;
        c.harness = "pure_brc";
        c.variant = 0;
        c.prog.resize( 1 );
        auto& p = c.prog[0];
        push_base( p, base );
        for ( size_t i = 0; i < word.size(); ) {
            size_t j = i;
            while ( j < word.size() && word[j] == word[i] && j - i < 64 )
                ++j;
            p.push_back( Op{ word[i] > 0 ? OP_INC : OP_DEC, int( j - i - 1 ), 0 } );
            i = j;
        }
        return c;
    }
}

namespace cdsverif {
    Schema const& harness_schema()
    {
        static Schema s = []() {
            Schema x;
            x.name = "pure_brc";
            for ( size_t i = 0; i < kNumVariants; ++i )
                x.variants.push_back( kVariants[i].name );
            x.cfg = {};
            // inc/dec: a+1 repetitions (dec stops at 0)
            // ramp:    fresh counter, then inc up to the count 2^a + b - 16 (clamped to 0..2^20)
            // drain:   up to 2^a decrements (replayed cases may carry a up to 21)
            x.ops = { { "inc", 12, 63, 0 }, { "dec", 12, 63, 0 }, { "ramp", 3, int( kMaxK ), 32 }, { "drain", 1, 11, 0 } };
            x.sequential = true;
            x.min_threads = 1;
            x.max_threads_quick = 1;
            x.max_threads_thorough = 1;
            x.max_ops_quick = 40;
            x.max_ops_thorough = 80;
            x.max_preempt_quick = 0;
            x.max_preempt_thorough = 0;
            x.nontrivial_rule = "the generated word (final drain excluded) contains >=1 dec that crosses a heap level boundary downwards (count 2^k -> 2^k-1) and >=1 inc executed after a dec";
            return x;
        }();
        return s;
    }

    Verdict run_case( Case const& c )
    {
        size_t v = size_t( c.variant ) < kNumVariants ? size_t( c.variant ) : 0;
        return kVariants[v].run( c );
    }

    // --extra dyck <maxlen> [<base>]   all words over {inc,dec} of length <= maxlen whose count, started at
    //                                  <base> (default 0, reached by inc^base), never drops below 0
    // --extra ramp [<k>]               inc x 2^k then dec x 2^k then inc (default k = 20), for both counter types
    int harness_extra( int argc, char** argv, RunStats& stats )
    {
        Schema const& s = harness_schema();
        std::string mode = argc > 0 ? argv[0] : "";
        if ( mode == "dyck" ) {
            int maxlen = argc > 1 ? atoi( argv[1] ) : 16;
            uint64_t base = argc > 2 ? strtoull( argv[2], nullptr, 0 ) : 0;
            if ( maxlen < 1 || maxlen > 40 || base > kMaxCount - 64 ) {
                fprintf( stderr, "dyck: maxlen 1..40, base <= %llu\n", (unsigned long long) ( kMaxCount - 64 ));
                return 2;
            }
            case_reset();
            Dfs d;
            d.maxlen = maxlen;
            d.stats = &stats;
            if ( d.ck.restart( base ))
                d.go( 0, hash_mix( 0x26d, base ));
            stats.evaluations += d.nodes;
            stats.nontrivial += d.nt;
            stats.per_variant[0] += d.nodes;
            stats.per_variant_nt[0] += d.nt;
            d.ck.cleanup();
            if ( failed()) {
                Case fc = word_case( base, d.word );
                stats.failc++;
                write_file( stats.prefix + ".failing.case", to_text( fc, s ) + "# " + fail_msg() + "\n" );
                fprintf( stderr, "FAIL %s\n", fail_msg().c_str());
                return 1;
            }
            stats.pass += d.nodes;
            stats.exhaustive_domains.push_back( "all inc/dec words of length <= " + std::to_string( maxlen ) + " applied after inc^" + std::to_string( base )
                                                + " that never decrement below 0 (" + std::to_string( d.nodes ) + " words), Counter = size_t" );
            // samples: two non-trivial words of the domain
            {
                std::vector<int> w;
                for ( int i = 0; i < maxlen; ++i )
                    w.push_back(( i % 3 == 2 ) ? -1 : +1 );
                stats.samples.push_back( to_text( word_case( base, w ), s ));
                std::vector<int> w2;
                for ( int i = 0; i < maxlen; ++i )
                    w2.push_back( i < maxlen / 2 ? +1 : ( i % 2 ? -1 : +1 ));
                stats.samples.push_back( to_text( word_case( base, w2 ), s ));
            }
            return 0;
        }
        if ( mode == "ramp" ) {
            int k = argc > 1 ? atoi( argv[1] ) : int( kMaxK );
            if ( k < 1 || k > int( kMaxK )) {
                fprintf( stderr, "ramp: k 1..%u\n", kMaxK );
                return 2;
            }
            for ( int variant = 0; variant < int( kNumVariants ); ++variant ) {
                Case c;
                c.harness = s.name;
                c.variant = variant;
                c.prog.resize( 1 );
                c.prog[0].push_back( Op{ OP_RAMP, k, 16 } );    // up to exactly 2^k
                c.prog[0].push_back( Op{ OP_DRAIN, k, 0 } );    // down to 0
                c.prog[0].push_back( Op{ OP_INC, 0, 0 } );      // and the first slot again
                Verdict v = kVariants[variant].run( c );
                // every prefix of the word is a checked input
                uint64_t words = ( uint64_t( 2 ) << k ) + 1;
                stats.evaluations += words;
                stats.per_variant[variant] += words;
                for ( auto const& kv : v.classes )
                    stats.classes[kv.first] += kv.second;
                if ( v.kind == V_FAIL ) {
                    stats.failc++;
                    write_file( stats.prefix + ".failing.case", to_text( c, s ) + "# " + v.msg + "\n" );
                    fprintf( stderr, "FAIL %s\n", v.msg.c_str());
                    return 1;
                }
                stats.pass += words;
                if ( v.nontrivial ) {
                    stats.nontrivial++;
                    stats.per_variant_nt[variant]++;
                    stats.nt_hashes.insert( v.trace_hash );
                    stats.samples.push_back( to_text( c, s ));
                }
            }
            stats.exhaustive_domains.push_back( "inc x 2^" + std::to_string( k ) + " then dec x 2^" + std::to_string( k ) + ": every count 0..2^" + std::to_string( k )
                                                + " in both directions, outstanding set scanned at every full level on the way up, Counter = size_t and uint32_t" );
            return 0;
        }
        fprintf( stderr, "usage: --extra dyck <maxlen> [<base>] | ramp [<k>]\n" );
        return 2;
    }
}
