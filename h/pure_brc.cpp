// C26: cds::bitop::bit_reverse_counter (the heap slot counter of MSPriorityQueue).
//
// Sequential harness. A case is a Dyck-like word over inc/dec (never dec below 0), with
// "ramp" ops that move the count next to a power of two so that words hover around the
// level boundaries of the heap.
//
// Oracle (stack of snapshots + bitmap of outstanding slots):
//   inc at count n-1 -> n (h = floor(log2 n), the bottom heap level):
//     * value() == n, the returned slot == reversed_value()
//     * the slot lies in level h: 2^h <= slot < 2^(h+1)
//     * the slot is not outstanding (returned by an earlier inc and not yet undone)
//     * its heap parent slot/2 is outstanding (all levels above the bottom one are full)
//       => the outstanding set is {1..2^h-1} plus n-2^h+1 distinct slots of level h; it is
//          exactly {1..n} whenever n = 2^k-1 (verified by an explicit scan for n < 4096 and
//          in the `ramp` enumeration for every k).
//     * reference model: slot == 2^h | reverse_h( n - 2^h ), high_bit() == h
//   dec at count n -> n-1:
//     * returns the slot produced by the most recent inc that is not yet undone
//     * value()/reversed_value()/high_bit() are exactly what they were before that inc
//
// NB the literal sentence "the first n slots are a permutation of 1..n for every n" is not
// what a bit-reversed counter does (the first five slots are 1,2,3,4,6): it holds at full
// levels only; the harness asserts the level-wise statement above.
#include "common.h"

#include <cds/details/bit_reverse_counter.h>

#include "stats.h"

using namespace hv;

namespace {

    constexpr unsigned kMaxK = 20;
    constexpr uint64_t kMaxCount = ( uint64_t( 1 ) << kMaxK ) + 64;     // highest count a case can reach
    constexpr uint64_t kBitmapSize = uint64_t( 1 ) << ( kMaxK + 2 );    // every legal slot at counts <= kMaxCount is below this
    constexpr uint64_t kStepBudget = ( uint64_t( 1 ) << ( kMaxK + 1 )) + ( uint64_t( 1 ) << 16 );

    enum { OP_INC = 0, OP_DEC = 1, OP_RAMP = 2 };

    inline int floor_log2( uint64_t n ) { return 63 - __builtin_clzll( n ); }

    // independent reference: slot of the n-th item of a Hunt et al. heap
    inline uint64_t ref_slot( uint64_t n )
    {
        int h = floor_log2( n );
        uint64_t low = n ^ ( uint64_t( 1 ) << h );
        uint64_t r = 0;
        for ( int i = 0; i < h; ++i )
            if (( low >> i ) & 1 )
                r |= uint64_t( 1 ) << ( h - 1 - i );
        return ( uint64_t( 1 ) << h ) | r;
    }

    std::string hex( uint64_t v )
    {
        char b[32];
        snprintf( b, sizeof( b ), "0x%llx", (unsigned long long) v );
        return b;
    }

    struct Snap {
        uint64_t slot;      // slot returned by the inc
        uint64_t value;     // observers before the inc
        uint64_t rev;
        int high;
    };

    // shared scratch memory (cleared by draining at the end of every run)
    std::vector<uint8_t>& bitmap()
    {
        static std::vector<uint8_t> b( kBitmapSize, 0 );
        return b;
    }
    std::vector<Snap>& snaps()
    {
        static std::vector<Snap> s;
        return s;
    }

    template <typename C>
    struct Checker {
        typedef cds::bitop::bit_reverse_counter<C> counter;
        counter ctr;
        std::vector<uint8_t>& bm = bitmap();
        std::vector<Snap>& st = snaps();
        uint64_t n = 0;             // model count
        uint64_t steps = 0;
        bool full_scan = false;     // scan the whole bitmap at every full level
        // what happened (non-trivial rule, classes)
        uint64_t cross_up = 0, cross_down = 0, inc_after_dec = 0, full_levels = 0;
        bool seen_dec = false;

        std::string where() const { return " [step " + std::to_string( steps ) + ", count before " + std::to_string( n ) + "]"; }

        bool inc_step()
        {
            Snap s{ 0, uint64_t( ctr.value()), uint64_t( ctr.reversed_value()), ctr.high_bit() };
            uint64_t slot = uint64_t( ctr.inc());
            ++steps;
            uint64_t m = n + 1;
            int h = floor_log2( m );
            s.slot = slot;
            if ( uint64_t( ctr.value()) != m ) {
                fail( "inc: value() = " + std::to_string( uint64_t( ctr.value())) + ", expected " + std::to_string( m ) + where());
                return false;
            }
            if ( uint64_t( ctr.reversed_value()) != slot ) {
                fail( "inc returned slot " + hex( slot ) + " but reversed_value() = " + hex( uint64_t( ctr.reversed_value())) + where());
                return false;
            }
            if ( slot < ( uint64_t( 1 ) << h ) || slot >= ( uint64_t( 2 ) << h )) {
                fail( "inc: slot " + hex( slot ) + " for item #" + std::to_string( m ) + " is outside the bottom heap level " + std::to_string( h )
                      + " = [" + hex( uint64_t( 1 ) << h ) + ", " + hex( uint64_t( 2 ) << h ) + "): outstanding slots are not {1..n} at the next full level" + where());
                return false;
            }
            if ( bm[slot] ) {
                fail( "inc: slot " + hex( slot ) + " for item #" + std::to_string( m ) + " is already outstanding (returned twice)" + where());
                return false;
            }
            if ( slot > 1 && !bm[slot >> 1] ) {
                fail( "inc: slot " + hex( slot ) + " for item #" + std::to_string( m ) + " has no outstanding parent slot " + hex( slot >> 1 ) + where());
                return false;
            }
            if ( slot != ref_slot( m ) || ctr.high_bit() != h ) {
                fail( "inc: item #" + std::to_string( m ) + " got slot " + hex( slot ) + " high_bit " + std::to_string( ctr.high_bit())
                      + ", reference (bit-reversed position within level) is " + hex( ref_slot( m )) + " high_bit " + std::to_string( h ) + where());
                return false;
            }
            bm[slot] = 1;
            st.push_back( s );
            if ( seen_dec )
                ++inc_after_dec;
            if ( n > 0 && floor_log2( n ) != h )
                ++cross_up;
            n = m;
            if (( m & ( m + 1 )) == 0 ) {
                // n = 2^k - 1: the outstanding set must be exactly {1..n}
                ++full_levels;
                if ( full_scan || m < 4096 ) {
                    for ( uint64_t i = 1; i <= m; ++i )
                        if ( !bm[i] ) {
                            fail( "after " + std::to_string( m ) + " net increments slot " + std::to_string( i ) + " is not outstanding: slots are not a permutation of 1.." + std::to_string( m ) + where());
                            return false;
                        }
                }
            }
            return true;
        }

        bool dec_step()
        {
            // precondition (MSPriorityQueue::pop checks value() first): n > 0
            Snap s = st.back();
            uint64_t ret = uint64_t( ctr.dec());
            ++steps;
            if ( ret != s.slot ) {
                fail( "dec at count " + std::to_string( n ) + " returned slot " + hex( ret ) + ", the most recent inc produced " + hex( s.slot ) + where());
                return false;
            }
            if ( uint64_t( ctr.value()) != s.value || uint64_t( ctr.reversed_value()) != s.rev || ctr.high_bit() != s.high ) {
                fail( "dec at count " + std::to_string( n ) + " does not undo the inc exactly: value/reversed/high_bit = " + std::to_string( uint64_t( ctr.value())) + "/"
                      + hex( uint64_t( ctr.reversed_value())) + "/" + std::to_string( ctr.high_bit()) + ", before that inc " + std::to_string( s.value ) + "/" + hex( s.rev )
                      + "/" + std::to_string( s.high ) + where());
                return false;
            }
            bm[ret] = 0;
            st.pop_back();
            seen_dec = true;
            if ( n > 1 && floor_log2( n ) != floor_log2( n - 1 ))
                ++cross_down;
            --n;
            return true;
        }

        // harness-side clean-up (not a library call)
        void cleanup()
        {
            for ( Snap const& s : st )
                if ( s.slot < bm.size())
                    bm[s.slot] = 0;
            st.clear();
        }
    };

    inline uint64_t ramp_target( int k, int b )
    {
        int64_t t = ( int64_t( 1 ) << k ) + b - 16;
        if ( t < 0 )
            t = 0;
        if ( uint64_t( t ) > kMaxCount )
            t = int64_t( kMaxCount );
        return uint64_t( t );
    }

    template <typename C>
    void interpret( Checker<C>& ck, std::vector<Op> const& ops )
    {
        for ( Op const& op : ops ) {
            if ( failed())
                break;
            if ( ck.steps >= kStepBudget ) {
                note_class( "budget_skip" );
                break;
            }
            switch ( op.code ) {
            case OP_INC:
                for ( int i = 0; i <= op.a && !failed() && ck.n < kMaxCount; ++i )
                    ck.inc_step();
                break;
            case OP_DEC:
                for ( int i = 0; i <= op.a && !failed() && ck.n > 0; ++i )
                    ck.dec_step();
                break;
            default: {
                uint64_t t = ramp_target( op.a < 0 ? 0 : op.a > int( kMaxK ) ? int( kMaxK ) : op.a, op.b );
                while ( ck.n < t && !failed())
                    ck.inc_step();
                while ( ck.n > t && !failed())
                    ck.dec_step();
                note_class( "ramp" );
                break;
            }
            }
        }
    }

    uint64_t input_hash( Case const& c )
    {
        uint64_t h = hash_mix( 0x26, uint64_t( c.variant ));
        if ( !c.prog.empty())
            for ( Op const& op : c.prog[0] )
                h = hash_mix( h, ( uint64_t( op.code ) << 48 ) ^ ( uint64_t( uint32_t( op.a )) << 16 ) ^ ( op.code == OP_RAMP ? uint64_t( uint32_t( op.b )) : 0 ));
        return h;
    }

    template <typename C>
    Verdict run_brc( Case const& c, bool full_scan )
    {
        case_reset();
        Checker<C> ck;
        ck.full_scan = full_scan;
        if ( !c.prog.empty())
            interpret( ck, c.prog[0] );
        // the rule looks at the generated word only, not at the final drain
        bool nontrivial = ck.cross_down > 0 && ck.inc_after_dec > 0;
        // final drain through the library: every outstanding inc is undone exactly
        if ( !failed()) {
            while ( ck.n > 0 && !failed())
                ck.dec_step();
            if ( !failed() && ( ck.ctr.value() != 0 || ck.ctr.reversed_value() != 0 || ck.ctr.high_bit() != -1 ))
                fail( "after undoing every inc the counter is not in its initial state" );
        }
        ck.cleanup();
        if ( ck.cross_up )
            note_class( "cross_up", ck.cross_up );
        if ( ck.cross_down )
            note_class( "cross_down", ck.cross_down );
        if ( ck.full_levels )
            note_class( "full_level", ck.full_levels );
        note_class( "steps", ck.steps );
        return finish( SchedStats(), input_hash( c ), nontrivial );
    }

    struct Variant {
        const char* name;
        Verdict (*run)( Case const&, bool );
    };
    const Variant kVariants[] = {
        { "size_t", run_brc<size_t> },
        { "uint32", run_brc<uint32_t> },
    };
    const size_t kNumVariants = sizeof( kVariants ) / sizeof( kVariants[0] );

    // ---- enumeration --------------------------------------------------------------------
    struct Dfs {
        Checker<size_t> ck;
        int maxlen = 0;
        uint64_t nodes = 0;
        uint64_t nt = 0;
        std::vector<int> word;      // +1 / -1
        RunStats* stats = nullptr;
        bool stop = false;
        static constexpr size_t kHashCap = size_t( 1 ) << 19;

        void visit( uint64_t h )
        {
            ++nodes;
            bool nontriv = ck.cross_down > 0 && ck.inc_after_dec > 0;
            if ( nontriv ) {
                ++nt;
                if ( stats->nt_hashes.size() < kHashCap )
                    stats->nt_hashes.insert( h );
            }
        }

        void go( int depth, uint64_t h )
        {
            if ( depth == maxlen || stop )
                return;
            // child "inc"
            {
                auto saved = ck.ctr;
                uint64_t s_up = ck.cross_up, s_iad = ck.inc_after_dec, s_fl = ck.full_levels;
                word.push_back( +1 );
                if ( !ck.inc_step()) {
                    stop = true;
                    return;
                }
                uint64_t hh = hash_mix( h, 1 );
                visit( hh );
                go( depth + 1, hh );
                if ( stop )
                    return;
                word.pop_back();
                // backtrack without the library
                Snap s = ck.st.back();
                ck.st.pop_back();
                ck.bm[s.slot] = 0;
                ck.ctr = saved;
                --ck.n;
                ck.cross_up = s_up;
                ck.inc_after_dec = s_iad;
                ck.full_levels = s_fl;
            }
            // child "dec"
            if ( ck.n > 0 ) {
                auto saved = ck.ctr;
                uint64_t s_down = ck.cross_down;
                bool s_seen = ck.seen_dec;
                Snap s = ck.st.back();
                word.push_back( -1 );
                if ( !ck.dec_step()) {
                    stop = true;
                    return;
                }
                uint64_t hh = hash_mix( h, 2 );
                visit( hh );
                go( depth + 1, hh );
                if ( stop )
                    return;
                word.pop_back();
                ck.st.push_back( s );
                ck.bm[s.slot] = 1;
                ck.ctr = saved;
                ++ck.n;
                ck.cross_down = s_down;
                ck.seen_dec = s_seen;
            }
        }
    };

    // a replayable case: count `base` reached by inc ops, then the word
    Case word_case( uint64_t base, std::vector<int> const& word )
    {
        Case c;
        c.harness = "pure_brc";
        c.variant = 0;
        c.prog.resize( 1 );
        auto& p = c.prog[0];
        if ( base > 64 ) {
            // the nearest ramp target below, then single incs
            int k = floor_log2( base );
            for ( int kk = k + 1 > int( kMaxK ) ? k : k + 1; kk >= k; --kk ) {
                uint64_t lo = ( uint64_t( 1 ) << kk ) - 16;
                if ( base >= lo ) {
                    uint64_t b = base - lo > 32 ? 32 : base - lo;
                    p.push_back( Op{ OP_RAMP, kk, int( b ) } );
                    base -= lo + b;
                    break;
                }
            }
        }
        while ( base > 0 ) {
            uint64_t r = base > 64 ? 64 : base;
            p.push_back( Op{ OP_INC, int( r - 1 ), 0 } );
            base -= r;
        }
        for ( size_t i = 0; i < word.size(); ) {
            size_t j = i;
            while ( j < word.size() && word[j] == word[i] && j - i < 64 )
                ++j;
            p.push_back( Op{ word[i] > 0 ? OP_INC : OP_DEC, int( j - i - 1 ), 0 } );
            i = j;
        }
        return c;
    }
}

namespace cdsverif {
    Schema const& harness_schema()
    {
        static Schema s = []() {
            Schema x;
            x.name = "pure_brc";
            for ( size_t i = 0; i < kNumVariants; ++i )
                x.variants.push_back( kVariants[i].name );
            x.cfg = {};
            // inc/dec: a+1 repetitions (dec stops at 0); ramp: move the count to 2^a + b - 16 (clamped to 0..2^20+64)
            x.ops = { { "inc", 6, 63, 0 }, { "dec", 6, 63, 0 }, { "ramp", 1, int( kMaxK ), 32 } };
            x.sequential = true;
            x.min_threads = 1;
            x.max_threads_quick = 1;
            x.max_threads_thorough = 1;
            x.max_ops_quick = 40;
            x.max_ops_thorough = 80;
            x.max_preempt_quick = 0;
            x.max_preempt_thorough = 0;
            x.nontrivial_rule = "before the final drain the word contains >=1 dec that crosses a heap level boundary downwards (count 2^k -> 2^k-1) and >=1 inc executed after a dec";
            return x;
        }();
        return s;
    }

    Verdict run_case( Case const& c )
    {
        size_t v = size_t( c.variant ) < kNumVariants ? size_t( c.variant ) : 0;
        return kVariants[v].run( c, false );
    }

    // --extra dyck <maxlen> [<base>]   all words over {inc,dec} of length <= maxlen whose count, started at
    //                                  <base> (default 0), never drops below 0
    // --extra ramp [<k>]               inc x 2^k then dec x 2^k (default k = 20), full scans at every 2^j-1
    int harness_extra( int argc, char** argv, RunStats& stats )
    {
        Schema const& s = harness_schema();
        std::string mode = argc > 0 ? argv[0] : "";
        if ( mode == "dyck" ) {
            int maxlen = argc > 1 ? atoi( argv[1] ) : 16;
            uint64_t base = argc > 2 ? strtoull( argv[2], nullptr, 0 ) : 0;
            if ( maxlen < 1 || maxlen > 40 || base > kMaxCount - 64 ) {
                fprintf( stderr, "dyck: maxlen 1..40, base <= %llu\n", (unsigned long long) ( kMaxCount - 64 ));
                return 2;
            }
            case_reset();
            Dfs d;
            d.maxlen = maxlen;
            d.stats = &stats;
            for ( uint64_t i = 0; i < base && !failed(); ++i )
                d.ck.inc_step();
            // flags describe the word only, not the way to the base
            d.ck.cross_up = d.ck.cross_down = d.ck.inc_after_dec = d.ck.full_levels = 0;
            d.ck.seen_dec = false;
            if ( !failed())
                d.go( 0, hash_mix( 0x26d, base ));
            stats.evaluations += d.nodes;
            stats.nontrivial += d.nt;
            if ( failed()) {
                Case fc = word_case( base, d.word );
                stats.failc++;
                write_file( stats.prefix + ".failing.case", to_text( fc, s ) + "# " + fail_msg() + "\n" );
                fprintf( stderr, "FAIL %s\n", fail_msg().c_str());
                d.ck.cleanup();
                return 1;
            }
            stats.pass += d.nodes;
            d.ck.cleanup();
            stats.exhaustive_domains.push_back( "all inc/dec words of length <= " + std::to_string( maxlen ) + " starting at count " + std::to_string( base )
                                                + " that never decrement below 0 (" + std::to_string( d.nodes ) + " words)" );
            // samples: a few non-trivial words
            {
                std::vector<int> w;
                for ( int i = 0; i < maxlen; ++i )
                    w.push_back(( i % 3 == 2 ) ? -1 : +1 );
                stats.samples.push_back( to_text( word_case( base, w ), s ));
                std::vector<int> w2;
                for ( int i = 0; i < maxlen; ++i )
                    w2.push_back( i < maxlen / 2 ? +1 : ( i % 2 ? -1 : +1 ));
                stats.samples.push_back( to_text( word_case( base, w2 ), s ));
            }
            return 0;
        }
        if ( mode == "ramp" ) {
            int k = argc > 1 ? atoi( argv[1] ) : int( kMaxK );
            if ( k < 1 || k > int( kMaxK )) {
                fprintf( stderr, "ramp: k 1..%u\n", kMaxK );
                return 2;
            }
            for ( int variant = 0; variant < int( kNumVariants ); ++variant ) {
                Case c;
                c.harness = s.name;
                c.variant = variant;
                c.prog.resize( 1 );
                c.prog[0].push_back( Op{ OP_RAMP, k, 16 } );    // up to exactly 2^k
                c.prog[0].push_back( Op{ OP_RAMP, 0, 0 } );     // down to 0
                c.prog[0].push_back( Op{ OP_INC, 0, 0 } );      // and the first slot again
                Verdict v = kVariants[variant].run( c, true );
                // every prefix of the ramp is a checked input
                stats.evaluations += ( uint64_t( 2 ) << k );
                stats.per_variant[variant] += ( uint64_t( 2 ) << k );
                for ( auto const& kv : v.classes )
                    stats.classes[kv.first] += kv.second;
                if ( v.kind == V_FAIL ) {
                    stats.failc++;
                    write_file( stats.prefix + ".failing.case", to_text( c, s ) + "# " + v.msg + "\n" );
                    fprintf( stderr, "FAIL %s\n", v.msg.c_str());
                    return 1;
                }
                stats.pass += ( uint64_t( 2 ) << k );
                if ( v.nontrivial ) {
                    stats.nontrivial++;
                    stats.per_variant_nt[variant]++;
                    stats.nt_hashes.insert( hash_mix( v.trace_hash, 0x72616d70 ));
                    stats.samples.push_back( to_text( c, s ));
                }
            }
            stats.exhaustive_domains.push_back( "inc x 2^" + std::to_string( k ) + " then dec x 2^" + std::to_string( k ) + ": every count 0..2^" + std::to_string( k )
                                                + " in both directions, outstanding set scanned at every full level, Counter = size_t and uint32_t" );
            return 0;
        }
        fprintf( stderr, "usage: --extra dyck <maxlen> [<base>] | ramp [<k>]\n" );
        return 2;
    }
}
