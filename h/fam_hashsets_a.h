// C14 part a: MichaelHashSet / MichaelHashMap variants (HP, DHP, RCU, nogc over MichaelList, LazyList, IterableList)
#ifndef CDSVERIF_H_FAM_HASHSETS_A_H
#define CDSVERIF_H_FAM_HASHSETS_A_H

#include "fam_hashsets.h"

#include <cds/container/michael_list_hp.h>
#include <cds/container/michael_list_dhp.h>
#include <cds/container/michael_list_rcu.h>
#include <cds/container/michael_list_nogc.h>
#include <cds/container/lazy_list_hp.h>
#include <cds/container/lazy_list_dhp.h>
#include <cds/container/lazy_list_rcu.h>
#include <cds/container/lazy_list_nogc.h>
#include <cds/container/iterable_list_hp.h>
#include <cds/container/iterable_list_dhp.h>
#include <cds/container/michael_kvlist_hp.h>
#include <cds/container/michael_kvlist_rcu.h>
#include <cds/container/michael_kvlist_nogc.h>
#include <cds/container/lazy_kvlist_dhp.h>
#include <cds/container/lazy_kvlist_rcu.h>
#include <cds/container/iterable_kvlist_hp.h>
#include <cds/container/michael_set.h>
#include <cds/container/michael_set_rcu.h>
#include <cds/container/michael_set_nogc.h>
#include <cds/container/michael_map.h>
#include <cds/container/michael_map_rcu.h>
#include <cds/container/michael_map_nogc.h>

namespace fam_hashsets {
    namespace cc = cds::container;

    // ordered-list traits
    struct a_ml_cmp : cc::michael_list::traits { typedef ItemCmp compare; };
    struct a_ml_less : cc::michael_list::traits { typedef ItemLess less; typedef cds::backoff::empty back_off; };
    struct a_ll_cmp : cc::lazy_list::traits { typedef ItemCmp compare; };
    struct a_ll_less : cc::lazy_list::traits { typedef ItemLess less; };
    struct a_il_cmp : cc::iterable_list::traits { typedef ItemCmp compare; };
    struct a_il_less : cc::iterable_list::traits { typedef ItemLess less; };
    struct a_kv_cmp_m : cc::michael_list::traits { typedef ItemCmp compare; };
    struct a_kv_less_m : cc::michael_list::traits { typedef std::less<int> less; };
    struct a_kv_cmp_l : cc::lazy_list::traits { typedef ItemCmp compare; };
    struct a_kv_less_l : cc::lazy_list::traits { typedef std::less<int> less; };
    struct a_kv_cmp_i : cc::iterable_list::traits { typedef ItemCmp compare; };

    // set traits
    struct a_set : cc::michael_set::traits { typedef KeyHash hash; };
    struct a_set_noic : cc::michael_set::traits { typedef KeyHash hash; typedef cds::atomicity::empty_item_counter item_counter; };

#define A_SET( NAME, GC, LIST, LTR, STR ) typedef cc::MichaelHashSet<GC, cc::LIST<GC, Item, LTR>, STR> NAME
    A_SET( AS_HP_ML, HP, MichaelList, a_ml_cmp, a_set );
    A_SET( AS_DHP_ML, DHP, MichaelList, a_ml_less, a_set_noic );
    A_SET( AS_HP_LL, HP, LazyList, a_ll_less, a_set );
    A_SET( AS_DHP_LL, DHP, LazyList, a_ll_cmp, a_set );
    A_SET( AS_HP_IL, HP, IterableList, a_il_cmp, a_set );
    A_SET( AS_DHP_IL, DHP, IterableList, a_il_less, a_set );
    A_SET( AS_GPB_ML, RCU_GPB, MichaelList, a_ml_cmp, a_set );
    A_SET( AS_GPI_LL, RCU_GPI, LazyList, a_ll_less, a_set );
    A_SET( AS_GPT_ML, RCU_GPT, MichaelList, a_ml_less, a_set_noic );
    A_SET( AS_GPB_LL, RCU_GPB, LazyList, a_ll_cmp, a_set );
    A_SET( AS_SHB_ML, RCU_SHB, MichaelList, a_ml_cmp, a_set );
    A_SET( AS_NOGC_ML, cds::gc::nogc, MichaelList, a_ml_cmp, a_set );
    A_SET( AS_NOGC_LL, cds::gc::nogc, LazyList, a_ll_less, a_set );
#undef A_SET

#define A_MAP( NAME, GC, LIST, LTR ) typedef cc::MichaelHashMap<GC, cc::LIST<GC, int, MVal, LTR>, a_set> NAME
    A_MAP( AM_HP_ML, HP, MichaelKVList, a_kv_cmp_m );
    A_MAP( AM_DHP_LL, DHP, LazyKVList, a_kv_less_l );
    A_MAP( AM_HP_IL, HP, IterableKVList, a_kv_cmp_i );
    A_MAP( AM_GPB_ML, RCU_GPB, MichaelKVList, a_kv_less_m );
    A_MAP( AM_GPT_LL, RCU_GPT, LazyKVList, a_kv_cmp_l );
    A_MAP( AM_NOGC_ML, cds::gc::nogc, MichaelKVList, a_kv_cmp_m );
#undef A_MAP

#define A_G( NAME, GCK, T, ... ) { NAME, GCK, T::c_nHazardPtrCount + 3, &mk_michael<__VA_ARGS__>, false }
#define A_N( NAME, GCK, ... ) { NAME, GCK, 0, &mk_michael<__VA_ARGS__>, false }
    static const MapVariant kHashsetsAVariants[] = {
        A_G( "MichaelSet_HP_MichaelList_cmp", GC_HP, AS_HP_ML, GSetAd<AS_HP_ML, L_STD, NoHooks> ),
        A_G( "MichaelSet_DHP_MichaelList_less_noic", GC_DHP, AS_DHP_ML, GSetAd<AS_DHP_ML, L_STD, NoHooks> ),
        A_G( "MichaelSet_HP_LazyList_less", GC_HP, AS_HP_LL, GSetAd<AS_HP_LL, L_STD, NoHooks> ),
        A_G( "MichaelSet_DHP_LazyList_cmp", GC_DHP, AS_DHP_LL, GSetAd<AS_DHP_LL, L_STD, NoHooks> ),
        A_G( "MichaelSet_HP_IterableList_cmp", GC_HP, AS_HP_IL, GSetAd<AS_HP_IL, L_ITERABLE, NoHooks> ),
        A_G( "MichaelSet_DHP_IterableList_less", GC_DHP, AS_DHP_IL, GSetAd<AS_DHP_IL, L_ITERABLE, NoHooks> ),
        A_N( "MichaelSet_GPB_MichaelList_cmp", GC_GPB, RSetAd<AS_GPB_ML, NoHooks> ),
        A_N( "MichaelSet_GPI_LazyList_less", GC_GPI, RSetAd<AS_GPI_LL, NoHooks> ),
        A_N( "MichaelSet_GPT_MichaelList_less_noic", GC_GPT, RSetAd<AS_GPT_ML, NoHooks> ),
        A_N( "MichaelSet_GPB_LazyList_cmp", GC_GPB, RSetAd<AS_GPB_LL, NoHooks> ),
        A_N( "MichaelSet_SHB_MichaelList_cmp", GC_SHB, RSetAd<AS_SHB_ML, NoHooks> ),
        A_N( "MichaelSet_nogc_MichaelList", GC_NOGC, NSetAd<AS_NOGC_ML, NoHooks> ),
        A_N( "MichaelSet_nogc_LazyList", GC_NOGC, NSetAd<AS_NOGC_LL, NoHooks> ),
        A_G( "MichaelMap_HP_MichaelKVList_cmp", GC_HP, AM_HP_ML, GMapAd<AM_HP_ML, L_STD, NoHooks> ),
        A_G( "MichaelMap_DHP_LazyKVList_less", GC_DHP, AM_DHP_LL, GMapAd<AM_DHP_LL, L_STD, NoHooks> ),
        A_G( "MichaelMap_HP_IterableKVList_cmp", GC_HP, AM_HP_IL, GMapAd<AM_HP_IL, L_ITERABLE, NoHooks> ),
        A_N( "MichaelMap_GPB_MichaelKVList_less", GC_GPB, RMapAd<AM_GPB_ML, NoHooks> ),
        A_N( "MichaelMap_GPT_LazyKVList_cmp", GC_GPT, RMapAd<AM_GPT_LL, NoHooks> ),
        A_N( "MichaelMap_nogc_MichaelKVList", GC_NOGC, NMapAd<AM_NOGC_ML, NoHooks> ),
    };
#undef A_G
#undef A_N
    static const size_t kHashsetsACount = sizeof( kHashsetsAVariants ) / sizeof( kHashsetsAVariants[0] );
} // namespace fam_hashsets

#endif
