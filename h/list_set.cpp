// C13 (part): MichaelList / LazyList value sets over HP and DHP (reference use of the generic map harness)
#include "mapcommon_impl.h"
#include "map_adapters.h"

#include <cds/container/michael_list_hp.h>
#include <cds/container/michael_list_dhp.h>
#include <cds/container/lazy_list_hp.h>
#include <cds/container/lazy_list_dhp.h>

using namespace mh;
namespace cc = cds::container;

namespace {
    struct ml_less : cc::michael_list::traits {
        typedef ItemLess less;
        typedef cds::atomicity::item_counter item_counter;
    };
    struct ml_cmp : cc::michael_list::traits {
        typedef ItemCmp compare;
    };
    struct ll_less : cc::lazy_list::traits {
        typedef ItemLess less;
        typedef cds::atomicity::item_counter item_counter;
    };
    struct ll_cmp : cc::lazy_list::traits {
        typedef ItemCmp compare;
    };

    template <typename Set>
    AdapterBase* mk( Case const& c ) { return new GuardedSetAdapter<Set>( c ); }

#define V( NAME, GCK, SET ) { NAME, GCK, SET::c_nHazardPtrCount, &mk<SET>, true }
    typedef cc::MichaelList<HP, Item, ml_less> ML_HP_less;
    typedef cc::MichaelList<DHP, Item, ml_cmp> ML_DHP_cmp;
    typedef cc::MichaelList<HP, Item, ml_cmp> ML_HP_cmp;
    typedef cc::MichaelList<DHP, Item, ml_less> ML_DHP_less;
    typedef cc::LazyList<HP, Item, ll_less> LL_HP_less;
    typedef cc::LazyList<DHP, Item, ll_cmp> LL_DHP_cmp;
    typedef cc::LazyList<HP, Item, ll_cmp> LL_HP_cmp;
    typedef cc::LazyList<DHP, Item, ll_less> LL_DHP_less;

    const MapVariant kVariants[] = {
        V( "MichaelList_HP_less_ic", GC_HP, ML_HP_less ),
        V( "MichaelList_DHP_cmp", GC_DHP, ML_DHP_cmp ),
        V( "MichaelList_HP_cmp", GC_HP, ML_HP_cmp ),
        V( "MichaelList_DHP_less_ic", GC_DHP, ML_DHP_less ),
        V( "LazyList_HP_less_ic", GC_HP, LL_HP_less ),
        V( "LazyList_DHP_cmp", GC_DHP, LL_DHP_cmp ),
        V( "LazyList_HP_cmp", GC_HP, LL_HP_cmp ),
        V( "LazyList_DHP_less_ic", GC_DHP, LL_DHP_less ),
    };
    const MapHarnessConfig kConfig = { "list_set", kVariants, sizeof( kVariants ) / sizeof( kVariants[0] ), 3, false, false };
}

namespace cdsverif {
    Schema const& harness_schema()
    {
        static Schema s = make_map_schema( kConfig, {},
            "two operations of different threads on the same key overlapped, at least one of them a successful update, and a pre-emptive or yielding switch occurred" );
        return s;
    }
    Verdict run_case( Case const& c ) { return run_map_case( kConfig, c ); }
}
