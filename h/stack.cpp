// C09: TreiberStack (container and intrusive, HP and DHP) with the elimination back-off
// off or on; static (1,2,3,4 slots) and dynamic collision arrays.
//
// Every concurrent history of push/pop (plus a final drain by the main thread) must be
// linearizable to a sequential LIFO stack; an eliminated push/pop pair must hand the pushed
// item to exactly one popper.
#include "common.h"
#include "stats.h"

#include <cds/container/treiber_stack.h>
#include <cds/intrusive/treiber_stack.h>

#include <map>
#include <type_traits>

namespace hv {
    Registry& registry()
    {
        static Registry r;
        return r;
    }
    Graveyard& graveyard()
    {
        static Graveyard g;
        return g;
    }
}

using namespace hv;
namespace cc = cds::container;
namespace ci = cds::intrusive;

namespace {

    const char* const kOpNames[] = { "push", "pop" };

    // cfg indices
    enum { CFG_PREFILL = 0, CFG_DYNCAP = 1, CFG_SYNC = 2, CFG_WALK = 3 };

    // deterministic, case-seeded replacement of opt::v::c_rand (slot selection in the collision array)
    struct case_rand {
        typedef unsigned int result_type;
        result_type operator()() { return CaseRng::next(); }
    };

    // Counter for treiber_stack::stat<>: only the token holder runs, so a plain integer is enough and
    // adds no scheduling points. (The doxygen text offers a raw "int" as Counter, but stat<> never
    // initialises its members, so a raw integral type starts with an indeterminate value.)
    struct plain_counter {
        size_t v = 0;
        size_t operator++() { return ++v; }
        operator size_t() const { return v; }
    };

    // what the library's internal statistics said at quiescence
    struct ElimStat {
        size_t push_race = 0, pop_race = 0;
        size_t act_push = 0, act_pop = 0, pas_push = 0, pas_pop = 0, failed = 0;
    };
    template <typename Stat>
    ElimStat read_stat( Stat const& s )
    {
        ElimStat e;
        e.push_race = size_t( s.m_PushRace );
        e.pop_race = size_t( s.m_PopRace );
        e.act_push = size_t( s.m_ActivePushCollision );
        e.act_pop = size_t( s.m_ActivePopCollision );
        e.pas_push = size_t( s.m_PassivePushCollision );
        e.pas_pop = size_t( s.m_PassivePopCollision );
        e.failed = size_t( s.m_EliminationFailed );
        return e;
    }

    // TreiberStack() for static collision arrays, TreiberStack( capacity ) for dynamic ones
    template <typename S, bool Dyn>
    struct Holder {
        S s;
        explicit Holder( size_t ) {}
    };
    template <typename S>
    struct Holder<S, true> {
        S s;
        explicit Holder( size_t cap ) : s( cap ) {}
    };

    // ---- container adapter --------------------------------------------------------------
    template <typename S, bool Dyn>
    struct ValS {
        typedef S stack_type;
        static constexpr bool elimination = S::enable_elimination;
        Holder<S, Dyn> h;
        explicit ValS( size_t cap ) : h( cap ) {}
        bool push( int v ) { return h.s.push( v ); }
        int pop()
        {
            int v = -1;
            return h.s.pop( v ) ? v : -1;
        }
        bool counted_size( size_t& n ) const
        {
            n = h.s.size();
            return !std::is_same<typename S::item_counter, cds::atomicity::empty_item_counter>::value;
        }
        bool empty() const { return h.s.empty(); }
        ElimStat stat() const { return read_stat( h.s.statistics()); }
    };

    // ---- intrusive adapter ----------------------------------------------------------------
    struct node_disposer {
        template <typename T>
        void operator()( T* p ) const
        {
            registry().on_dispose( p->id, "stack node" );
            // the link part is poisoned: any later access by libcds to a disposed node is an ASan report
            graveyard().bury( p, static_cast<void*>( p ), offsetof( T, id ));
        }
    };

    template <typename GC>
    struct SNode : ci::treiber_stack::node<GC> {
        int id;
        int val;
        uint64_t canary;
    };

    template <typename S, typename Node, bool Dyn>
    struct IntrS {
        typedef S stack_type;
        typedef typename S::gc gc;
        static constexpr bool elimination = S::enable_elimination;
        Holder<S, Dyn> h;
        explicit IntrS( size_t cap ) : h( cap ) {}
        bool push( int v )
        {
            // a fresh node per push: a node is never handed to the stack again (stronger than the
            // contract "not before its disposer ran")
            Node* n = new Node;
            n->id = registry().add();
            n->val = v;
            n->canary = 0xc0ffee;
            bool ok = h.s.push( *n );
            if ( !ok ) {
                registry().drop( n->id );
                delete n;
            }
            return ok;
        }
        int pop()
        {
            Node* p = h.s.pop();
            if ( !p )
                return -1;
            cdsverif::point();
            if ( p->canary != 0xc0ffee )
                fail( "popped intrusive node has a bad canary" );
            if ( registry().disposed( p->id ))
                fail( "popped intrusive node #" + std::to_string( p->id ) + " had already been disposed" );
            int v = p->val;
            // observation only (not part of C09): a normal pop clears the link, an eliminated one does not
            if ( p->m_pNext.load( atomics::memory_order_relaxed ) != nullptr )
                note_class( "popped_node_link_not_cleared" );
            // other poppers may still hold a guarded reference: destroy through the GC only
            // (see "Destroying items of intrusive containers")
            gc::template retire<node_disposer>( p );
            return v;
        }
        bool counted_size( size_t& n ) const
        {
            n = h.s.size();
            return !std::is_same<typename S::item_counter, cds::atomicity::empty_item_counter>::value;
        }
        bool empty() const { return h.s.empty(); }
        ElimStat stat() const { return read_stat( h.s.statistics()); }
    };

    // ---- SMR singletons -------------------------------------------------------------------
    struct Gcs {
        std::unique_ptr<HpSingleton> hp;
        std::unique_ptr<DhpSingleton> dhp;
    };
    template <typename GC>
    void make_gc( Gcs& g, Case const& c, size_t hazards );
    template <>
    void make_gc<cds::gc::HP>( Gcs& g, Case const& c, size_t hazards )
    {
        // the minimal legal retired capacity (hazards * threads): scans also happen naturally
        size_t threads = c.prog.size() + 2;
        size_t hz = hazards + 1;
        g.hp.reset( new HpSingleton( hz, threads, hz * threads, false ));
    }
    template <>
    void make_gc<cds::gc::DHP>( Gcs& g, Case const&, size_t )
    {
        g.dhp.reset( new DhpSingleton( 4 ));
    }

    // ---- one case ----------------------------------------------------------------------------
    template <typename GC, typename Adapter>
    Verdict run_stack( Case const& c )
    {
        lib_init();
        case_reset();
        registry().reset();
        CaseRng::seed( c.seed );
        History hist;
        SchedStats st;
        ElimStat es;
        bool counted_ok = true;
        size_t const T = c.prog.size();
        bool sp_walk = false;       // the schedule of this case is a random walk
        {
            Gcs gcs;
            make_gc<GC>( gcs, c, Adapter::stack_type::c_nHazardPtrCount );
            SchedParams sp = sched_params( c );
            int walk = cfg_at( c, CFG_WALK, 0 );
            if ( walk >= 2 ) {
                // dense random-walk schedule instead of the generated one: elimination needs two threads
                // pre-empted between reading the top and their CAS while a third one changes the top
                sp.rw_denom = uint32_t( walk );
                sp.rw_seed = c.seed;
            }
            sp_walk = sp.rw_denom != 0;
            session_begin( sp );
            {
                Attach main_attach;
                {
                    // initialized_dynamic_buffer asserts capacity >= 2
                    size_t cap = size_t( cfg_at( c, CFG_DYNCAP, 2 ));
                    if ( cap < 2 )
                        cap = 2;
                    Adapter ad( cap );
                    int next_val = 1;
                    int prefill = cfg_at( c, CFG_PREFILL, 0 );
                    for ( int i = 0; i < prefill; ++i ) {
                        size_t e = hist.begin( 0, Q_ENQ, next_val );
                        hist.end( e, ad.push( next_val ) ? 1 : 0 );
                        ++next_val;
                    }
                    bool sync_start = cfg_at( c, CFG_SYNC, 0 ) != 0;
                    size_t attached = 0;
                    std::vector<std::function<void()>> bodies;
                    for ( size_t t = 0; t < T; ++t ) {
                        bodies.push_back( [&, t]() {
                            Attach a;
                            ++attached;
                            if ( sync_start )
                                wait_until( [&]() { return attached == T; } );
                            for ( Op const& op : c.prog[t] ) {
                                if ( op.code == 0 ) {
                                    int v = int( t + 1 ) * 100 + ( next_val++ );
                                    size_t e = hist.begin( int( t ) + 1, Q_ENQ, v );
                                    bool ok = ad.push( v );
                                    hist.end( e, ok ? 1 : 0 );
                                }
                                else if ( op.code == 1 ) {
                                    size_t e = hist.begin( int( t ) + 1, Q_DEQ );
                                    int v = ad.pop();
                                    hist.end( e, v );
                                }
                                else {
                                    // force a reclamation pass of this thread's retired nodes
                                    GC::scan();
                                    note_class( "scan_op" );
                                }
                            }
                        } );
                    }
                    run_threads( bodies );
                    // quiescent: size() must agree with the contents when a real counter is configured
                    size_t sz = 0;
                    bool counted = ad.counted_size( sz );
                    size_t drained = 0;
                    for ( ;; ) {
                        size_t e = hist.begin( 0, Q_DEQ );
                        int v = ad.pop();
                        hist.end( e, v );
                        if ( v < 0 )
                            break;
                        if ( ++drained > 1000 ) {
                            fail( "drain does not terminate" );
                            break;
                        }
                    }
                    if ( counted && sz != drained )
                        counted_ok = false;
                    if ( !ad.empty())
                        fail( "empty() is false after the stack was drained" );
                    es = ad.stat();
                }
            }
            st = session_end();
        } // singletons destroyed: every retired node must have been disposed by now
        graveyard().release();

        if ( !counted_ok )
            fail( "size() at quiescence differs from the number of items drained" );

        // item accounting (consequences of linearizability + complete drain; clearer messages)
        if ( !failed()) {
            std::map<int64_t, int> pushed, popped;
            for ( Ev const& e : hist.ev ) {
                if ( e.op == Q_ENQ ) {
                    if ( !e.r )
                        fail( "push returned false" );
                    ++pushed[e.a];
                }
                else if ( e.r >= 0 )
                    ++popped[e.r];
            }
            for ( auto const& kv : popped ) {
                if ( !pushed.count( kv.first )) {
                    fail( "pop returned " + std::to_string( kv.first ) + " which was never pushed: " + history_text( hist.ev, kOpNames ));
                    break;
                }
                if ( kv.second > 1 ) {
                    fail( "item " + std::to_string( kv.first ) + " was delivered to " + std::to_string( kv.second ) + " poppers: " + history_text( hist.ev, kOpNames ));
                    break;
                }
            }
            if ( !failed())
                for ( auto const& kv : pushed )
                    if ( !popped.count( kv.first )) {
                        fail( "item " + std::to_string( kv.first ) + " was pushed but never popped although the stack was drained: " + history_text( hist.ev, kOpNames ));
                        break;
                    }
        }
        if ( !failed()) {
            LinChecker<LifoModel> lc( hist.ev );
            if ( !lc.check( LifoModel()))
                fail( "history is not linearizable to a LIFO stack: " + history_text( hist.ev, kOpNames ));
            if ( lc.gave_up())
                note_class( "lin_gave_up" );
        }
        if ( !failed()) {
            // intrusive variants: every node went through the stack and was disposed exactly once
            for ( size_t i = 0; i < registry().recs.size(); ++i )
                if ( registry().recs[i].disposed != ( registry().recs[i].dropped ? 0 : 1 )) {
                    fail( "intrusive node #" + std::to_string( i ) + " disposed " + std::to_string( registry().recs[i].disposed ) + " times after SMR destruction" );
                    break;
                }
        }

        // ---- classes / non-trivial rule -----------------------------------------------------
        unsigned ov = hist.overlaps();
        if ( ov )
            note_class( "overlap" );
        if ( st.preemptions )
            note_class( "preempted" );
        if ( es.push_race )
            note_class( "push_race", es.push_race );
        if ( es.pop_race )
            note_class( "pop_race", es.pop_race );
        size_t active = es.act_push + es.act_pop;
        size_t passive = es.pas_push + es.pas_pop;
        bool nontrivial;
        if ( Adapter::elimination ) {
            if ( active )
                note_class( "active_collision", active );
            if ( passive )
                note_class( "passive_collision", passive );
            if ( es.act_push )
                note_class( "active_push_collision", es.act_push );
            if ( es.act_pop )
                note_class( "active_pop_collision", es.act_pop );
            if ( es.failed )
                note_class( "elimination_failed", es.failed );
            note_class( "elimination_variant_case" );
            if ( active || passive ) {
                note_class( "case_with_collision" );
                note_class( sp_walk ? "collision_under_random_walk" : "collision_under_preemption_list" );
            }
            if ( active > 1 )
                note_class( "case_with_2plus_collisions" );
            // internal statistics, not a contract: every collision has one active and one passive side
            if ( es.act_push != es.pas_pop || es.act_pop != es.pas_push )
                note_class( "stat_active_passive_mismatch" );
            nontrivial = ( active + passive ) > 0 || ( ov > 0 && st.preemptions > 0 );
        }
        else
            nontrivial = ov > 0 && st.switches > T;
        return finish( st, hist.hash(), nontrivial );
    }

    // ---- variant table ----------------------------------------------------------------------
    typedef cds::gc::HP HP;
    typedef cds::gc::DHP DHP;

    typedef cds::opt::v::initialized_static_buffer<void*, 1> buf_s1;
    typedef cds::opt::v::initialized_static_buffer<void*, 2> buf_s2;
    typedef cds::opt::v::initialized_static_buffer<void*, 4> buf_s4;
    typedef cds::opt::v::initialized_static_buffer<void*, 3, false> buf_s3any;
    typedef cds::opt::v::initialized_dynamic_buffer<void*> buf_dyn;                                   // capacity rounded up to 2^k
    typedef cds::opt::v::initialized_dynamic_buffer<void*, CDS_DEFAULT_ALLOCATOR, false> buf_dynany;  // exact capacity

    template <typename Buffer>
    struct is_dyn : std::false_type {};
    template <typename T, typename A, bool E>
    struct is_dyn<cds::opt::v::initialized_dynamic_buffer<T, A, E>> : std::true_type {};

    // container traits
    template <bool Elim, typename Buffer, bool Counted, typename ElimBk>
    struct ctraits : cc::treiber_stack::traits {
        typedef cc::treiber_stack::stat<plain_counter> stat;
        static constexpr const bool enable_elimination = Elim;
        typedef Buffer buffer;
        typedef case_rand random_engine;
        typedef ElimBk elimination_backoff;
        typedef typename std::conditional<Counted, cds::atomicity::item_counter, cds::atomicity::empty_item_counter>::type item_counter;
    };
    // intrusive traits
    template <typename GC, bool Elim, typename Buffer, bool Counted, typename ElimBk>
    struct itraits : ci::treiber_stack::traits {
        typedef ci::treiber_stack::base_hook<cds::opt::gc<GC>> hook;
        typedef node_disposer disposer;
        typedef ci::treiber_stack::stat<plain_counter> stat;
        static constexpr const bool enable_elimination = Elim;
        typedef Buffer buffer;
        typedef case_rand random_engine;
        typedef ElimBk elimination_backoff;
        typedef typename std::conditional<Counted, cds::atomicity::item_counter, cds::atomicity::empty_item_counter>::type item_counter;
    };

    // how the passive side waits for a partner: 3 rounds of test + sleep (the default), or 16 rounds of test + spin hint
    typedef cds::backoff::delay<> wait_delay;
    typedef cds::backoff::Default wait_spin;

    template <typename GC, bool Elim, typename Buffer, bool Counted, typename ElimBk = wait_delay>
    Verdict run_c( Case const& c )
    {
        typedef cc::TreiberStack<GC, int, ctraits<Elim, Buffer, Counted, ElimBk>> S;
        return run_stack<GC, ValS<S, Elim && is_dyn<Buffer>::value>>( c );
    }
    template <typename GC, bool Elim, typename Buffer, bool Counted, typename ElimBk = wait_delay>
    Verdict run_i( Case const& c )
    {
        typedef ci::TreiberStack<GC, SNode<GC>, itraits<GC, Elim, Buffer, Counted, ElimBk>> S;
        return run_stack<GC, IntrS<S, SNode<GC>, Elim && is_dyn<Buffer>::value>>( c );
    }

    struct Variant {
        const char* name;
        Verdict (*run)( Case const& );
    };

    const Variant kVariants[] = {
        { "TreiberStack_HP_ic", run_c<HP, false, buf_s4, true> },
        { "TreiberStack_HP_elim_s1", run_c<HP, true, buf_s1, false> },
        { "TreiberStack_HP_elim_s2_ic", run_c<HP, true, buf_s2, true> },
        { "TreiberStack_HP_elim_s4_spinwait", run_c<HP, true, buf_s4, false, wait_spin> },
        { "TreiberStack_HP_elim_dyn", run_c<HP, true, buf_dyn, false> },
        { "TreiberStack_HP_elim_s3any", run_c<HP, true, buf_s3any, false> },
        { "TreiberStack_DHP", run_c<DHP, false, buf_s4, false> },
        { "TreiberStack_DHP_elim_s1_ic", run_c<DHP, true, buf_s1, true> },
        { "TreiberStack_DHP_elim_s2_spinwait", run_c<DHP, true, buf_s2, false, wait_spin> },
        { "TreiberStack_DHP_elim_s4", run_c<DHP, true, buf_s4, false> },
        { "TreiberStack_DHP_elim_dyn_ic", run_c<DHP, true, buf_dyn, true> },
        { "TreiberStack_DHP_elim_dynany", run_c<DHP, true, buf_dynany, false> },
        { "intrusive_TreiberStack_HP", run_i<HP, false, buf_s4, false> },
        { "intrusive_TreiberStack_HP_elim_s2_ic", run_i<HP, true, buf_s2, true> },
        { "intrusive_TreiberStack_DHP_ic", run_i<DHP, false, buf_s4, true> },
        { "intrusive_TreiberStack_DHP_elim_dyn_spinwait", run_i<DHP, true, buf_dyn, false, wait_spin> },
    };
    const size_t kNumVariants = sizeof( kVariants ) / sizeof( kVariants[0] );
}

namespace cdsverif {
    Schema const& harness_schema()
    {
        static Schema s = []() {
            Schema x;
            x.name = "stack";
            for ( size_t i = 0; i < kNumVariants; ++i )
                x.variants.push_back( kVariants[i].name );
            x.cfg = { { "prefill", 0, 3 }, { "dyn_capacity", 1, 4 }, { "sync_start", 0, 1 }, { "walk", 0, 4 } };
            x.ops = { { "push", 5, 0, 0 }, { "pop", 5, 0, 0 }, { "scan", 1, 0, 0 } };
            x.min_threads = 2;
            x.max_threads_quick = 5;
            x.max_threads_thorough = 6;
            x.max_ops_quick = 3;
            x.max_ops_thorough = 4;
            x.max_preempt_quick = 4;
            x.max_preempt_thorough = 6;
            x.nontrivial_rule = "elimination variants: at least one active or passive collision happened in the case (library statistics), or the history has overlapping operations of different threads and at least one pre-emptive switch; other variants: >=1 pair of overlapping operations of different threads and at least one token switch beyond thread start";
            return x;
        }();
        return s;
    }

    Verdict run_case( Case const& c )
    {
        size_t v = size_t( c.variant ) < kNumVariants ? size_t( c.variant ) : 0;
        return kVariants[v].run( c );
    }

    // --extra elim2 <G> <variants csv | all> [programs csv | all]
    // Enumerates, for fixed 3-thread one-operation programs on a stack prefilled with one item, every
    // schedule with at most two pre-emptions (start thread 0..2, pre-emption targets 0..1, gaps up
    // to the point where the pre-emption no longer fires, capped by G), with a collision-array seed
    // that makes the first two slot choices coincide.
    // Elimination needs exactly this shape: two threads stopped between reading the top and their
    // CAS while the third one changes the top; random pre-emption lists hit it in < 0.5% of the cases.
    int harness_extra( int argc, char** argv, RunStats& stats )
    {
        Schema const& s = harness_schema();
        if ( argc < 1 || std::string( argv[0] ) != "elim2" ) {
            fprintf( stderr, "usage: --extra elim2 [G] [variants csv|all] [programs csv|all]\n" );
            return 2;
        }
        int G = argc > 1 ? atoi( argv[1] ) : 400;     // safety cap of the gaps; the loops stop where a pre-emption no longer fires
        auto parse_list = []( const char* a, size_t n ) {
            std::vector<int> out;
            if ( !a || std::string( a ) == "all" ) {
                for ( size_t i = 0; i < n; ++i )
                    out.push_back( int( i ));
                return out;
            }
            std::stringstream ss( a );
            std::string tok;
            while ( std::getline( ss, tok, ',' ))
                if ( !tok.empty() && size_t( atoi( tok.c_str())) < n )
                    out.push_back( atoi( tok.c_str()));
            return out;
        };
        // op codes: 0 push, 1 pop
        static const int kProgs[][3] = { { 0, 1, 0 }, { 1, 0, 1 }, { 0, 1, 1 }, { 1, 0, 0 } };
        size_t const nProgs = sizeof( kProgs ) / sizeof( kProgs[0] );
        std::vector<int> variants = parse_list( argc > 2 ? argv[2] : nullptr, kNumVariants );
        std::vector<int> progs = parse_list( argc > 3 ? argv[3] : nullptr, nProgs );
        // a seed whose first two draws select the same slot for every capacity 1..4
        uint64_t seed = 0;
        for ( ;; ++seed ) {
            CaseRng::seed( seed );
            uint32_t a = CaseRng::next(), b = CaseRng::next();
            if ( a % 12 == b % 12 )
                break;
        }
        auto eval = [&]( Case const& c, Verdict& v ) {
            write_file( stats.prefix + ".current.case", to_text( c, s ));
            v = run_case( c );
            stats.account( c, v, s, false );
            if ( v.kind == V_FAIL ) {
                write_file( stats.prefix + ".failing.case", to_text( c, s ) + "# " + v.msg + "\n" );
                return false;
            }
            return true;
        };
        for ( int var : variants )
            for ( int pi : progs ) {
                Case base;
                base.harness = s.name;
                base.variant = var;
                base.cfg = { 1, 2, 0, 0 };      // prefill=1 dyn_capacity=2 sync_start=0 walk=0
                base.seed = seed;
                for ( int t = 0; t < 3; ++t )
                    base.prog.push_back( { Op{ kProgs[pi][t], 0, 0 } } );
                Verdict v;
                bool capped = false;
                for ( uint32_t start = 0; start < 3; ++start ) {
                    Case c0 = base;
                    c0.start = start;
                    if ( !eval( c0, v ))
                        return 1;
                    for ( uint32_t t1 = 0; t1 < 2; ++t1 )
                        for ( int g1 = 0; ; ++g1 ) {
                            if ( g1 > G ) {
                                capped = true;
                                break;
                            }
                            Case c1 = c0;
                            c1.sched.push_back( { uint32_t( g1 ), t1 } );
                            if ( !eval( c1, v ))
                                return 1;
                            if ( v.sched.preemptions < 1 )
                                break;          // the workers were over before the pre-emption: larger gaps change nothing
                            for ( uint32_t t2 = 0; t2 < 2; ++t2 )
                                for ( int g2 = 0; ; ++g2 ) {
                                    if ( g2 > G ) {
                                        capped = true;
                                        break;
                                    }
                                    Case c2 = c1;
                                    c2.sched.push_back( { uint32_t( g2 ), t2 } );
                                    if ( !eval( c2, v ))
                                        return 1;
                                    if ( v.sched.preemptions < 2 )
                                        break;
                                }
                        }
                }
                std::string prog;
                for ( int t = 0; t < 3; ++t )
                    prog += std::string( t ? "|" : "" ) + ( kProgs[pi][t] ? "pop" : "push" );
                stats.exhaustive_domains.push_back( std::string( kVariants[var].name ) + ": program " + prog + " on a stack prefilled with 1 item, every start thread, every schedule with <= 2 pre-emptions (targets 0..1)" + ( capped ? " of gap <= " + std::to_string( G ) : std::string()));
            }
        return 0;
    }
}
