// Implementation of the generic map harness runner. Include exactly once per harness TU.
#ifndef CDSVERIF_H_MAPCOMMON_IMPL_H
#define CDSVERIF_H_MAPCOMMON_IMPL_H

#include "mapcommon.h"

namespace hv {
    Registry& registry()
    {
        static Registry r;
        return r;
    }
    Graveyard& graveyard()
    {
        static Graveyard g;
        return g;
    }
}

namespace mh {
    const char* const kOpNames[] = { "insert", "insert_f", "update", "update_noins", "emplace", "erase", "erase_f", "extract", "get", "find_f", "contains",
        "extract_min", "extract_max", "unlink", "scan" };
    static const char* const kModelNames[] = { "insert", "erase", "find", "update", "update_noins", "upsert", "upsert_noins", "extract_min", "extract_max",
        "size_empty", "erase_tag", "clear" };

    inline Schema make_map_schema( MapHarnessConfig const& hc, std::vector<CfgSpec> extra_cfg, const char* rule )
    {
        Schema x;
        x.name = hc.name;
        for ( size_t i = 0; i < hc.nvariants; ++i )
            x.variants.push_back( hc.variants[i].name );
        x.cfg = { { "prefill", 0, hc.max_key > 5 ? 63 : ( 1 << ( hc.max_key + 1 )) - 1 }, { "quiesce", 0, 2 }, { "hold", 0, 2 } };
        for ( auto const& e : extra_cfg )
            x.cfg.push_back( e );
        int km = hc.max_key;
        x.ops = {
            { "insert", 8, km, 0 }, { "insert_f", 3, km, 0 }, { "update", 5, km, 0 }, { "update_noins", 2, km, 0 }, { "emplace", 2, km, 0 },
            { "erase", 7, km, 0 }, { "erase_f", 3, km, 0 }, { "extract", 4, km, 0 }, { "get", 3, km, 0 }, { "find_f", 3, km, 0 }, { "contains", 3, km, 0 },
            { "extract_min", hc.check_minmax ? 3 : 0, 0, 0 }, { "extract_max", hc.check_minmax ? 3 : 0, 0, 0 }, { "unlink", 2, km, 0 }, { "scan", 2, 0, 0 },
        };
        x.sequential = hc.sequential;
        if ( hc.sequential ) {
            x.max_ops_quick = 40;
            x.max_ops_thorough = 60;
        }
        else {
            x.max_ops_quick = 4;
            x.max_ops_thorough = 6;
        }
        x.nontrivial_rule = rule;
        return x;
    }

    namespace detail {
        struct Barrier {
            int n = 0;
            int arrived = 0;
            int gen = 0;
        };

        struct Ctx {
            MapHarnessConfig const* hc;
            MapVariant const* v;
            Case const* c;
            AdapterBase* ad;
            History hist;
            bool had_removals = false;
            unsigned quiescent_points = 0;
            int hold = 0;
        };

        inline int fallback_op( AdapterBase& ad, int op )
        {
            if ( ad.supports( op ))
                return op;
            switch ( op ) {
            case O_INSERT_F: case O_EMPLACE: case O_UPDATE:
                return ad.supports( O_INSERT ) ? O_INSERT : O_CONTAINS;
            case O_ERASE_F: case O_EXTRACT: case O_UNLINK: case O_EXTRACT_MIN: case O_EXTRACT_MAX:
                return ad.supports( O_ERASE ) ? O_ERASE : O_CONTAINS;
            case O_GET: case O_FIND_F: case O_UPDATE_NOINS:
                return ad.supports( O_FIND_F ) ? O_FIND_F : O_CONTAINS;
            default:
                return O_CONTAINS;
            }
        }

        // executes one client operation, records it in the history and checks the functor contract
        inline Res do_op( Ctx& cx, int thread, int opcode, int key )
        {
            AdapterBase& ad = *cx.ad;
            int op = fallback_op( ad, opcode );
            if ( op == O_SCAN ) {
                ad.scan();
                note_class( "scan_op" );
                return Res();
            }
            int tag = ++tag_counter();
            int mop = M_FIND;
            switch ( op ) {
            case O_INSERT: case O_INSERT_F: case O_EMPLACE: mop = M_INSERT; break;
            case O_UPDATE: mop = ad.update_replaces() ? M_UPSERT : M_UPDATE; break;
            case O_UPDATE_NOINS: mop = ad.update_replaces() ? M_UPSERT_NOINS : M_UPDATE_NOINS; break;
            case O_ERASE: case O_ERASE_F: case O_EXTRACT: mop = M_ERASE; break;
            case O_UNLINK: mop = M_ERASE_TAG; break;
            case O_EXTRACT_MIN: mop = M_EXTRACT_MIN; break;
            case O_EXTRACT_MAX: mop = M_EXTRACT_MAX; break;
            default: mop = M_FIND; break;
            }
            size_t e = cx.hist.begin( thread, mop, key, tag );
            Res r = ad.apply( op, key, tag );
            // functor contract (C20; cheap enough to check everywhere)
            switch ( op ) {
            case O_INSERT_F:
                if ( r.fcalls >= 0 && r.fcalls != r.r )
                    fail( std::string( "insert(key, functor): functor called " ) + std::to_string( r.fcalls ) + " times, insert returned " + std::to_string( r.r ));
                break;
            case O_UPDATE: case O_UPDATE_NOINS:
                if ( r.fcalls >= 0 ) {
                    if ( r.r == 0 && r.fcalls != 0 )
                        fail( "update returned (false,false) but called its functor" );
                    if ( r.r != 0 && r.fcalls != 1 )
                        fail( "update succeeded but called its functor " + std::to_string( r.fcalls ) + " times" );
                    if ( r.r != 0 && r.fnew >= 0 && r.fnew != ( r.r == 2 ? 1 : 0 ))
                        fail( "update: functor new-item flag " + std::to_string( r.fnew ) + " disagrees with the returned pair (second=" + std::to_string( r.r == 2 ) + ")" );
                }
                if ( op == O_UPDATE_NOINS && r.r == 2 )
                    fail( "update with insertion disallowed reported an insertion" );
                break;
            case O_ERASE_F: case O_FIND_F:
                if ( r.fcalls >= 0 && r.fcalls != r.r )
                    fail( std::string( kOpNames[op] ) + ": functor called " + std::to_string( r.fcalls ) + " times, operation returned " + std::to_string( r.r ));
                if ( r.r && r.key >= 0 && r.key != key )
                    fail( std::string( kOpNames[op] ) + ": functor received an item with key " + std::to_string( r.key ) + " for key " + std::to_string( key ));
                break;
            default:
                break;
            }
            if (( op == O_EXTRACT || op == O_GET ) && r.r && r.key >= 0 && r.key != key )
                fail( std::string( kOpNames[op] ) + " returned an item with key " + std::to_string( r.key ) + " for key " + std::to_string( key ));
            switch ( mop ) {
            case M_EXTRACT_MIN: case M_EXTRACT_MAX:
                cx.hist.end( e, r.r ? r.key : -1, r.tag );
                if ( r.r )
                    cx.had_removals = true;
                break;
            case M_ERASE_TAG:
                // unlink: a = key, b = tag of the object the client asked to unlink (r.tag); r.r==2 means "get found nothing"
                if ( r.r == 2 ) {
                    cx.hist.ev[e].op = M_FIND;
                    cx.hist.end( e, 0, -1 );
                }
                else {
                    cx.hist.ev[e].b = r.tag;
                    cx.hist.end( e, r.r, -1 );
                    if ( r.r )
                        cx.had_removals = true;
                }
                break;
            case M_ERASE:
                cx.hist.end( e, r.r, r.tag );
                if ( r.r )
                    cx.had_removals = true;
                break;
            default:
                cx.hist.end( e, r.r, r.tag );
                break;
            }
            return r;
        }

        // C18: checks at a quiescent point (no operation in progress)
        inline void quiescent_check( Ctx& cx, int thread )
        {
            AdapterBase& ad = *cx.ad;
            ++cx.quiescent_points;
            std::set<int> present;
            for ( int k = 0; k <= cx.hc->max_key; ++k ) {
                Res r = do_op( cx, thread, O_CONTAINS, k );
                if ( r.r )
                    present.insert( k );
            }
            std::vector<int> keys;
            if ( ad.traverse( keys )) {
                std::set<int> seen;
                for ( size_t i = 0; i < keys.size(); ++i ) {
                    if ( !seen.insert( keys[i] ).second ) {
                        fail( "quiescent traversal visited key " + std::to_string( keys[i] ) + " twice" );
                        return;
                    }
                    if ( cx.v->ordered && i > 0 && keys[i] <= keys[i - 1] ) {
                        fail( "quiescent traversal is not strictly increasing: " + std::to_string( keys[i - 1] ) + " then " + std::to_string( keys[i] ));
                        return;
                    }
                }
                if ( seen != present ) {
                    std::string a, b;
                    for ( int k : seen ) a += std::to_string( k ) + " ";
                    for ( int k : present ) b += std::to_string( k ) + " ";
                    fail( "quiescent traversal {" + a + "} differs from the keys contains() finds {" + b + "}" );
                    return;
                }
                note_class( "traversals_checked" );
            }
            if ( ad.has_counter()) {
                if ( ad.size() != present.size())
                    fail( "size() = " + std::to_string( ad.size()) + " at a quiescent point but " + std::to_string( present.size()) + " keys are present" );
                if ( ad.empty() != present.empty())
                    fail( "empty() disagrees with the contents at a quiescent point" );
            }
            else if ( present.empty() && !ad.empty())
                fail( "empty() is false at a quiescent point although no key is present" );
            ad.check_structure( cx.had_removals );
        }

        // relaxed extract_min/max side condition (C15): a key smaller (larger) than the returned one that was
        // present throughout the call makes the result illegal. Conservative count argument, see DESIGN.md.
        inline void minmax_side_condition( std::vector<Ev> const& h )
        {
            for ( Ev const& x : h ) {
                if ( x.op != M_EXTRACT_MIN && x.op != M_EXTRACT_MAX )
                    continue;
                std::map<int64_t, int> ins, rem;
                for ( Ev const& e : h ) {
                    bool inserting = ( e.op == M_INSERT && e.r ) || (( e.op == M_UPDATE || e.op == M_UPSERT ) && e.r == 2 );
                    if ( inserting && e.resp < x.inv )
                        ++ins[e.a];
                    bool removing_key = false;
                    int64_t k = e.a;
                    if (( e.op == M_ERASE || e.op == M_ERASE_TAG ) && e.r )
                        removing_key = true;
                    if (( e.op == M_EXTRACT_MIN || e.op == M_EXTRACT_MAX ) && e.r >= 0 ) {
                        removing_key = true;
                        k = e.r;
                    }
                    if ( removing_key && e.inv < x.resp && &e != &x )
                        ++rem[k];
                }
                for ( auto const& kv : ins ) {
                    int64_t k = kv.first;
                    if ( kv.second <= rem[k] )
                        continue;       // k may have been absent at some instant of the call
                    if ( x.r < 0 ) {
                        fail( std::string( x.op == M_EXTRACT_MIN ? "extract_min" : "extract_max" ) + " reported an empty container although key " + std::to_string( k )
                            + " was present throughout the call" );
                        return;
                    }
                    if ( x.op == M_EXTRACT_MIN && k < x.r ) {
                        fail( "extract_min returned " + std::to_string( x.r ) + " although the smaller key " + std::to_string( k ) + " was present throughout the call" );
                        return;
                    }
                    if ( x.op == M_EXTRACT_MAX && k > x.r ) {
                        fail( "extract_max returned " + std::to_string( x.r ) + " although the larger key " + std::to_string( k ) + " was present throughout the call" );
                        return;
                    }
                }
            }
        }

        struct GcScope {
            std::unique_ptr<HpSingleton> hp;
            std::unique_ptr<DhpSingleton> dhp;
        };
        struct RcuScope {
            std::unique_ptr<RCU_GPI> gpi;
            std::unique_ptr<RCU_GPB> gpb;
            std::unique_ptr<RCU_GPT> gpt;
            std::unique_ptr<RCU_SHB> shb;
            void make( GcKind k, size_t cap )
            {
                switch ( k ) {
                case GC_GPI: gpi.reset( new RCU_GPI ); break;
                case GC_GPB: gpb.reset( new RCU_GPB( cap )); break;
                case GC_GPT: gpt.reset( new RCU_GPT( cap )); break;
                case GC_SHB: shb.reset( new RCU_SHB( cap )); break;
                default: break;
                }
            }
        };

        inline void check_registry()
        {
            if ( failed())
                return;
            for ( size_t i = 0; i < registry().recs.size(); ++i ) {
                auto const& rec = registry().recs[i];
                int want = rec.dropped ? 0 : 1;
                if ( rec.disposed != want ) {
                    fail( "intrusive item #" + std::to_string( i ) + " was disposed " + std::to_string( rec.disposed ) + " times (expected " + std::to_string( want )
                        + ") by the time the container and the SMR were destroyed" );
                    return;
                }
            }
        }

        // ---- sequential differential mode (C17/C20) -------------------------------------------
        inline void seq_full_compare( Ctx& cx, std::map<int, int> const& model )
        {
            AdapterBase& ad = *cx.ad;
            for ( int k = 0; k <= cx.hc->max_key; ++k ) {
                Res r = ad.apply( O_CONTAINS, k, 0 );
                bool want = model.count( k ) != 0;
                if (( r.r != 0 ) != want ) {
                    fail( "contains(" + std::to_string( k ) + ") = " + std::to_string( r.r ) + " but the reference model says " + std::to_string( want ));
                    return;
                }
            }
            if ( ad.has_counter() && ad.size() != model.size()) {
                fail( "size() = " + std::to_string( ad.size()) + " but the reference model holds " + std::to_string( model.size()) + " keys" );
                return;
            }
            if ( ad.has_counter() && ad.empty() != model.empty()) {
                fail( "empty() disagrees with the reference model" );
                return;
            }
            std::vector<int> keys;
            if ( ad.traverse( keys )) {
                std::vector<int> want;
                for ( auto const& kv : model )
                    want.push_back( kv.first );
                if ( !cx.v->ordered ) {
                    std::sort( keys.begin(), keys.end());
                }
                if ( keys != want ) {
                    fail( "traversal differs from the reference model contents" );
                    return;
                }
            }
            ad.check_structure( cx.had_removals );
        }

        inline void seq_step( Ctx& cx, std::map<int, int>& model, int opcode, int key )
        {
            AdapterBase& ad = *cx.ad;
            int op = fallback_op( ad, opcode );
            if ( op == O_SCAN ) {
                ad.scan();
                return;
            }
            size_t before = cx.hist.ev.size();
            Res r = do_op( cx, 0, op, key );
            if ( failed() || cx.hist.ev.size() == before )
                return;
            Ev const& e = cx.hist.ev.back();
            // the sequential model is exact: apply the event, it must be legal
            MapModel m;
            for ( auto const& kv : model )
                m.m[kv.first] = kv.second;
            m.strict_minmax = true;
            if ( !m.apply( e )) {
                std::ostringstream o;
                o << "sequential step " << kOpNames[op] << "(" << key << ") returned r=" << e.r << " tag=" << e.r2 << " which the reference model {";
                for ( auto const& kv : model )
                    o << kv.first << ":" << kv.second << " ";
                o << "} does not allow";
                fail( o.str());
                return;
            }
            model.clear();
            for ( auto const& kv : m.m )
                model[int( kv.first )] = int( kv.second );
            (void) r;
        }
    } // namespace detail

    inline Verdict run_map_case( MapHarnessConfig const& hc, Case const& c )
    {
        using namespace detail;
        lib_init();
        case_reset();
        registry().reset();
        CaseRng::seed( c.seed );
        tag_counter() = 100;
        size_t vi = size_t( c.variant ) < hc.nvariants ? size_t( c.variant ) : 0;
        MapVariant const& v = hc.variants[vi];
        size_t T = c.prog.size();
        Ctx cx;
        cx.hc = &hc;
        cx.v = &v;
        cx.c = &c;
        cx.hold = cfg_at( c, 2, 0 );
        SchedStats st;
        bool concurrent = !hc.sequential;
        std::map<int, int> seq_model;
        {
            GcScope gcs;
            if ( v.gc == GC_HP ) {
                size_t hz = v.hazards + 2;
                size_t threads = T + 2;
                gcs.hp.reset( new HpSingleton( hz, threads, hz * threads + 1, false ));
            }
            else if ( v.gc == GC_DHP )
                gcs.dhp.reset( new DhpSingleton( 4 ));
            if ( concurrent )
                session_begin( sched_params( c ));
            {
                RcuScope rcu;
                rcu.make( v.gc, 4 );
                {
                    Attach main_attach;
                    {
                        std::unique_ptr<AdapterBase> ad( v.make( c ));
                        cx.ad = ad.get();
                        int prefill = cfg_at( c, 0, 0 );
                        for ( int k = 0; k <= hc.max_key && k < 30; ++k )
                            if ( prefill & ( 1 << k )) {
                                if ( concurrent )
                                    do_op( cx, 0, O_INSERT, k );
                                else
                                    seq_step( cx, seq_model, O_INSERT, k );
                            }
                        if ( concurrent ) {
                            int q = cfg_at( c, 1, 0 );
                            Barrier bar;
                            bar.n = int( T );
                            std::vector<std::function<void()>> bodies;
                            for ( size_t t = 0; t < T; ++t ) {
                                bodies.push_back( [&, t]() {
                                    Attach a;
                                    auto const& ops = c.prog[t];
                                    size_t seg = 0;
                                    for ( size_t i = 0; i <= ops.size(); ++i ) {
                                        // barrier positions split the op list into q+1 segments
                                        while ( seg < size_t( q ) && i == ( ops.size() * ( seg + 1 )) / size_t( q + 1 )) {
                                            int g = bar.gen;
                                            if ( ++bar.arrived == bar.n ) {
                                                quiescent_check( cx, int( t ) + 1 );
                                                bar.arrived = 0;
                                                ++bar.gen;
                                            }
                                            else
                                                cdsverif::wait_until( [&]() { return bar.gen != g; } );
                                            ++seg;
                                        }
                                        if ( i < ops.size())
                                            do_op( cx, int( t ) + 1, ops[i].code, ops[i].a % ( hc.max_key + 1 ));
                                    }
                                } );
                            }
                            run_threads( bodies );
                            quiescent_check( cx, 0 );
                        }
                        else {
                            size_t n = 0;
                            if ( !c.prog.empty())
                                for ( Op const& op : c.prog[0] ) {
                                    seq_step( cx, seq_model, op.code, op.a % ( hc.max_key + 1 ));
                                    if ( failed())
                                        break;
                                    if ( ++n % 4 == 0 )
                                        seq_full_compare( cx, seq_model );
                                }
                            if ( !failed())
                                seq_full_compare( cx, seq_model );
                        }
                        cx.ad = nullptr;
                    }   // container destroyed
                }       // main detached
            }           // RCU singleton destroyed
            if ( concurrent )
                st = session_end();
        }               // HP/DHP singleton destroyed
        graveyard().release();
        if ( concurrent && !failed()) {
            MapModel init;
            LinChecker<MapModel> lc( cx.hist.ev );
            if ( !lc.check( init )) {
                // diagnosis: does the history become linearizable once failed removals that overlap another thread's
                // removal attempt on the same key are ignored? (tag used to tell a known contention pattern from anything else)
                std::vector<Ev> relaxed;
                for ( Ev const& e : cx.hist.ev ) {
                    bool drop = false;
                    if (( e.op == M_ERASE || e.op == M_ERASE_TAG ) && e.r == 0 )
                        for ( Ev const& s : cx.hist.ev ) {
                            // another thread's removal attempt on the same key (whatever its outcome), or an
                            // extract_min/extract_max (which may have been working on this key), overlapping e
                            bool removal_attempt = (( s.op == M_ERASE || s.op == M_ERASE_TAG ) && s.a == e.a )
                                || s.op == M_EXTRACT_MIN || s.op == M_EXTRACT_MAX;
                            if ( removal_attempt && s.thread != e.thread && s.inv < e.resp && e.inv < s.resp )
                                drop = true;
                        }
                    if ( !drop )
                        relaxed.push_back( e );
                }
                std::string tag;
                if ( relaxed.size() != cx.hist.ev.size()) {
                    LinChecker<MapModel> lr( relaxed );
                    if ( lr.check( init ) && !lr.gave_up())
                        tag = "[failed-remove-overlapping-remove] ";
                }
                fail( tag + "history is not linearizable to a sequential set/map: " + history_text( cx.hist.ev, kModelNames ));
            }
            if ( lc.gave_up())
                note_class( "lin_gave_up" );
            if ( !failed() && hc.check_minmax )
                minmax_side_condition( cx.hist.ev );
        }
        check_registry();
        // non-trivial: two overlapping operations of different threads on the same key, one of them a successful update
        bool nt = false;
        if ( concurrent ) {
            auto const& ev = cx.hist.ev;
            for ( size_t i = 0; i < ev.size() && !nt; ++i )
                for ( size_t j = i + 1; j < ev.size() && !nt; ++j ) {
                    if ( ev[i].thread == ev[j].thread || ev[i].thread == 0 || ev[j].thread == 0 )
                        continue;
                    if ( !( ev[i].inv < ev[j].resp && ev[j].inv < ev[i].resp ))
                        continue;
                    bool upd_i = ev[i].op != M_FIND && ev[i].r != 0 && ev[i].r != -1;
                    bool upd_j = ev[j].op != M_FIND && ev[j].r != 0 && ev[j].r != -1;
                    bool minmax = ev[i].op == M_EXTRACT_MIN || ev[i].op == M_EXTRACT_MAX || ev[j].op == M_EXTRACT_MIN || ev[j].op == M_EXTRACT_MAX;
                    if (( ev[i].a == ev[j].a || minmax ) && ( upd_i || upd_j ))
                        nt = true;
                }
            if ( nt )
                note_class( "same_key_overlap" );
            nt = nt && st.preemptions + st.yields + st.valve > 0;
            if ( cx.quiescent_points > 1 )
                note_class( "mid_run_quiescent_points", cx.quiescent_points - 1 );
        }
        else {
            // sequential: an op on a present key, an op on an absent key and a successful removal
            bool present_hit = false, absent_hit = false, removal = cx.had_removals;
            for ( Ev const& e : cx.hist.ev ) {
                if ( e.op == M_FIND || e.op == M_ERASE || e.op == M_INSERT ) {
                    bool was_present = ( e.op == M_INSERT ) ? !e.r : e.r != 0;
                    ( was_present ? present_hit : absent_hit ) = true;
                }
            }
            nt = present_hit && absent_hit && removal;
        }
        uint64_t h = hash_mix( cx.hist.hash(), uint64_t( c.variant ));
        for ( int x : c.cfg )
            h = hash_mix( h, uint64_t( x ));
        return finish( st, h, nt );
    }
} // namespace mh

#endif
