// C27: split-order key encoding of cds::intrusive::SplitListSet.
//
// Sequential harness over the pure functions
//   split_list::regular_hash<BR> / dummy_hash<BR>        (cds/intrusive/details/split_list_base.h)
//   SplitListSet::parent_bucket (protected static)       (cds/intrusive/split_list.h)
//   SplitListSet::bucket_no     (protected member)       reads m_nBucketCountLog2 only
// for the three bit-reversal algorithms swar / lookup / muldiv.
//
// Lemma predicates (table of 2^k buckets, hash h, bucket b = h mod 2^k):
//   (1) regular(h) is odd, dummy(b) is even
//   (2) b > 0: parent_bucket(b) == b with its most significant set bit cleared, and
//       dummy(parent(b)) < dummy(b); the parent chain reaches bucket 0
//   (3) dummy(b) < regular(h)
//   (4) regular(h) < dummy(b') for every bucket b' < 2^k with dummy(b') > dummy(b); checked
//       against the successor of b in split order (computed arithmetically with a loop-based
//       reference bit reversal: the bucket whose k-bit reversal is one larger) and against a
//       second generated bucket; the `table` enumeration checks it against an independently
//       sorted list of all dummies
//   (5) bucket_no(h) == h & (2^k - 1), evaluated on a real (tiny) SplitListSet whose
//       m_nBucketCountLog2 is set to k through a derived class
// plus a reference-model check regular(h) == (reverse64(h) | 1), dummy(b) == reverse64(b) & ~1.
//
// Bucket numbers >= 2^31 (parent_wide) and table sizes >= 2^31 (bucketno_wide) are separate
// op codes that are executed by the "*_wide" variants only (the other variants count them as
// `wide_excluded`): parent_bucket / bucket_no shift an int there (known defect). The library
// calls of the wide ops run in a forked child so that a sanitizer abort becomes a normal
// fail() message that names the input.
#include "common.h"

#include <cds/intrusive/michael_list_hp.h>
#include <cds/intrusive/split_list.h>

#include <algorithm>
#include <sys/wait.h>
#include <unistd.h>

#include "stats.h"

using namespace hv;
namespace ci = cds::intrusive;

namespace {

    enum { OP_KEY = 0, OP_PARENT = 1, OP_BUCKETNO = 2, OP_PARENT_WIDE = 3, OP_BUCKETNO_WIDE = 4, OP_RAWKEY = 5, OP_RAWPARENT = 6 };

    std::string hex( uint64_t v )
    {
        char b[32];
        snprintf( b, sizeof( b ), "0x%llx", (unsigned long long) v );
        return b;
    }

    // ---- references ---------------------------------------------------------------------
    inline uint64_t ref_rev64( uint64_t x )
    {
        uint64_t r = 0;
        for ( int i = 0; i < 64; ++i )
            if (( x >> i ) & 1 )
                r |= uint64_t( 1 ) << ( 63 - i );
        return r;
    }
    inline uint64_t ref_revk( uint64_t x, unsigned k ) { return k ? ref_rev64( x ) >> ( 64 - k ) : 0; }
    inline uint64_t low_mask( unsigned k ) { return k >= 64 ? ~uint64_t( 0 ) : ( uint64_t( 1 ) << k ) - 1; }
    inline int msb_pos( uint64_t x ) { return 63 - __builtin_clzll( x ); }

    inline uint64_t mix64( uint64_t z )
    {
        z += 0x9e3779b97f4a7c15ull;
        z = ( z ^ ( z >> 30 )) * 0xbf58476d1ce4e5b9ull;
        z = ( z ^ ( z >> 27 )) * 0x94d049bb133111ebull;
        return z ^ ( z >> 31 );
    }

    // structured / random 64-bit values from (selector, seed); k = number of "low" bits of interest
    uint64_t pattern( unsigned k, uint32_t sel, uint64_t seed )
    {
        uint64_t r = mix64( seed ^ ( uint64_t( sel ) << 32 ) ^ sel );
        uint64_t lm = low_mask( k );
        unsigned q = sel / 12;
        switch ( sel % 12 ) {
        case 0: return 0;
        case 1: return uint64_t( 1 ) << ( q % 64 );                         // single bit
        case 2: return lm;                                                  // all bucket bits
        case 3: return lm ^ ( uint64_t( 1 ) << ( q % 64 ));
        case 4: return ( k < 64 ? uint64_t( 1 ) << k : 0 ) + ( q % 5 ) - 2; // neighbours of the table size
        case 5: return ~uint64_t( 0 );
        case 6: return ~( uint64_t( 1 ) << ( q % 64 ));
        case 7: return ( r & ~lm ) | ( uint64_t( 1 ) << ( q % ( k ? k : 1 )));  // random high part, single bucket bit
        case 8: return ( k < 64 ? r << k : 0 ) | lm;                        // last bucket, random high part
        case 9: return r & lm;                                              // bucket bits only
        default: return r;
        }
    }

    // ---- library access -----------------------------------------------------------------
    typedef cds::gc::HP HP;
    struct Item : ci::split_list::node<ci::michael_list::node<HP>> {
        int key = 0;
    };
    struct item_cmp {
        int operator()( Item const& a, Item const& b ) const { return a.key < b.key ? -1 : a.key > b.key ? 1 : 0; }
    };
    struct item_hash {
        size_t operator()( Item const& i ) const { return size_t( i.key ); }
        size_t operator()( int k ) const { return size_t( k ); }
    };
    struct list_traits : ci::michael_list::traits {
        typedef ci::michael_list::base_hook<ci::opt::gc<HP>> hook;
        typedef item_cmp compare;
    };
    typedef ci::MichaelList<HP, Item, list_traits> list_type;
    template <typename BR>
    struct set_traits : ci::split_list::traits {
        typedef item_hash hash;
        typedef BR bit_reversal;
    };

    // exposes the protected static / member functions; never changes behaviour
    template <typename BR>
    struct Exposed : ci::SplitListSet<HP, list_type, set_traits<BR>> {
        typedef ci::SplitListSet<HP, list_type, set_traits<BR>> base;
        Exposed()
            : base( 16, 1 )
        {}
        static size_t parent( size_t b ) { return base::parent_bucket( b ); }
        size_t bucketno( size_t h ) const { return base::bucket_no( h ); }
        size_t log2() const { return base::m_nBucketCountLog2.load( atomics::memory_order_relaxed ); }
        void set_log2( size_t k ) { base::m_nBucketCountLog2.store( k, atomics::memory_order_relaxed ); }
    };

    template <typename BR>
    inline uint64_t lib_regular( uint64_t h )
    {
        return uint64_t( ci::split_list::regular_hash<BR>( size_t( h )));
    }
    template <typename BR>
    inline uint64_t lib_dummy( uint64_t b )
    {
        return uint64_t( ci::split_list::dummy_hash<BR>( size_t( b )));
    }

    // ---- isolated evaluation (forked child) ----------------------------------------------
    struct Isolated {
        std::vector<uint64_t> values;   // results delivered before the child ended
        bool clean = false;             // child exited normally after delivering everything
        bool infra = false;             // pipe/fork trouble or a child death without a sanitizer/assert report: no verdict
        std::string diag;               // first interesting line of the child's stderr
    };
    template <typename F>
    Isolated isolated( size_t count, F f )
    {
        Isolated res;
        int pv[2], pe[2];
        if ( pipe( pv ) != 0 ) {
            res.infra = true;
            return res;
        }
        if ( pipe( pe ) != 0 ) {
            close( pv[0] );
            close( pv[1] );
            res.infra = true;
            return res;
        }
        fflush( stdout );
        fflush( stderr );
        pid_t pid = fork();
        if ( pid == 0 ) {
            close( pv[0] );
            close( pe[0] );
            dup2( pe[1], 2 );
            for ( size_t i = 0; i < count; ++i ) {
                uint64_t v = f( i );
                if ( write( pv[1], &v, sizeof( v )) != ssize_t( sizeof( v )))
                    _exit( 3 );
            }
            _exit( 0 );
        }
        close( pv[1] );
        close( pe[1] );
        if ( pid < 0 ) {
            close( pv[0] );
            close( pe[0] );
            res.diag = "fork failed";
            res.infra = true;
            return res;
        }
        uint64_t v;
        while ( res.values.size() < count ) {
            size_t got = 0;
            char* dst = reinterpret_cast<char*>( &v );
            while ( got < sizeof( v )) {
                ssize_t n = read( pv[0], dst + got, sizeof( v ) - got );
                if ( n <= 0 )
                    break;
                got += size_t( n );
            }
            if ( got < sizeof( v ))
                break;
            res.values.push_back( v );
        }
        std::string err;
        char buf[1024];
        for ( ;; ) {
            ssize_t n = read( pe[0], buf, sizeof( buf ));
            if ( n <= 0 )
                break;
            if ( err.size() < 16384 )
                err.append( buf, size_t( n ));
        }
        close( pv[0] );
        close( pe[0] );
        int status = 0;
        waitpid( pid, &status, 0 );
        res.clean = WIFEXITED( status ) && WEXITSTATUS( status ) == 0 && res.values.size() == count;
        if ( !res.clean ) {
            size_t p = err.find( "runtime error" );
            if ( p == std::string::npos )
                p = err.find( "ERROR" );
            if ( p == std::string::npos )
                p = err.find( "Assertion" );
            if ( p != std::string::npos ) {
                size_t b = err.rfind( '\n', p );
                b = b == std::string::npos ? 0 : b + 1;
                size_t e = err.find( '\n', p );
                res.diag = err.substr( b, e == std::string::npos ? std::string::npos : e - b );
            }
            else {
                res.infra = true;
                if ( WIFSIGNALED( status ))
                    res.diag = "child killed by signal " + std::to_string( WTERMSIG( status ));
                else
                    res.diag = "child exit status " + std::to_string( WIFEXITED( status ) ? WEXITSTATUS( status ) : -1 );
            }
        }
        return res;
    }

    // ---- checks --------------------------------------------------------------------------
    struct Tally {
        unsigned key_inner = 0;     // key ops with a successor dummy and hash bits above the bucket bits
        unsigned parent_deep = 0;   // parent ops whose parent is not bucket 0
        unsigned bucketno = 0;
    };

    // (1),(3),(4) + reference model for one hash in a table of 2^k buckets; b2sel picks the second bucket
    template <typename BR>
    bool check_key( unsigned k, uint64_t h, uint64_t other, Tally* tally )
    {
        uint64_t lm = low_mask( k );
        uint64_t b = h & lm;
        uint64_t rk = lib_regular<BR>( h );
        uint64_t dk = lib_dummy<BR>( b );
        std::string ctx = " [table 2^" + std::to_string( k ) + ", hash " + hex( h ) + ", bucket " + hex( b ) + "]";
        if (( rk & 1 ) == 0 ) {
            fail( "regular_hash(" + hex( h ) + ") = " + hex( rk ) + " is even" + ctx );
            return false;
        }
        if ( dk & 1 ) {
            fail( "dummy_hash(" + hex( b ) + ") = " + hex( dk ) + " is odd" + ctx );
            return false;
        }
        if ( rk != ( ref_rev64( h ) | 1 )) {
            fail( "regular_hash(" + hex( h ) + ") = " + hex( rk ) + ", reference reverse64|1 = " + hex( ref_rev64( h ) | 1 ) + ctx );
            return false;
        }
        if ( dk != ( ref_rev64( b ) & ~uint64_t( 1 ))) {
            fail( "dummy_hash(" + hex( b ) + ") = " + hex( dk ) + ", reference reverse64&~1 = " + hex( ref_rev64( b ) & ~uint64_t( 1 )) + ctx );
            return false;
        }
        if ( !( dk < rk )) {
            fail( "regular key " + hex( rk ) + " does not sort after the dummy " + hex( dk ) + " of its bucket" + ctx );
            return false;
        }
        // successor of b in split order: the bucket whose k-bit reversal is one larger
        bool has_succ = false;
        if ( k > 0 ) {
            uint64_t r = ref_revk( b, k );
            if ( r + 1 <= lm && r + 1 != 0 ) {
                has_succ = true;
                uint64_t b2 = ref_revk( r + 1, k );
                uint64_t d2 = lib_dummy<BR>( b2 );
                if ( !( d2 > dk )) {
                    fail( "dummy " + hex( d2 ) + " of bucket " + hex( b2 ) + " (next in split order) does not sort after dummy " + hex( dk ) + ctx );
                    return false;
                }
                if ( !( rk < d2 )) {
                    fail( "regular key " + hex( rk ) + " does not sort before the dummy " + hex( d2 ) + " of the next bucket " + hex( b2 ) + " in split order" + ctx );
                    return false;
                }
            }
        }
        // any other bucket of the same table
        uint64_t b3 = other & lm;
        if ( b3 != b ) {
            uint64_t d3 = lib_dummy<BR>( b3 );
            if ( d3 == dk ) {
                fail( "buckets " + hex( b ) + " and " + hex( b3 ) + " have the same dummy key " + hex( dk ) + ctx );
                return false;
            }
            if ( d3 > dk && !( rk < d3 )) {
                fail( "regular key " + hex( rk ) + " sorts after the dummy " + hex( d3 ) + " of bucket " + hex( b3 ) + " which follows its own bucket's dummy " + hex( dk ) + ctx );
                return false;
            }
        }
        if ( tally && has_succ && ( h & ~lm ) != 0 )
            ++tally->key_inner;
        return true;
    }

    // (2) for one bucket given the library's answer for parent_bucket(b); returns the parent
    template <typename BR>
    bool check_parent_value( uint64_t b, uint64_t par )
    {
        uint64_t ref = b ^ ( uint64_t( 1 ) << msb_pos( b ));
        if ( par != ref ) {
            fail( "parent_bucket(" + hex( b ) + ") = " + hex( par ) + ", expected " + hex( ref ) + " (most significant set bit cleared)" );
            return false;
        }
        uint64_t dp = lib_dummy<BR>( par ), db = lib_dummy<BR>( b );
        if ( !( dp < db )) {
            fail( "dummy " + hex( dp ) + " of parent bucket " + hex( par ) + " does not sort before dummy " + hex( db ) + " of bucket " + hex( b ));
            return false;
        }
        return true;
    }

    // the whole parent chain of b (all library calls in-process: b < 2^31)
    template <typename BR>
    bool check_parent_chain( uint64_t b, Tally* tally )
    {
        bool first = true;
        for ( int guard = 0; b != 0; ++guard ) {
            if ( guard > 64 ) {
                fail( "parent chain does not reach bucket 0" );
                return false;
            }
            uint64_t par = uint64_t( Exposed<BR>::parent( size_t( b )));
            if ( !check_parent_value<BR>( b, par ))
                return false;
            if ( first && par != 0 && tally )
                ++tally->parent_deep;
            first = false;
            b = par;
        }
        return true;
    }

    // real container for bucket_no
    template <typename BR>
    struct Box {
        HpSingleton hp;
        Attach attach;
        Exposed<BR> set;
        size_t saved;
        Box()
            : hp( Exposed<BR>::c_nHazardPtrCount + 1, 1, 16 )
            , saved( set.log2())
        {}
        ~Box() { set.set_log2( saved ); }
        uint64_t bucketno( unsigned k, uint64_t h )
        {
            set.set_log2( k );
            uint64_t r = uint64_t( set.bucketno( size_t( h )));
            set.set_log2( saved );
            return r;
        }
    };

    bool check_bucketno_value( unsigned k, uint64_t h, uint64_t got )
    {
        uint64_t ref = h & low_mask( k );
        if ( got != ref ) {
            fail( "bucket_no(" + hex( h ) + ") with 2^" + std::to_string( k ) + " buckets = " + hex( got ) + ", expected " + hex( ref ));
            return false;
        }
        return true;
    }

    uint64_t input_hash( Case const& c )
    {
        uint64_t h = hash_mix( 0x27, uint64_t( c.variant ));
        h = hash_mix( h, c.seed );
        if ( !c.prog.empty())
            for ( Op const& op : c.prog[0] )
                h = hash_mix( h, ( uint64_t( op.code ) << 56 ) ^ ( uint64_t( uint32_t( op.a )) << 32 ) ^ uint64_t( uint32_t( op.b )));
        return h;
    }

    struct WideItem {
        int code;
        unsigned k;
        uint64_t x;     // bucket / hash
    };

    template <typename BR, bool Wide>
    Verdict run_so( Case const& c )
    {
        lib_init();
        case_reset();
        Tally tally;
        std::unique_ptr<Box<BR>> box;
        std::vector<WideItem> wide;
        std::vector<Op> const empty;
        std::vector<Op> const& ops = c.prog.empty() ? empty : c.prog[0];
        for ( Op const& op : ops ) {
            if ( failed())
                break;
            uint32_t sel = uint32_t( op.b );
            switch ( op.code ) {
            case OP_KEY: {
                unsigned k = unsigned( op.a ) & 63;
                uint64_t h = pattern( k, sel, c.seed );
                check_key<BR>( k, h, pattern( k, sel * 7 + 3, c.seed + 1 ), &tally );
                break;
            }
            case OP_RAWKEY: {
                unsigned k = unsigned( op.a ) & 63;
                check_key<BR>( k, c.seed, mix64( c.seed ^ uint32_t( op.b )), &tally );
                break;
            }
            case OP_PARENT: {
                unsigned p = unsigned( op.a ) % 31;      // bucket < 2^31
                uint64_t b = ( uint64_t( 1 ) << p ) | ( pattern( p, sel, c.seed ) & low_mask( p ));
                check_parent_chain<BR>( b, &tally );
                break;
            }
            case OP_RAWPARENT: {
                uint64_t b = c.seed;
                if ( b == 0 )
                    break;
                if ( b >> 31 ) {
                    if ( Wide )
                        wide.push_back( WideItem{ OP_PARENT_WIDE, 0, b } );
                    else
                        note_class( "wide_excluded" );
                }
                else
                    check_parent_chain<BR>( b, &tally );
                break;
            }
            case OP_BUCKETNO: {
                unsigned k = unsigned( op.a ) % 31;      // table size <= 2^30
                uint64_t h = pattern( k, sel, c.seed );
                if ( !box )
                    box.reset( new Box<BR> );
                check_bucketno_value( k, h, box->bucketno( k, h ));
                ++tally.bucketno;
                break;
            }
            case OP_PARENT_WIDE: {
                if ( !Wide ) {
                    note_class( "wide_excluded" );
                    break;
                }
                unsigned p = 31 + unsigned( op.a ) % 32;  // 2^31 <= bucket < 2^63
                uint64_t b = ( uint64_t( 1 ) << p ) | ( pattern( p, sel, c.seed ) & low_mask( p ));
                wide.push_back( WideItem{ OP_PARENT_WIDE, 0, b } );
                break;
            }
            case OP_BUCKETNO_WIDE: {
                if ( !Wide ) {
                    note_class( "wide_excluded" );
                    break;
                }
                unsigned k = 31 + unsigned( op.a ) % 33;  // 2^31 .. 2^63 buckets
                wide.push_back( WideItem{ OP_BUCKETNO_WIDE, k, pattern( k, sel, c.seed ) } );
                break;
            }
            default:
                break;
            }
        }
        if ( !failed() && !wide.empty()) {
            bool need_box = false;
            for ( auto const& w : wide )
                need_box = need_box || w.code == OP_BUCKETNO_WIDE;
            if ( need_box && !box )
                box.reset( new Box<BR> );
            Box<BR>* bx = box.get();
            Isolated r = isolated( wide.size(), [&wide, bx]( size_t i ) -> uint64_t {
                WideItem const& w = wide[i];
                if ( w.code == OP_PARENT_WIDE )
                    return uint64_t( Exposed<BR>::parent( size_t( w.x )));
                return bx->bucketno( w.k, w.x );
            } );
            for ( size_t i = 0; i < wide.size() && !failed(); ++i ) {
                WideItem const& w = wide[i];
                if ( i >= r.values.size()) {
                    if ( r.infra ) {
                        // no verdict without a sanitizer / assertion report from the child
                        note_class( "isolation_inconclusive" );
                        break;
                    }
                    if ( w.code == OP_PARENT_WIDE )
                        fail( "parent_bucket(" + hex( w.x ) + ") did not return (expected " + hex( w.x ^ ( uint64_t( 1 ) << msb_pos( w.x ))) + "): " + r.diag );
                    else
                        fail( "bucket_no(" + hex( w.x ) + ") with 2^" + std::to_string( w.k ) + " buckets did not return (expected " + hex( w.x & low_mask( w.k )) + "): " + r.diag );
                    break;
                }
                if ( w.code == OP_PARENT_WIDE ) {
                    note_class( "parent_wide" );
                    if ( check_parent_value<BR>( w.x, r.values[i] ) && ( r.values[i] >> 31 ) == 0 )
                        check_parent_chain<BR>( r.values[i], nullptr );
                    if ( r.values[i] != 0 )
                        ++tally.parent_deep;
                }
                else {
                    note_class( "bucketno_wide" );
                    check_bucketno_value( w.k, w.x, r.values[i] );
                    ++tally.bucketno;
                }
            }
        }
        box.reset();
        if ( tally.key_inner )
            note_class( "key_inner", tally.key_inner );
        if ( tally.parent_deep )
            note_class( "parent_deep", tally.parent_deep );
        if ( tally.bucketno )
            note_class( "bucketno", tally.bucketno );
        return finish( SchedStats(), input_hash( c ), tally.key_inner > 0 && tally.parent_deep > 0 );
    }

    namespace br = cds::algo::bit_reversal;
    struct Variant {
        const char* name;
        Verdict (*run)( Case const& );
    };
    const Variant kVariants[] = {
        { "swar", run_so<br::swar, false> },
        { "lookup", run_so<br::lookup, false> },
        { "muldiv", run_so<br::muldiv, false> },
        { "swar_wide", run_so<br::swar, true> },
        { "lookup_wide", run_so<br::lookup, true> },
        { "muldiv_wide", run_so<br::muldiv, true> },
    };
    const size_t kNumVariants = sizeof( kVariants ) / sizeof( kVariants[0] );

    // ---- enumeration helpers ---------------------------------------------------------------
    Case raw_case( int variant, int code, int a, uint64_t seed )
    {
        Case c;
        c.harness = "pure_splitorder";
        c.variant = variant;
        c.seed = seed;
        c.prog.resize( 1 );
        c.prog[0].push_back( Op{ code, a, 0 } );
        return c;
    }

    // high parts placed above the k bucket bits
    std::vector<uint64_t> structured_high( unsigned k )
    {
        std::vector<uint64_t> s = { 0, 1, 2, 3, 5, ~uint64_t( 0 ), 0x5555555555555555ull, 0xaaaaaaaaaaaaaaaaull };
        for ( unsigned i = 0; i + k < 64; ++i ) {
            s.push_back( uint64_t( 1 ) << i );
            s.push_back( ~( uint64_t( 1 ) << i ));
        }
        for ( uint64_t i = 0; i < 16; ++i )
            s.push_back( mix64( i * 977 + k ));
        return s;
    }

    constexpr size_t kHashCap = size_t( 1 ) << 19;

    template <typename BR>
    bool table_mode( unsigned k, int variant, RunStats& stats, Case& failing )
    {
        uint64_t nb = uint64_t( 1 ) << k;
        std::vector<std::pair<uint64_t, uint64_t>> order;   // (dummy, bucket)
        order.reserve( nb );
        for ( uint64_t b = 0; b < nb; ++b )
            order.push_back( { lib_dummy<BR>( b ), b } );
        std::sort( order.begin(), order.end());
        std::vector<uint64_t> pos( nb );
        for ( uint64_t i = 0; i < nb; ++i ) {
            pos[order[i].second] = i;
            if ( order[i].first & 1 ) {
                fail( "dummy_hash(" + hex( order[i].second ) + ") = " + hex( order[i].first ) + " is odd" );
                failing = raw_case( variant, OP_RAWKEY, int( k ), order[i].second );
                return false;
            }
            if ( i && order[i - 1].first == order[i].first ) {
                fail( "buckets " + hex( order[i - 1].second ) + " and " + hex( order[i].second ) + " have the same dummy key " + hex( order[i].first ));
                failing = raw_case( variant, OP_RAWKEY, int( k ), order[i].second );
                return false;
            }
        }
        std::vector<uint64_t> highs = structured_high( k );
        for ( uint64_t b = 0; b < nb; ++b ) {
            uint64_t dk = order[pos[b]].first;
            bool has_next = pos[b] + 1 < nb;
            uint64_t dnext = has_next ? order[pos[b] + 1].first : 0;
            if ( b > 0 ) {
                // parent sorts before the bucket in the sorted list of all dummies
                uint64_t par = uint64_t( Exposed<BR>::parent( size_t( b )));
                ++stats.evaluations;
                if ( par >= nb || !check_parent_value<BR>( b, par ) || !( pos[par] < pos[b] )) {
                    fail( "parent_bucket(" + hex( b ) + ") = " + hex( par ) + " does not precede the bucket in the sorted list of dummies of the 2^" + std::to_string( k ) + " table" );
                    failing = raw_case( variant, OP_RAWPARENT, 0, b );
                    return false;
                }
            }
            for ( uint64_t hi : highs ) {
                uint64_t h = k < 64 ? (( hi << k ) | b ) : b;
                uint64_t rk = lib_regular<BR>( h );
                ++stats.evaluations;
                bool ok = ( rk & 1 ) && dk < rk && ( !has_next || rk < dnext );
                // the arithmetic version of the same statement (as used by the random campaign)
                ok = ok && check_key<BR>( k, h, hi, nullptr );
                if ( !ok ) {
                    fail( "regular key " + hex( rk ) + " of hash " + hex( h ) + " is not inside ( dummy " + hex( dk ) + " of bucket " + hex( b ) + ", next dummy "
                          + ( has_next ? hex( dnext ) : std::string( "none" )) + " ) in the sorted dummy list of the 2^" + std::to_string( k ) + " table" );
                    failing = raw_case( variant, OP_RAWKEY, int( k ), h );
                    return false;
                }
                if ( has_next && ( h >> k ) != 0 && stats.nt_hashes.size() < kHashCap )
                    stats.nt_hashes.insert( hash_mix( hash_mix( 0x27a + uint64_t( variant ), k ), h ));
                if ( has_next && ( h >> k ) != 0 )
                    ++stats.nontrivial;
            }
        }
        return true;
    }

    template <typename BR>
    bool parents_mode( uint64_t lo, uint64_t hi, int variant, RunStats& stats, Case& failing )
    {
        for ( uint64_t b = lo ? lo : 1; b < hi; ++b ) {
            uint64_t par = uint64_t( Exposed<BR>::parent( size_t( b )));
            ++stats.evaluations;
            if ( !check_parent_value<BR>( b, par )) {
                failing = raw_case( variant, OP_RAWPARENT, 0, b );
                return false;
            }
            if ( par != 0 ) {
                ++stats.nontrivial;
                if (( b & 0x3f ) == 0x2b && stats.nt_hashes.size() < kHashCap )
                    stats.nt_hashes.insert( hash_mix( 0x27b + uint64_t( variant ), b ));
            }
        }
        return true;
    }
}

namespace cdsverif {
    Schema const& harness_schema()
    {
        static Schema s = []() {
            Schema x;
            x.name = "pure_splitorder";
            for ( size_t i = 0; i < kNumVariants; ++i )
                x.variants.push_back( kVariants[i].name );
            x.cfg = {};
            // key:           a = k (table 2^k), b = hash pattern selector (with the case seed)
            // parent:        a = position of the most significant bit (0..30), b = selector of the lower bits
            // bucketno:      a = k (0..30), b = hash selector
            // parent_wide:   a + 31 = position of the most significant bit (31..62)      [*_wide variants only]
            // bucketno_wide: a + 31 = k (31..63)                                         [*_wide variants only]
            // rawkey:        a = k, hash = case seed (64 bit); rawparent: bucket = case seed   [replay of enumeration failures]
            x.ops = { { "key", 10, 63, 1 << 30 }, { "parent", 5, 30, 1 << 30 }, { "bucketno", 2, 30, 1 << 30 }, { "parent_wide", 3, 31, 1 << 30 },
                { "bucketno_wide", 1, 32, 1 << 30 }, { "rawkey", 0, 63, 1 << 30 }, { "rawparent", 0, 0, 0 } };
            x.sequential = true;
            x.min_threads = 1;
            x.max_threads_quick = 1;
            x.max_threads_thorough = 1;
            x.max_ops_quick = 30;
            x.max_ops_thorough = 60;
            x.max_preempt_quick = 0;
            x.max_preempt_thorough = 0;
            x.nontrivial_rule = ">=1 key op whose hash has bits above the k bucket bits and whose bucket has a successor dummy in split order (clause 'before the next dummy' is exercised), "
                                "and >=1 parent op whose parent is not bucket 0";
            return x;
        }();
        return s;
    }

    Verdict run_case( Case const& c )
    {
        size_t v = size_t( c.variant ) < kNumVariants ? size_t( c.variant ) : 0;
        return kVariants[v].run( c );
    }

    // --extra table <k>              k <= 16: all 2^k buckets x structured hashes, against the sorted list of all dummies, 3 algorithms
    // --extra parents <shard> <n> [<lg>]  all buckets of the shard-th of n slices of [1, 2^lg) (lg = 24, at most 31), 3 algorithms
    int harness_extra( int argc, char** argv, RunStats& stats )
    {
        Schema const& s = harness_schema();
        std::string mode = argc > 0 ? argv[0] : "";
        lib_init();
        case_reset();
        Case failing;
        bool ok = true;
        if ( mode == "table" && argc > 1 ) {
            unsigned k = unsigned( atoi( argv[1] ));
            if ( k > 16 ) {
                fprintf( stderr, "table: k <= 16\n" );
                return 2;
            }
            uint64_t before = 0;
            for ( int v = 0; v < 3 && ok; ++v ) {
                before = stats.evaluations;
                uint64_t nt0 = stats.nontrivial;
                ok = v == 0 ? table_mode<br::swar>( k, v, stats, failing ) : v == 1 ? table_mode<br::lookup>( k, v, stats, failing ) : table_mode<br::muldiv>( k, v, stats, failing );
                stats.per_variant[v] += stats.evaluations - before;
                stats.per_variant_nt[v] += stats.nontrivial - nt0;
            }
            if ( ok ) {
                stats.exhaustive_domains.push_back( "table 2^" + std::to_string( k ) + ": every bucket x " + std::to_string( structured_high( k ).size())
                                                    + " structured hash high parts, and every parent, against the sorted list of all dummy keys; swar, lookup, muldiv" );
                stats.samples.push_back( to_text( raw_case( 0, OP_RAWKEY, int( k ), ( uint64_t( 0x55 ) << k ) | ( k ? 1 : 0 )), s ));
                stats.samples.push_back( to_text( raw_case( 1, OP_RAWPARENT, 0, k ? ( uint64_t( 1 ) << ( k - 1 )) | 1 : 1 ), s ));
            }
        }
        else if ( mode == "parents" && argc > 2 ) {
            uint64_t shard = strtoull( argv[1], nullptr, 0 ), n = strtoull( argv[2], nullptr, 0 );
            if ( n == 0 || shard >= n ) {
                fprintf( stderr, "parents: shard < n\n" );
                return 2;
            }
            unsigned lg = argc > 3 ? unsigned( atoi( argv[3] )) : 24;
            if ( lg < 1 || lg > 31 ) {
                fprintf( stderr, "parents: log2 of the range must be 1..31\n" );
                return 2;
            }
            uint64_t total = uint64_t( 1 ) << lg;
            uint64_t lo = total / n * shard, hi = shard + 1 == n ? total : total / n * ( shard + 1 );
            for ( int v = 0; v < 3 && ok; ++v ) {
                uint64_t before = stats.evaluations, nt0 = stats.nontrivial;
                ok = v == 0 ? parents_mode<br::swar>( lo, hi, v, stats, failing ) : v == 1 ? parents_mode<br::lookup>( lo, hi, v, stats, failing ) : parents_mode<br::muldiv>( lo, hi, v, stats, failing );
                stats.per_variant[v] += stats.evaluations - before;
                stats.per_variant_nt[v] += stats.nontrivial - nt0;
            }
            if ( ok ) {
                stats.exhaustive_domains.push_back( "parent_bucket and dummy(parent) < dummy(bucket) for every bucket in [" + std::to_string( lo ? lo : 1 ) + ", " + std::to_string( hi )
                                                    + "); swar, lookup, muldiv" );
                stats.samples.push_back( to_text( raw_case( 0, OP_RAWPARENT, 0, hi - 1 ), s ));
                stats.samples.push_back( to_text( raw_case( 2, OP_RAWPARENT, 0, ( lo ? lo : 1 ) + 2 ), s ));
            }
        }
        else {
            fprintf( stderr, "usage: --extra table <k> | parents <shard> <n> [<lg>]\n" );
            return 2;
        }
        if ( !ok ) {
            stats.failc++;
            stats.pass += stats.evaluations ? stats.evaluations - 1 : 0;
            write_file( stats.prefix + ".failing.case", to_text( failing, s ) + "# " + fail_msg() + "\n" );
            fprintf( stderr, "FAIL %s\n", fail_msg().c_str());
            return 1;
        }
        stats.pass += stats.evaluations;
        return 0;
    }
}
