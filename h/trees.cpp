// C15 (tree part) + C18: EllenBinTreeSet/Map over HP, DHP, RCU; BronsonAVLTreeMap (value and pointer variants) over RCU - concurrent linearizability harness
#include "mapcommon_impl.h"
#include "fam_trees.h"

using namespace mh;

namespace {
    const MapHarnessConfig kConfig = { "trees", fam_trees::kTreesVariants, fam_trees::kTreesCount, 3, false, true };
}

namespace cdsverif {
    Schema const& harness_schema()
    {
        static Schema s = make_map_schema( kConfig, {}, fam_trees::kTreesRule );
        return s;
    }
    Verdict run_case( Case const& c ) { return run_map_case( kConfig, c ); }
}
