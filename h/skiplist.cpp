// C15 (skip-list part) + C18: SkipListSet/Map over HP, DHP, RCU and nogc - concurrent linearizability harness
#include "mapcommon_impl.h"
#include "fam_skiplist.h"

using namespace mh;

namespace {
    const MapHarnessConfig kConfig = { "skiplist", fam_skiplist::kSkiplistVariants, fam_skiplist::kSkiplistCount, 3, false, true };
}

namespace cdsverif {
    Schema const& harness_schema()
    {
        static Schema s = make_map_schema( kConfig, { { "levels", 0, 3 } }, fam_skiplist::kSkiplistRule );
        return s;
    }
    Verdict run_case( Case const& c ) { return run_map_case( kConfig, c ); }
}
