// C16 family in sequential differential mode (keys 0..7): Cuckoo + Striped over std containers
#define LOCKHASH_HARNESS_NAME "seq_lockhash"
#define LOCKHASH_SEQUENTIAL 1
#include "lockhash_body.h"
