// C01 / C02 / C03: Hazard Pointer and Dynamic Hazard Pointer reclamation, driven directly
// through the public cds::gc::HP / cds::gc::DHP API (Guard, GuardArray, retire, scan,
// attach/detach). Variants: hp_inplace, hp_classic, dhp.
#include "common.h"

namespace hv {
    Registry& registry()
    {
        static Registry r;
        return r;
    }
    Graveyard& graveyard()
    {
        static Graveyard g;
        return g;
    }
}

using namespace hv;

namespace {
    // Tracked object; packed so that it may legally live at an odd address
    // (odd addresses force HP's in-place scan onto the classic path).
    struct __attribute__(( packed )) Obj {
        uint64_t canary;
        int32_t id;
    };
    constexpr uint64_t kLive = 0x11fe11fe11fe11feull;

    struct ObjInfo {
        void* block = nullptr;      // allocation base (really freed on disposal)
        bool retired = false;
        int retired_by = -1;        // worker index (0 = main)
        uint64_t retire_epoch = 0;  // attach epoch of the retiring thread
        bool disposed = false;
        uint64_t dispose_call_begin = 0;
    };

    struct ThreadState;

    struct World {
        std::vector<ObjInfo> info;                  // by object id
        std::vector<ThreadState*> threads;          // index 0 = main
        std::vector<uint64_t> call_begin;           // tick at which the current API call of thread i began
        std::vector<bool> inflight;                 // thread i is inside a protect/assign attempt
        uint64_t scans_with_foreign_guard = 0;
        uint64_t disposals = 0;
        int odd_percent = 0;
    };
    World* W = nullptr;
    bool debug()
    {
        static bool d = getenv( "CDSVERIF_DEBUG" ) != nullptr;
        return d;
    }
    thread_local int t_index = 0;

    struct Held {
        int id = -1;                // object id protected by this guard, -1 none
        uint64_t since = 0;         // tick at which protection was established
    };

    struct ThreadState {
        std::vector<Held> held;     // parallel to the guard objects of the thread
        uint64_t attach_epoch = 0;
    };

    Obj* new_obj()
    {
        int id = registry().add();
        bool odd = int( CaseRng::next() % 100 ) < W->odd_percent;
        char* block = static_cast<char*>( ::operator new( sizeof( Obj ) + 8 ));
        Obj* o = reinterpret_cast<Obj*>( block + ( odd ? 1 : 0 ));
        o->canary = kLive;
        o->id = id;
        if ( W->info.size() <= size_t( id ))
            W->info.resize( size_t( id ) + 1 );
        W->info[size_t( id )].block = block;
        return o;
    }

    struct Disposer {
        void operator()( Obj* p ) const
        {
            no_sched ns;
            int id = p->id;
            registry().on_dispose( id, "retired object" );
            if ( p->canary != kLive )
                fail( "disposer called for an object with a bad canary (already freed?)" );
            ObjInfo& oi = W->info[size_t( id )];
            if ( !oi.retired )
                fail( "disposer called for object #" + std::to_string( id ) + " that was never retired" );
            uint64_t cb = W->call_begin[size_t( t_index )];
            // C01/C02: no guard that protected the object before the reclaiming call began may still hold it
            bool foreign = false;
            for ( size_t t = 0; t < W->threads.size(); ++t ) {
                ThreadState* ts = W->threads[t];
                if ( !ts )
                    continue;
                for ( Held const& h : ts->held ) {
                    if ( h.id == id && h.since < cb ) {
                        fail( "object #" + std::to_string( id ) + " given to its disposer by thread " + std::to_string( t_index )
                            + " while a guard of thread " + std::to_string( t ) + " (protecting it since t=" + std::to_string( h.since )
                            + ", reclaiming call began t=" + std::to_string( cb ) + ") still holds it" );
                    }
                    if ( h.id >= 0 && int( t ) != t_index && W->info[size_t( h.id )].retired )
                        foreign = true;
                }
            }
            if ( foreign )
                ++W->scans_with_foreign_guard;
            ++W->disposals;
            if ( debug())
                fprintf( stderr, "   dispose #%d by T%d (call began %llu)\n", id, t_index, (unsigned long long) cb );
            if ( oi.disposed )
                return;         // double dispose already reported; do not free twice
            oi.disposed = true;
            oi.dispose_call_begin = cb;
            p->canary = 0xdeaddeaddeaddeadull;
            ::operator delete( oi.block );
        }
    };

    // ---- GC specifics ------------------------------------------------------------------
    struct HpTraits {
        typedef cds::gc::HP gc;
        static constexpr bool dynamic = false;
    };
    struct DhpTraits {
        typedef cds::gc::DHP gc;
        static constexpr bool dynamic = true;
    };

    enum {
        OP_PROTECT = 0,     // a = guard index, b = slot
        OP_ASSIGN = 1,      // a = guard index, b = slot  (assign + re-check)
        OP_COPY = 2,        // a = dst guard, b = src guard
        OP_DEREF = 3,       // a = guard index
        OP_RELEASE = 4,     // a = guard index
        OP_SWAP_RETIRE = 5, // b = slot
        OP_RETIRE_MANY = 6, // a = count selector
        OP_SCAN = 7,
        OP_REATTACH = 8,
        OP_MORE_GUARDS = 9, // DHP: allocate a more guards (extension blocks); a = count selector
        OP_ARRAY = 10,      // GuardArray<3>: protect slot b in element a%3, deref, destroy
    };

    template <typename Tr>
    struct Runner {
        typedef typename Tr::gc GC;
        typedef typename GC::Guard Guard;

        Case const& c;
        std::vector<atomics::atomic<Obj*>*> slots;
        size_t nguards;         // guards allocated per thread at start
        size_t retire_unit;     // scale for retire_many
        size_t max_guards;      // cap for MORE_GUARDS

        explicit Runner( Case const& cc ) : c( cc ) {}

        void check_deref( ThreadState& ts, size_t g, Obj* p, const char* where )
        {
            Held& h = ts.held[g];
            if ( h.id < 0 )
                return;
            ObjInfo const& oi = W->info[size_t( h.id )];
            if ( oi.disposed ) {
                if ( h.since < oi.dispose_call_begin )
                    fail( std::string( "guarded object #" ) + std::to_string( h.id ) + " found disposed at " + where
                        + " (protected since t=" + std::to_string( h.since ) + ", reclaiming call began t=" + std::to_string( oi.dispose_call_begin ) + ")" );
                // protection was established by copy() after the reclaiming pass had begun: the
                // statement does not cover it; the client simply stops using the pointer
                h.id = -1;
                return;
            }
            if ( p && p->canary != kLive )
                fail( std::string( "guarded object has a bad canary at " ) + where );
        }

        void retire_obj( Obj* p )
        {
            ObjInfo& oi = W->info[size_t( p->id )];
            oi.retired = true;
            oi.retired_by = t_index;
            oi.retire_epoch = W->threads[size_t( t_index )]->attach_epoch;
            if ( debug())
                fprintf( stderr, "   retire #%d by T%d\n", p->id, t_index );
            GC::template retire<Disposer>( p );
        }

        // after an explicit scan() that ran without any token switch: every object retired by this thread in
        // its current attachment that no guard held when the call began must be gone (C03, promptness clause)
        void promptness_check( std::vector<int> const& unguarded_before )
        {
            for ( int id : unguarded_before )
                if ( !W->info[size_t( id )].disposed ) {
                    fail( "scan() ran while no guard protected retired object #" + std::to_string( id ) + " but did not dispose it" );
                    return;
                }
        }

        std::vector<int> my_unguarded_retired()
        {
            std::vector<int> out;
            ThreadState* me = W->threads[size_t( t_index )];
            for ( size_t id = 0; id < W->info.size(); ++id ) {
                ObjInfo const& oi = W->info[id];
                if ( !oi.retired || oi.disposed || oi.retired_by != t_index || oi.retire_epoch != me->attach_epoch )
                    continue;
                bool guarded = false;
                for ( ThreadState* ts : W->threads )
                    if ( ts )
                        for ( Held const& h : ts->held )
                            if ( h.id == int( id ))
                                guarded = true;
                if ( !guarded )
                    out.push_back( int( id ));
            }
            return out;
        }

        bool anybody_inflight() const
        {
            for ( size_t t = 0; t < W->inflight.size(); ++t )
                if ( W->inflight[t] && int( t ) != t_index )
                    return true;
            return false;
        }

        void body( size_t t )
        {
            t_index = int( t ) + 1;
            ThreadState ts;
            W->threads[size_t( t_index )] = &ts;
            cds::threading::Manager::attachThread();
            ts.attach_epoch = tick();
            {
                std::vector<std::unique_ptr<Guard>> guards;
                auto make_guards = [&]( size_t n ) {
                    for ( size_t i = 0; i < n; ++i ) {
                        guards.emplace_back( new Guard );
                        ts.held.emplace_back();
                    }
                };
                make_guards( nguards );
                for ( Op const& op : c.prog[t] ) {
                    W->call_begin[size_t( t_index )] = tick();
                    if ( debug())
                        fprintf( stderr, "[t=%llu] T%d op %d a=%d b=%d\n", (unsigned long long) W->call_begin[size_t( t_index )], t_index, op.code, op.a, op.b );
                    size_t g = guards.empty() ? 0 : size_t( op.a ) % guards.size();
                    size_t s = size_t( op.b ) % slots.size();
                    // a hazard slot of this thread may hold a pointer that the bookkeeping in `held` does not
                    // (yet / any more) list while a guard is being set, cleared, created or destroyed
                    bool const touches_guards = op.code == OP_PROTECT || op.code == OP_ASSIGN || op.code == OP_COPY || op.code == OP_RELEASE
                        || op.code == OP_REATTACH || op.code == OP_MORE_GUARDS || op.code == OP_ARRAY;
                    struct Fl {
                        bool on;
                        explicit Fl( bool b ) : on( b ) { if ( on ) W->inflight[size_t( t_index )] = true; }
                        ~Fl() { if ( on ) W->inflight[size_t( t_index )] = false; }
                    } fl( touches_guards );
                    switch ( op.code ) {
                    case OP_PROTECT: {
                        if ( guards.empty()) break;
                        check_deref( ts, g, nullptr, "re-protect" );
                        ts.held[g].id = -1;
                        Obj* p = guards[g]->protect( *slots[s] );
                        if ( p ) {
                            ts.held[g].id = p->id;
                            ts.held[g].since = tick();
                            check_deref( ts, g, p, "protect return" );
                        }
                        break;
                    }
                    case OP_ASSIGN: {
                        if ( guards.empty()) break;
                        ts.held[g].id = -1;
                        Obj* p = slots[s]->load( atomics::memory_order_acquire );
                        guards[g]->assign( p );
                        Obj* q = slots[s]->load( atomics::memory_order_acquire );
                        if ( p && p == q ) {
                            ts.held[g].id = p->id;
                            ts.held[g].since = tick();
                        }
                        else
                            guards[g]->clear();
                        break;
                    }
                    case OP_COPY: {
                        if ( guards.size() < 2 ) break;
                        size_t src = size_t( op.b ) % guards.size();
                        if ( src == g ) break;
                        check_deref( ts, src, nullptr, "copy source" );
                        ts.held[g].id = -1;
                        guards[g]->copy( *guards[src] );
                        if ( ts.held[src].id >= 0 ) {
                            ts.held[g].id = ts.held[src].id;
                            ts.held[g].since = tick();
                        }
                        else
                            guards[g]->clear();
                        break;
                    }
                    case OP_DEREF: {
                        if ( guards.empty()) break;
                        cdsverif::point();
                        Obj* p = ts.held[g].id >= 0 ? guards[g]->template get<Obj>() : nullptr;
                        check_deref( ts, g, p, "deref" );
                        break;
                    }
                    case OP_RELEASE: {
                        if ( guards.empty()) break;
                        Obj* p = ts.held[g].id >= 0 ? guards[g]->template get<Obj>() : nullptr;
                        check_deref( ts, g, p, "release" );
                        ts.held[g].id = -1;
                        guards[g]->clear();
                        break;
                    }
                    case OP_SWAP_RETIRE: {
                        Obj* n = new_obj();
                        Obj* old = slots[s]->exchange( n, atomics::memory_order_acq_rel );
                        if ( old )
                            retire_obj( old );
                        break;
                    }
                    case OP_RETIRE_MANY: {
                        size_t n = 1 + ( size_t( op.a ) * retire_unit ) / 4;
                        for ( size_t i = 0; i < n; ++i )
                            retire_obj( new_obj());
                        break;
                    }
                    case OP_SCAN: {
                        std::vector<int> ung = my_unguarded_retired();
                        bool quiet = !anybody_inflight();
                        uint64_t sw = session_stats().switches;
                        GC::scan();
                        note_class( "explicit_scan" );
                        if ( quiet && session_stats().switches == sw ) {
                            note_class( "promptness_checked" );
                            promptness_check( ung );
                        }
                        // a scan that ran while another thread guards a retired object
                        for ( size_t k = 0; k < W->threads.size(); ++k )
                            if ( W->threads[k] && int( k ) != t_index )
                                for ( Held const& h : W->threads[k]->held )
                                    if ( h.id >= 0 && W->info[size_t( h.id )].retired ) {
                                        ++W->scans_with_foreign_guard;
                                        goto counted;
                                    }
                    counted:
                        break;
                    }
                    case OP_REATTACH: {
                        for ( size_t k = 0; k < guards.size(); ++k ) {
                            Obj* p = ts.held[k].id >= 0 ? guards[k]->template get<Obj>() : nullptr;
                            check_deref( ts, k, p, "detach" );
                        }
                        size_t n = guards.size() > nguards ? nguards : guards.size();
                        ts.held.clear();        // bookkeeping first: from here on the objects may legally go
                        guards.clear();
                        cds::threading::Manager::detachThread();
                        note_class( "reattach" );
                        cds::threading::Manager::attachThread();
                        ts.attach_epoch = tick();
                        make_guards( n );
                        break;
                    }
                    case OP_MORE_GUARDS: {
                        if ( !Tr::dynamic ) break;
                        size_t n = 1 + size_t( op.a ) * 5;
                        if ( guards.size() + n > max_guards ) break;
                        make_guards( n );
                        note_class( "more_guards" );
                        break;
                    }
                    case OP_ARRAY: {
                        if ( !Tr::dynamic && nguards + 3 > hp_count )
                            break;
                        typename GC::template GuardArray<3> arr;
                        size_t k = size_t( op.a ) % 3;
                        size_t base = ts.held.size();
                        ts.held.emplace_back();
                        Obj* p = arr.protect( k, *slots[s] );
                        if ( p ) {
                            ts.held[base].id = p->id;
                            ts.held[base].since = tick();
                        }
                        cdsverif::point();
                        {
                            Held& h = ts.held[base];
                            if ( h.id >= 0 ) {
                                ObjInfo const& oi = W->info[size_t( h.id )];
                                if ( oi.disposed && h.since < oi.dispose_call_begin )
                                    fail( "object #" + std::to_string( h.id ) + " protected by a GuardArray element found disposed" );
                                else if ( !oi.disposed && p->canary != kLive )
                                    fail( "object protected by a GuardArray element has a bad canary" );
                            }
                        }
                        ts.held.pop_back();
                        break;
                    }
                    }
                }
                // release everything before detaching
                W->inflight[size_t( t_index )] = true;
                for ( size_t k = 0; k < guards.size(); ++k ) {
                    Obj* p = ts.held[k].id >= 0 ? guards[k]->template get<Obj>() : nullptr;
                    check_deref( ts, k, p, "thread end" );
                }
                ts.held.clear();
                guards.clear();
            }
            W->call_begin[size_t( t_index )] = tick();
            W->threads[size_t( t_index )] = nullptr;
            cds::threading::Manager::detachThread();
            W->inflight[size_t( t_index )] = false;
        }

        size_t hp_count = 0;

        Verdict run( bool classic )
        {
            lib_init();
            case_reset();
            registry().reset();
            CaseRng::seed( c.seed );
            World world;
            W = &world;
            size_t T = c.prog.size();
            world.threads.assign( T + 1, nullptr );
            world.call_begin.assign( T + 1, 0 );
            world.inflight.assign( T + 1, false );
            world.odd_percent = cfg_at( c, 4, 0 ) * 10;
            SchedStats st;
            size_t nslots = size_t( cfg_at( c, 3, 2 ));
            size_t retired_cap = 0;
            // HP only: leave main attached so that ~HP() runs the detach_all_thread path (the DHP thread-local
            // record pointer is private to src/dhp.cpp and could not be reset for the next case)
            bool const main_attached = !Tr::dynamic && cfg_at( c, 5, 0 ) != 0;
            {
                std::unique_ptr<HpSingleton> hp;
                std::unique_ptr<DhpSingleton> dhp;
                if ( !Tr::dynamic ) {
                    hp_count = size_t( cfg_at( c, 0, 2 ));
                    size_t maxthreads = T + 1 + size_t( cfg_at( c, 1, 0 ));
                    int capsel = cfg_at( c, 2, 0 );
                    size_t hn = hp_count * maxthreads;
                    retired_cap = capsel == 0 ? 0 : hn + 1 + size_t( capsel - 1 ) * hn / 2;
                    hp.reset( new HpSingleton( hp_count, maxthreads, retired_cap, classic ));
                    if ( retired_cap == 0 )
                        retired_cap = 2 * hn;
                    nguards = hp_count > 3 ? hp_count - 3 : hp_count;      // leave room for a GuardArray<3> when possible
                    if ( nguards == 0 )
                        nguards = 1;
                    retire_unit = retired_cap;
                    max_guards = hp_count;
                }
                else {
                    int init = cfg_at( c, 0, 4 );
                    // values below 4 are silently replaced by 16 by the library
                    dhp.reset( new DhpSingleton( size_t( init )));
                    size_t eff = init < 4 ? 16 : size_t( init );
                    nguards = 2 + size_t( cfg_at( c, 1, 0 ));
                    (void) eff;
                    retire_unit = size_t( 40 + 150 * cfg_at( c, 2, 0 ));   // up to several 256-entry blocks
                    max_guards = 60;
                }
                {
                    // C01-C03 quantify over the interleavings of scan() itself: keep the hazard collection pre-emptible
                    SchedParams sp = sched_params( c );
                    sp.scan_atomic = false;
                    session_begin( sp );
                }
                t_index = 0;
                ThreadState main_ts;
                world.threads[0] = &main_ts;
                cds::threading::Manager::attachThread();
                main_ts.attach_epoch = tick();
                for ( size_t i = 0; i < nslots; ++i )
                    slots.push_back( new atomics::atomic<Obj*>( new_obj()));
                std::vector<std::function<void()>> bodies;
                for ( size_t t = 0; t < T; ++t )
                    bodies.push_back( [this, t]() { body( t ); } );
                run_threads( bodies );
                t_index = 0;
                // retire what is still published; with or without detaching main first
                world.call_begin[0] = tick();
                for ( auto* s : slots ) {
                    Obj* p = s->exchange( nullptr, atomics::memory_order_acq_rel );
                    if ( p )
                        retire_obj( p );
                }
                world.call_begin[0] = tick();
                if ( !main_attached )
                    cds::threading::Manager::detachThread();
                world.threads[0] = nullptr;
                st = session_end();
                world.call_begin[0] = ~0ull >> 1;
            }   // singleton destroyed (detach_all_thread when main did not detach)
            if ( main_attached ) {
                // the singleton is gone and took main's thread record with it (detach_all_thread):
                // drop the stale libcds thread data of main without touching SMR again
                cds::gc::hp::details::DefaultTLSManager::setTLS( nullptr );
                cds::threading::Manager::detachThread();
            }
            for ( auto* s : slots )
                delete s;
            slots.clear();
            // C03: exactly once, no later than singleton destruction
            if ( !failed())
                for ( size_t id = 0; id < world.info.size(); ++id ) {
                    ObjInfo const& oi = world.info[id];
                    int d = registry().recs[id].disposed;
                    if ( oi.retired && d != 1 ) {
                        fail( "retired object #" + std::to_string( id ) + " was disposed " + std::to_string( d ) + " times by the time the SMR singleton was destroyed" );
                        break;
                    }
                    if ( !oi.retired && d != 0 ) {
                        fail( "object #" + std::to_string( id ) + " was never retired but was disposed" );
                        break;
                    }
                }
            // memory of never-disposed objects (after a failure) is released here
            for ( ObjInfo& oi : world.info )
                if ( !oi.disposed && oi.block )
                    ::operator delete( oi.block );
            if ( world.scans_with_foreign_guard )
                note_class( "reclaim_while_foreign_guard", world.scans_with_foreign_guard );
            if ( world.disposals )
                note_class( "case_with_disposals_before_end" );
            uint64_t h = 0x51;
            for ( auto const& t : c.prog )
                for ( Op const& op : t )
                    h = hash_mix( h, uint64_t( op.code ) * 1000003u + uint64_t( op.a ) * 131 + uint64_t( op.b ));
            h = hash_mix( h, uint64_t( c.variant ) * 77 + uint64_t( world.info.size()));
            W = nullptr;
            return finish( st, h, world.scans_with_foreign_guard > 0 );
        }
    };
}

namespace cdsverif {
    Schema const& harness_schema()
    {
        static Schema s = []() {
            Schema x;
            x.name = "smr";
            x.variants = { "hp_inplace", "hp_classic", "dhp" };
            // HP: hazards, extra_threads, retired-capacity selector (0 = default rule), slots, odd-address tenths, main-stays-attached
            // DHP: initial guard count (values < 4 become 16), extra guards per thread, retire scale, slots, odd tenths, main-stays-attached
            x.cfg = { { "hazards", 1, 6 }, { "extra", 0, 2 }, { "capsel", 0, 4 }, { "slots", 1, 2 }, { "odd", 0, 3 }, { "main_attached", 0, 1 } };
            x.ops = {
                { "protect", 9, 7, 2 }, { "assign", 2, 7, 2 }, { "copy", 2, 7, 7 }, { "deref", 6, 7, 0 }, { "release", 2, 7, 0 },
                { "swap_retire", 9, 0, 2 }, { "retire_many", 2, 4, 0 }, { "scan", 5, 0, 0 }, { "reattach", 1, 0, 0 },
                { "more_guards", 1, 7, 0 }, { "array", 1, 2, 2 },
            };
            x.max_ops_quick = 7;
            x.max_ops_thorough = 10;
            x.nontrivial_rule = "a reclamation pass (explicit scan, threshold-triggered scan, help_scan or detach) ran or disposed objects while a guard of another thread held a retired object";
            return x;
        }();
        return s;
    }

    Verdict run_case( Case const& c )
    {
        if ( c.variant == 2 ) {
            Runner<DhpTraits> r( c );
            return r.run( false );
        }
        Runner<HpTraits> r( c );
        return r.run( c.variant == 1 );
    }
}
