// Reusable adapters for the generic map harness (see mapcommon.h).
//   GuardedSetAdapter<Set>  - container::*Set<HP|DHP, Item, ...> with the standard guarded_ptr API
//   (other families add their own adapters next to it)
#ifndef CDSVERIF_H_MAP_ADAPTERS_H
#define CDSVERIF_H_MAP_ADAPTERS_H

#include "mapcommon.h"

namespace mh {

    // Standard HP/DHP value-set API:
    //   insert(val) / insert(val, f(Item&)) / update(val, f(bool bNew, Item&, Q const&), bAllowInsert) / emplace(k, tag)
    //   erase(key) / erase(key, f(Item const&)) / extract(key)->guarded_ptr / get(key)->guarded_ptr
    //   find(key, f(Item&, Q const&)) / contains(key) / size() / empty() / begin()..end() at quiescence
    template <typename Set, bool Ordered = true>
    struct GuardedSetAdapter : AdapterBase {
        typedef typename Set::gc GC;
        Set s;
        int hold;

        template <typename... Args>
        explicit GuardedSetAdapter( Case const& c, Args&&... args )
            : s( std::forward<Args>( args )... ), hold( cfg_at( c, 2, 0 ))
        {}

        bool supports( int op ) const override
        {
            return op != O_UNLINK && op != O_EXTRACT_MIN && op != O_EXTRACT_MAX;
        }

        Res apply( int op, int key, int tag ) override
        {
            Res r;
            switch ( op ) {
            case O_INSERT:
                r.r = s.insert( Item( key, tag )) ? 1 : 0;
                break;
            case O_INSERT_F: {
                int calls = 0;
                r.r = s.insert( Item( key, tag ), [&]( Item& it ) { ++calls; r.key = it.key; } ) ? 1 : 0;
                r.fcalls = calls;
                break;
            }
            case O_UPDATE:
            case O_UPDATE_NOINS: {
                int calls = 0;
                std::pair<bool, bool> p = s.update( Item( key, tag ), [&]( bool bNew, Item& it, Item const& ) {
                    ++calls;
                    r.fnew = bNew ? 1 : 0;
                    r.tag = it.tag;
                    r.key = it.key;
                }, op == O_UPDATE );
                r.fcalls = calls;
                r.r = !p.first ? 0 : p.second ? 2 : 1;
                if ( r.r == 2 )
                    r.tag = tag;
                break;
            }
            case O_EMPLACE:
                r.r = s.emplace( key, tag ) ? 1 : 0;
                break;
            case O_ERASE:
                r.r = s.erase( key ) ? 1 : 0;
                break;
            case O_ERASE_F: {
                int calls = 0;
                r.r = s.erase( key, [&]( Item const& it ) { ++calls; r.tag = it.tag; r.key = it.key; } ) ? 1 : 0;
                r.fcalls = calls;
                break;
            }
            case O_EXTRACT: {
                typename Set::guarded_ptr gp( s.extract( key ));
                if ( gp ) {
                    r.r = 1;
                    r.tag = gp->tag;
                    r.key = gp->key;
                    hold_and_check( &*gp, hold );
                }
                break;
            }
            case O_GET: {
                typename Set::guarded_ptr gp( s.get( key ));
                if ( gp ) {
                    r.r = 1;
                    r.tag = gp->tag;
                    r.key = gp->key;
                    hold_and_check( &*gp, hold );
                }
                break;
            }
            case O_FIND_F: {
                int calls = 0;
                r.r = s.find( key, [&]( Item& it, int const& ) { ++calls; r.tag = it.tag; r.key = it.key; } ) ? 1 : 0;
                r.fcalls = calls;
                break;
            }
            case O_CONTAINS:
                r.r = s.contains( key ) ? 1 : 0;
                break;
            default:
                r.unsupported = true;
                break;
            }
            return r;
        }

        bool has_counter() const override
        {
            return !std::is_same<typename Set::item_counter, cds::atomicity::empty_item_counter>::value;
        }
        size_t size() const override { return s.size(); }
        bool empty() const override { return s.empty(); }
        bool traverse( std::vector<int>& keys ) override
        {
            for ( auto it = s.begin(); it != s.end(); ++it )
                keys.push_back( it->key );
            return true;
        }
        void scan() override { GC::scan(); }
    };

    template <typename Set, typename... Args>
    AdapterBase* make_guarded_set( Case const& c )
    {
        return new GuardedSetAdapter<Set>( c );
    }
} // namespace mh

#endif
