// C08: SegmentedQueue (intrusive and container), HP and DHP: conservation, quasi-factor bounded
// reordering, conservative emptiness rule. The permutation generator trait is replaced by
// deterministic (case-seeded) generators.
#include "common.h"

#include <algorithm>
#include <map>
#include <mutex>
#include <random>
#include <set>

#include <cds/opt/permutation.h>
#include <cds/intrusive/segmented_queue.h>
#include <cds/container/segmented_queue.h>

namespace hv {
    Registry& registry()
    {
        static Registry r;
        return r;
    }
    Graveyard& graveyard()
    {
        static Graveyard g;
        return g;
    }
}

using namespace hv;
namespace cc = cds::container;
namespace ci = cds::intrusive;

namespace {

    enum { H_ENQ = 0, H_DEQ = 1, H_CLEAR = 2 };
    const char* const kOpNames[] = { "enq", "deq", "clear" };

    // ---- deterministic permutation generators ----------------------------------------------
    // (a) the libcds shuffle generator driven by a case-seeded engine
    struct CaseDevice {
        typedef unsigned result_type;
        unsigned operator()() { return CaseRng::next(); }
    };
    typedef cds::opt::v::random_shuffle_permutation<int, std::minstd_rand, CaseDevice> perm_shuffle;

    // (b) rotation [s, s+1, ..., s+n-1] mod n with a case-seeded start (shape of random2_permutation)
    class perm_rot
    {
    public:
        typedef int integer_type;
        explicit perm_rot( size_t n )
            : m_nLen( int( n ))
        {
            reset();
        }
        operator integer_type() const { return ( m_nStart + m_nStep ) % m_nLen; }
        bool next() { return ++m_nStep < m_nLen; }
        void reset()
        {
            m_nStart = int( CaseRng::next() % unsigned( m_nLen ));
            m_nStep = 0;
        }

    private:
        int m_nLen;
        int m_nStart;
        int m_nStep;
    };

    // (c) identity order: every thread probes the cells in the same order (maximal cell contention)
    class perm_ident
    {
    public:
        typedef int integer_type;
        explicit perm_ident( size_t n )
            : m_nLen( int( n ))
            , m_nCur( 0 )
        {}
        operator integer_type() const { return m_nCur; }
        bool next() { return ++m_nCur < m_nLen; }
        void reset() { m_nCur = 0; }

    private:
        int m_nLen;
        int m_nCur;
    };

    // ---- per-case client state ------------------------------------------------------------------
    long g_live = 0;                    // live instances of the container value type
    std::vector<int> g_cleared;         // values of intrusive nodes disposed by clear() (not by the client)

    struct Item {
        int v;
        Item() : v( -7 ) { ++g_live; }
        explicit Item( int x ) : v( x ) { ++g_live; }
        Item( Item const& o ) : v( o.v ) { ++g_live; }
        Item( Item&& o ) noexcept : v( o.v ) { ++g_live; }
        Item& operator=( Item const& o ) = default;
        Item& operator=( Item&& o ) = default;
        ~Item() { --g_live; }
    };

    struct INode {
        int id;
        int val;
        bool by_client;
        uint64_t canary;
    };

    struct intr_disposer {
        void operator()( INode* p ) const
        {
            registry().on_dispose( p->id, "segmented queue item" );
            if ( p->canary != 0xc0ffee )
                fail( "disposed intrusive item has a bad canary" );
            if ( !p->by_client )
                g_cleared.push_back( p->val );
            delete p;
        }
    };

    struct QStat {
        size_t push_contended = 0, pop_contended = 0, pop_empty = 0, push_populated = 0;
        size_t create_req = 0, delete_req = 0, created = 0, deleted = 0;
    };
    template <typename Q>
    QStat read_stat( Q const& q )
    {
        QStat s;
        auto const& st = q.statistics();
        s.push_contended = st.m_nPushContended.get();
        s.push_populated = st.m_nPushPopulated.get();
        s.pop_contended = st.m_nPopContended.get();
        s.pop_empty = st.m_nPopEmpty.get();
        s.create_req = st.m_nCreateSegmentReq.get();
        s.delete_req = st.m_nDeleteSegmentReq.get();
        s.created = st.m_nSegmentCreated.get();
        s.deleted = st.m_nSegmentDeleted.get();
        return s;
    }

    // ---- adapters -------------------------------------------------------------------------------
    template <typename GC, typename Q>
    struct ValQ {
        static constexpr bool intrusive = false;
        Q q;
        explicit ValQ( size_t qf ) : q( qf ) {}
        void enq( int v, int flavour )
        {
            bool ok;
            if ( flavour == 1 )
                ok = q.enqueue_with( [v]( Item& dst ) { dst.v = v; } );
            else if ( flavour == 2 )
                ok = q.emplace( v );
            else
                ok = q.enqueue( Item( v ));
            if ( !ok )
                fail( "container SegmentedQueue::enqueue returned false" );
        }
        int deq( int flavour )
        {
            if ( flavour == 1 ) {
                int r = -1;
                if ( !q.dequeue_with( [&r]( Item& src ) { r = src.v; } ))
                    return -1;
                return r;
            }
            Item it( -1 );
            return q.pop( it ) ? it.v : -1;
        }
    };

    template <typename GC, typename Q>
    struct IntrQ {
        static constexpr bool intrusive = true;
        Q q;
        explicit IntrQ( size_t qf ) : q( qf ) {}
        void enq( int v, int flavour )
        {
            INode* n = new INode;
            n->id = registry().add();
            n->val = v;
            n->by_client = false;
            n->canary = 0xc0ffee;
            bool ok = flavour == 1 ? q.push( *n ) : q.enqueue( *n );
            if ( !ok )
                fail( "intrusive SegmentedQueue::enqueue returned false" );
        }
        int deq( int flavour )
        {
            INode* p = flavour == 1 ? q.pop() : q.dequeue();
            if ( !p )
                return -1;
            cdsverif::point();
            if ( p->canary != 0xc0ffee )
                fail( "dequeued intrusive item has a bad canary" );
            int v = p->val;
            // the disposer is not called for a dequeued item: dispose it as the documentation says
            p->by_client = true;
            GC::template retire<intr_disposer>( p );
            return v;
        }
    };

    struct Gcs {
        std::unique_ptr<HpSingleton> hp;
        std::unique_ptr<DhpSingleton> dhp;
    };
    template <typename GC>
    void make_gc( Gcs& g, Case const& c, size_t hazards );
    template <>
    void make_gc<cds::gc::HP>( Gcs& g, Case const& c, size_t hazards )
    {
        // exactly the declared hazard pointer count; small retired arrays so that scans happen
        size_t threads = c.prog.size() + 2;
        g.hp.reset( new HpSingleton( hazards, threads, hazards * threads + size_t( cfg_at( c, 3, 1 )), false ));
    }
    template <>
    void make_gc<cds::gc::DHP>( Gcs& g, Case const& c, size_t )
    {
        (void) c;
        g.dhp.reset( new DhpSingleton( 4 ));
    }

    const int kQfTable[] = { 2, 2, 3, 4, 5, 8 };

    // ---- oracle ---------------------------------------------------------------------------------
    struct ItemRec {
        size_t enq = 0;             // history index of the enqueue
        bool dequeued = false;
        uint64_t dinv = 0, dresp = 0;   // interval of the operation that removed it
    };

    CDSVERIF_NOCOV void check_history( std::vector<Ev> const& h, size_t QF, bool have_clear, bool cleared_known,
        std::vector<int> const& cleared )
    {
        auto text = [&h]() { return history_text( h, kOpNames ); };
        std::map<int64_t, ItemRec> items;
        for ( size_t i = 0; i < h.size(); ++i )
            if ( h[i].op == H_ENQ ) {
                if ( items.count( h[i].a )) {
                    fail( "harness error: value enqueued twice" );
                    return;
                }
                items[h[i].a].enq = i;
            }
        // (1) conservation
        uint64_t clear_inv = 0, clear_resp = 0;
        for ( size_t i = 0; i < h.size(); ++i ) {
            Ev const& e = h[i];
            if ( e.op == H_CLEAR ) {
                clear_inv = e.inv;
                clear_resp = e.resp;
            }
            if ( e.op != H_DEQ || e.r < 0 )
                continue;
            auto it = items.find( e.r );
            if ( it == items.end()) {
                fail( "dequeue #" + std::to_string( i ) + " returned value " + std::to_string( e.r ) + " that was never enqueued: " + text());
                return;
            }
            if ( it->second.dequeued ) {
                fail( "value " + std::to_string( e.r ) + " dequeued twice (second time by #" + std::to_string( i ) + "): " + text());
                return;
            }
            if ( e.resp < h[it->second.enq].inv ) {
                fail( "value " + std::to_string( e.r ) + " dequeued (#" + std::to_string( i ) + ") before its enqueue began: " + text());
                return;
            }
            it->second.dequeued = true;
            it->second.dinv = e.inv;
            it->second.dresp = e.resp;
        }
        if ( have_clear ) {
            // items removed by clear(): observed through the disposer (intrusive) or by difference (container)
            if ( cleared_known ) {
                for ( int v : cleared ) {
                    auto it = items.find( v );
                    if ( it == items.end()) {
                        fail( "clear() disposed value " + std::to_string( v ) + " that was never enqueued: " + text());
                        return;
                    }
                    if ( it->second.dequeued ) {
                        fail( "clear() disposed value " + std::to_string( v ) + " that was dequeued/disposed before: " + text());
                        return;
                    }
                    it->second.dequeued = true;
                    it->second.dinv = clear_inv;
                    it->second.dresp = clear_resp;
                }
            }
            else {
                for ( auto& kv : items )
                    if ( !kv.second.dequeued ) {
                        kv.second.dequeued = true;
                        kv.second.dinv = clear_inv;
                        kv.second.dresp = clear_resp;
                    }
            }
        }
        // an item that was never removed is still in the queue at the end of the history
        for ( auto& kv : items )
            if ( !kv.second.dequeued )
                kv.second.dinv = kv.second.dresp = ~0ull;
        // (2) bounded reordering, conservative reading: when y is dequeued by d, the items x whose
        // enqueue completed before enq(y) began and whose removal had not even begun when d returned
        // are certainly still in the queue: there must be fewer than QF of them
        for ( size_t i = 0; i < h.size(); ++i ) {
            Ev const& d = h[i];
            if ( d.op != H_DEQ || d.r < 0 )
                continue;
            Ev const& ey = h[items[d.r].enq];
            size_t older = 0;
            for ( auto const& kv : items ) {
                if ( kv.first == d.r )
                    continue;
                if ( h[kv.second.enq].resp < ey.inv && kv.second.dinv > d.resp )
                    ++older;
            }
            if ( older >= QF ) {
                fail( "dequeue #" + std::to_string( i ) + " returned " + std::to_string( d.r ) + " while " + std::to_string( older ) +
                    " items enqueued strictly before it were still in the queue (quasi factor " + std::to_string( QF ) + "): " + text());
                return;
            }
        }
        // (3) conservative emptiness
        for ( size_t i = 0; i < h.size(); ++i ) {
            Ev const& d = h[i];
            if ( d.op != H_DEQ || d.r >= 0 )
                continue;
            for ( auto const& kv : items )
                if ( h[kv.second.enq].resp < d.inv && kv.second.dinv > d.resp ) {
                    fail( "dequeue #" + std::to_string( i ) + " reported empty although value " + std::to_string( kv.first ) +
                        " was in the queue during the whole call: " + text());
                    return;
                }
        }
        // (1) completeness: drained + dequeued == enqueued
        for ( auto const& kv : items )
            if ( !kv.second.dequeued ) {
                fail( "value " + std::to_string( kv.first ) + " was enqueued but neither dequeued nor drained (lost item): " + text());
                return;
            }
    }

    template <typename GC, typename Adapter>
    Verdict run_queue( Case const& c )
    {
        lib_init();
        case_reset();
        registry().reset();
        CaseRng::seed( c.seed );
        g_live = 0;
        g_cleared.clear();
        History hist;
        SchedStats st;
        QStat qs;
        size_t QF = 0;
        long inflight = 0, max_inflight = 0;
        bool clear_mode = cfg_at( c, 2, 0 ) != 0;
        std::string late_msg;
        {
            Gcs gcs;
            make_gc<GC>( gcs, c, decltype( Adapter::q )::c_nHazardPtrCount );
            session_begin( sched_params( c ));
            {
                Attach main_attach;
                {
                    int qfi = cfg_at( c, 0, 0 );
                    if ( qfi < 0 || qfi > 5 )
                        qfi = 0;
                    size_t req = size_t( kQfTable[qfi] );
                    Adapter ad( req );
                    QF = ad.q.quasi_factor();
                    if ( QF < req || QF >= 2 * req || ( QF & ( QF - 1 )) != 0 )
                        fail( "quasi_factor() " + std::to_string( QF ) + " is not the requested " + std::to_string( req ) + " rounded up to a power of two" );
                    int next_val = 1;
                    auto do_enq = [&]( int thread, int flavour ) {
                        int v = next_val++;
                        size_t e = hist.begin( thread, H_ENQ, v );
                        ad.enq( v, flavour );
                        hist.end( e, 1 );
                        if ( ++inflight > max_inflight )
                            max_inflight = inflight;
                    };
                    auto do_deq = [&]( int thread, int flavour ) {
                        size_t e = hist.begin( thread, H_DEQ );
                        int v = ad.deq( flavour );
                        hist.end( e, v );
                        if ( v >= 0 )
                            --inflight;
                        return v;
                    };
                    int prefill = cfg_at( c, 1, 0 );
                    for ( int i = 0; i < prefill; ++i )
                        do_enq( 0, 0 );
                    std::vector<std::function<void()>> bodies;
                    for ( size_t t = 0; t < c.prog.size(); ++t ) {
                        bodies.push_back( [&, t]() {
                            Attach a;
                            for ( Op const& op : c.prog[t] ) {
                                if ( op.code == 0 )
                                    do_enq( int( t ) + 1, op.a );
                                else if ( op.code == 1 )
                                    do_deq( int( t ) + 1, op.a );
                                else {
                                    GC::scan();
                                    note_class( "scan_op" );
                                }
                            }
                        } );
                    }
                    run_threads( bodies );
                    // quiescent
                    // (reported after the history invariants, which give the more precise diagnosis)
                    size_t sz = ad.q.size();
                    if ( sz != size_t( inflight ))
                        late_msg = "size() at quiescence is " + std::to_string( sz ) + " but " + std::to_string( inflight ) + " items are in the queue";
                    else if ( ad.q.empty() != ( inflight == 0 ))
                        late_msg = "empty() at quiescence disagrees with the number of items in the queue";
                    if ( clear_mode ) {
                        size_t e = hist.begin( 0, H_CLEAR );
                        ad.q.clear();
                        hist.end( e, 0 );
                        note_class( "clear_final" );
                    }
                    // drain (after clear() it must report empty at once)
                    size_t drained = 0;
                    for ( ;; ) {
                        int v = do_deq( 0, 0 );
                        if ( v < 0 )
                            break;
                        if ( ++drained > 1000 ) {
                            fail( "drain does not terminate" );
                            break;
                        }
                    }
                    if ( clear_mode && drained )
                        fail( "dequeue returned an item after clear() at quiescence: " + history_text( hist.ev, kOpNames ));
                    if (( !ad.q.empty() || ad.q.size() != 0 ) && late_msg.empty())
                        late_msg = "empty()/size() say the queue is not empty after it was drained (size " + std::to_string( ad.q.size()) + ")";
                    qs = read_stat( ad.q );
                }
            }
            st = session_end();
        } // singletons destroyed: every retired item / segment has been disposed by now
        if ( !failed())
            check_history( hist.ev, QF, clear_mode, Adapter::intrusive, g_cleared );
        if ( !failed() && !late_msg.empty())
            fail( late_msg + ": " + history_text( hist.ev, kOpNames ));
        if ( !failed()) {
            for ( size_t i = 0; i < registry().recs.size(); ++i )
                if ( registry().recs[i].disposed != 1 ) {
                    fail( "intrusive item #" + std::to_string( i ) + " disposed " + std::to_string( registry().recs[i].disposed ) + " times after SMR destruction" );
                    break;
                }
            if ( g_live != 0 )
                fail( "container value instances alive after queue and SMR destruction: " + std::to_string( g_live ));
        }
        unsigned ov = hist.overlaps();
        if ( ov )
            note_class( "overlap" );
        if ( st.preemptions )
            note_class( "preempted" );
        if ( qs.created >= 2 )
            note_class( "multi_segment" );
        if ( max_inflight > long( QF ))
            note_class( "inflight_gt_qf" );
        if ( qs.deleted )
            note_class( "segment_deleted" );
        if ( qs.create_req > qs.created )
            note_class( "create_tail_raced" );
        if ( qs.delete_req > qs.deleted )
            note_class( "remove_head_raced" );
        if ( qs.push_contended )
            note_class( "push_contended" );
        if ( qs.pop_contended )
            note_class( "pop_contended" );
        for ( Ev const& e : hist.ev )
            if ( e.thread > 0 && e.op == H_DEQ && e.r < 0 ) {
                note_class( "worker_saw_empty" );
                break;
            }
        {
            std::string k = "qf_" + std::to_string( QF );
            note_class( k.c_str());
        }
        bool nontrivial = qs.created >= 2 && ov > 0 && st.preemptions > 0;
        return finish( st, hist.hash(), nontrivial );
    }

    // ---- variant table --------------------------------------------------------------------------
    typedef cds::gc::HP HP;
    typedef cds::gc::DHP DHP;

    template <typename Perm, typename Lock = cds::sync::spin>
    struct ctraits : cc::segmented_queue::traits {
        typedef Perm permutation_generator;
        typedef Lock lock_type;
        typedef cc::segmented_queue::stat<> stat;
    };
    template <typename Perm, typename Lock = cds::sync::spin>
    struct itraits : ci::segmented_queue::traits {
        typedef Perm permutation_generator;
        typedef Lock lock_type;
        typedef intr_disposer disposer;
        typedef ci::segmented_queue::stat<> stat;
    };

    struct Variant {
        const char* name;
        Verdict (*run)( Case const& );
    };

#define CQ( GC, ... ) run_queue<GC, ValQ<GC, cc::SegmentedQueue<GC, Item, ctraits<__VA_ARGS__>>>>
#define IQ( GC, ... ) run_queue<GC, IntrQ<GC, ci::SegmentedQueue<GC, INode, itraits<__VA_ARGS__>>>>
    const Variant kVariants[] = {
        { "container_HP_shuffle", CQ( HP, perm_shuffle ) },
        { "container_DHP_rot", CQ( DHP, perm_rot ) },
        { "container_HP_ident_mutex", CQ( HP, perm_ident, std::mutex ) },
        { "container_DHP_shuffle", CQ( DHP, perm_shuffle ) },
        { "container_HP_rot", CQ( HP, perm_rot ) },
        { "intrusive_HP_rot", IQ( HP, perm_rot ) },
        { "intrusive_DHP_shuffle", IQ( DHP, perm_shuffle ) },
        { "intrusive_HP_ident", IQ( HP, perm_ident ) },
        { "intrusive_DHP_ident_mutex", IQ( DHP, perm_ident, std::mutex ) },
        { "intrusive_HP_shuffle", IQ( HP, perm_shuffle ) },
    };
    const size_t kNumVariants = sizeof( kVariants ) / sizeof( kVariants[0] );
}

namespace cdsverif {
    Schema const& harness_schema()
    {
        static Schema s = []() {
            Schema x;
            x.name = "segq";
            for ( size_t i = 0; i < kNumVariants; ++i )
                x.variants.push_back( kVariants[i].name );
            // qf_idx selects the requested quasi factor from {2,2,3,4,5,8} (3 and 5 are rounded up by the constructor)
            x.cfg = { { "qf_idx", 0, 5 }, { "prefill", 0, 9 }, { "final_clear", 0, 1 }, { "retired_extra", 1, 6 } };
            // a = API flavour (container: enqueue/enqueue_with/emplace, pop/dequeue_with; intrusive: enqueue/push, dequeue/pop)
            x.ops = { { "enq", 6, 2, 0 }, { "deq", 5, 1, 0 }, { "scan", 1, 0, 0 } };
            x.max_ops_quick = 6;
            x.max_ops_thorough = 8;
            x.nontrivial_rule = "at least 2 segments were created during the case (segmented_queue::stat::m_nSegmentCreated >= 2), "
                "the history has >=1 pair of overlapping operations of different threads and >=1 pre-emptive switch happened";
            return x;
        }();
        return s;
    }

    Verdict run_case( Case const& c )
    {
        size_t v = size_t( c.variant ) < kNumVariants ? size_t( c.variant ) : 0;
        return kVariants[v].run( c );
    }
}
